#!/bin/sh
# Build the framework offline from files on disk: the rustc_private facts driver, then one facts extraction
# (which also warms the cargo target dir under .cache/ with the workspace's dependencies).
set -e
HERE=$(cd "$(dirname "$0")" && pwd)
export CARGO_NET_OFFLINE=true
cd "$HERE/engine/mdkfacts" && cargo build --release --offline
cd "$HERE" && PYTHONHASHSEED=0 python3 engine/rules/extract.py mip04 && PYTHONHASHSEED=0 python3 engine/rules/witness.py > /dev/null
