#![feature(rustc_private)]
extern crate rustc_driver;
extern crate rustc_interface;
extern crate rustc_middle;
extern crate rustc_hir;
extern crate rustc_span;
extern crate rustc_abi;
use rustc_driver::Compilation;
use rustc_middle::ty::{self, TyCtxt, TypingEnv, Instance};
use rustc_middle::mir::{self, TerminatorKind, Operand, StatementKind, Rvalue, ProjectionElem, Const, ConstValue};
use rustc_hir::def::DefKind;
struct Cb;

fn place_str<'tcx>(tcx: TyCtxt<'tcx>, body: &mir::Body<'tcx>, p: &mir::Place<'tcx>) -> String {
    let mut s = format!("_{}", p.local.as_usize());
    let mut pty = mir::PlaceTy::from_ty(body.local_decls[p.local].ty);
    for elem in p.projection.iter() {
        match elem {
            ProjectionElem::Deref => s.push_str(".*"),
            ProjectionElem::Field(f, _) => {
                let name = match pty.ty.kind() {
                    ty::Adt(adt, _) => {
                        let v = match pty.variant_index { Some(vi) => adt.variant(vi), None => adt.non_enum_variant() };
                        v.fields[f].name.to_string()
                    }
                    _ => format!("{}", f.as_usize()),
                };
                s.push('.'); s.push_str(&name);
            }
            ProjectionElem::Downcast(name, _) => { s.push_str(&format!(" as {:?}", name)); }
            _ => s.push_str(".?"),
        }
        pty = pty.projection_ty(tcx, elem);
    }
    s
}

fn const_str<'tcx>(tcx: TyCtxt<'tcx>, c: &mir::ConstOperand<'tcx>) -> Option<String> {
    let ty = c.const_.ty();
    if let ty::Ref(_, inner, _) = ty.kind() {
        if inner.is_str() {
            if let Const::Val(val, _) = c.const_ {
                if let Some(bytes) = val.try_get_slice_bytes_for_diagnostics(tcx) {
                    return Some(String::from_utf8_lossy(bytes).to_string());
                }
            }
        }
    }
    None
}

impl rustc_driver::Callbacks for Cb {
    fn after_analysis<'tcx>(&mut self, _c: &rustc_interface::interface::Compiler, tcx: TyCtxt<'tcx>) -> Compilation {
        let krate = tcx.crate_name(rustc_hir::def_id::LOCAL_CRATE).to_string();
        if krate != "mdk_core" && krate != "mdk_sqlite_storage" { return Compilation::Continue; }
        let mut out = String::new();
        for def in tcx.hir_body_owners() {
            let did = def.to_def_id();
            let kind = tcx.def_kind(did);
            if !matches!(kind, DefKind::Fn | DefKind::AssocFn | DefKind::Closure) { continue; }
            let path = tcx.def_path_str(did);
            let interesting = path.contains("ensure_hydrated") || path.contains("process_application_message") || path.contains("delete_group_snapshot") || path.contains("is_leaf_node_admin");
            if !interesting { continue; }
            let body = tcx.optimized_mir(did);
            let tenv = TypingEnv::post_analysis(tcx, did);
            out.push_str(&format!("FN {} kind={:?} vis={:?}\n", path, kind, if matches!(kind, DefKind::Closure) { None } else { Some(tcx.visibility(did)) }));
            for (bbi, bb) in body.basic_blocks.iter_enumerated() {
                for st in &bb.statements {
                    if let StatementKind::Assign(b) = &st.kind {
                        let (pl, rv) = &**b;
                        match rv {
                            Rvalue::Aggregate(k, ops) => {
                                if let mir::AggregateKind::Adt(adt_did, vi, _, _, _) = &**k {
                                    let adt = tcx.adt_def(*adt_did);
                                    let v = adt.variant(*vi);
                                    let fields: Vec<String> = v.fields.iter().zip(ops.iter()).map(|(f, o)| format!("{}={:?}", f.name, o)).collect();
                                    if adt.did().is_local() || tcx.def_path_str(*adt_did).contains("Message") {
                                        out.push_str(&format!("  bb{} AGG {} = {}::{} {{{}}}\n", bbi.as_usize(), place_str(tcx, body, pl), tcx.def_path_str(*adt_did), v.name, fields.join(", ")));
                                    }
                                }
                            }
                            Rvalue::Use(Operand::Copy(p), ..) | Rvalue::Use(Operand::Move(p), ..) | Rvalue::Ref(_, _, p) => {
                                if !p.projection.is_empty() && p.projection.iter().any(|e| matches!(e, ProjectionElem::Field(..))) {
                                    out.push_str(&format!("  bb{} {} <- {}\n", bbi.as_usize(), place_str(tcx, body, pl), place_str(tcx, body, p)));
                                }
                            }
                            _ => {}
                        }
                    }
                }
                let term = bb.terminator();
                if let TerminatorKind::Call { func, args, destination, .. } = &term.kind {
                    if let Operand::Constant(c) = func {
                        if let ty::FnDef(callee, gargs) = c.const_.ty().kind() {
                            let resolved = Instance::try_resolve(tcx, tenv, *callee, gargs).ok().flatten().map(|i| tcx.def_path_str(i.def_id()));
                            let span = term.source_info.span;
                            let bt: Vec<String> = span.macro_backtrace().filter_map(|e| e.macro_def_id.map(|d| tcx.def_path_str(d))).collect();
                            let strs: Vec<String> = args.iter().filter_map(|a| if let Operand::Constant(k) = &a.node { const_str(tcx, k) } else { None }).collect();
                            let cp = tcx.def_path_str(*callee);
                            if cp.contains("fmt::rt::Argument") || cp.contains("save_") || cp.contains("execute") || cp.contains("epoch") || cp.contains("from_json") || cp.contains("contains") || !strs.is_empty() {
                                out.push_str(&format!("  bb{} CALL {} = {}<{}> resolved={:?} macro={:?} strs={:?} loc={}\n", bbi.as_usize(), place_str(tcx, body, destination), cp, gargs.iter().map(|g| g.to_string()).collect::<Vec<_>>().join(","), resolved, bt, strs, tcx.sess.source_map().span_to_diagnostic_string(span)));
                            }
                        }
                    }
                }
            }
        }
        eprintln!("{}", out);
        Compilation::Continue
    }
}
fn main() {
    let mut args: Vec<String> = std::env::args().collect();
    args.remove(1);
    rustc_driver::run_compiler(&args, &mut Cb);
}
