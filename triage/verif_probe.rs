//! triage probes (scratch only)
use nostr::{EventBuilder, EventId, Keys, Kind};
use mdk_storage_traits::groups::{GroupStorage, Pagination};
use mdk_storage_traits::MdkStorageProvider;
use mdk_storage_traits::messages::MessageStorage;
use nostr::base64::Engine;
use nostr::base64::engine::general_purpose::STANDARD as BASE64;

use crate::messages::MessageProcessingResult;
use crate::test_util::*;
use crate::tests::create_test_mdk;
use crate::MDK;

fn two_party() -> (MDK<mdk_memory_storage::MdkMemoryStorage>, MDK<mdk_memory_storage::MdkMemoryStorage>, Keys, Keys, crate::GroupId) {
    let alice_keys = Keys::generate();
    let bob_keys = Keys::generate();
    let alice = create_test_mdk();
    let bob = create_test_mdk();
    let admins = vec![alice_keys.public_key(), bob_keys.public_key()];
    let bob_kp = create_key_package_event(&bob, &bob_keys);
    let res = alice.create_group(&alice_keys.public_key(), vec![bob_kp], create_nostr_group_config_data(admins)).unwrap();
    let gid = res.group.mls_group_id.clone();
    alice.merge_pending_commit(&gid).unwrap();
    let w = bob.process_welcome(&EventId::all_zeros(), &res.welcome_rumors[0]).unwrap();
    bob.accept_welcome(&w).unwrap();
    (alice, bob, alice_keys, bob_keys, gid)
}

#[test]
fn probe_c04_id_collision() {
    let (alice, bob, alice_keys, bob_keys, gid) = two_party();
    // Alice sends an honest message; Bob stores it.
    let mut honest = create_test_rumor(&alice_keys, "honest from alice");
    let honest_id = honest.id();
    let ev = alice.create_message(&gid, honest).unwrap();
    assert!(matches!(bob.process_message(&ev).unwrap(), MessageProcessingResult::ApplicationMessage(_)));
    // Bob (malicious member) sends a rumor whose id field is pre-set to Alice's message id.
    let mut evil = create_test_rumor(&bob_keys, "EVIL replaced content");
    evil.id = Some(honest_id);
    let ev2 = bob.create_message(&gid, evil).unwrap();
    let r = alice.process_message(&ev2);
    println!("alice process evil: {:?}", r.as_ref().map(|_| "ok").map_err(|e| e.to_string()));
    let stored = alice.get_message(&gid, &honest_id).unwrap().unwrap();
    println!("C04 stored under honest id: content={:?} pubkey_is_bob={} verify_id={:?}", stored.content, stored.pubkey == bob_keys.public_key(), stored.event.verify_id().is_ok());
    println!("C04 message count on alice = {}", alice.get_messages(&gid, None).unwrap().len());
}

#[test]
fn probe_c18_pagination_overflow_memory() {
    let (alice, _bob, alice_keys, _bk, gid) = two_party();
    let r = create_test_rumor(&alice_keys, "m");
    alice.create_message(&gid, r).unwrap();
    let res = std::panic::catch_unwind(std::panic::AssertUnwindSafe(|| {
        alice.storage().messages(&gid, Some(Pagination::new(Some(1), Some(usize::MAX))))
    }));
    println!("C18 memory offset=usize::MAX -> panicked={} ", res.is_err());
}

#[test]
fn probe_c18_pagination_sqlite_negative_offset() {
    let dir = tempfile::tempdir().unwrap();
    let storage = mdk_sqlite_storage::MdkSqliteStorage::new_unencrypted(dir.path().join("a.db")).unwrap();
    let mdk = MDK::new(storage);
    let keys = Keys::generate();
    let gid = create_test_group(&mdk, &keys, &[], &[keys.public_key()]);
    for i in 0..3 { let r = create_test_rumor(&keys, &format!("m{i}")); mdk.create_message(&gid, r).unwrap(); }
    let res = mdk.storage().messages(&gid, Some(Pagination::new(Some(2), Some(usize::MAX))));
    println!("C18 sqlite offset=usize::MAX -> {:?}", res.map(|v| v.len()).map_err(|e| e.to_string()));
}

#[test]
fn probe_c09_sqlite_rollback_destroys_messages() {
    let dir = tempfile::tempdir().unwrap();
    let storage = mdk_sqlite_storage::MdkSqliteStorage::new_unencrypted(dir.path().join("a.db")).unwrap();
    let mdk = MDK::new(storage);
    let keys = Keys::generate();
    let gid = create_test_group(&mdk, &keys, &[], &[keys.public_key()]);
    for i in 0..3 { let r = create_test_rumor(&keys, &format!("m{i}")); mdk.create_message(&gid, r).unwrap(); }
    println!("C09 before: {} messages", mdk.get_messages(&gid, None).unwrap().len());
    mdk.storage().create_group_snapshot(&gid, "s1").unwrap();
    let again = mdk.storage().create_group_snapshot(&gid, "s1");
    println!("C09 retake same name on sqlite -> {:?}", again.map_err(|e| e.to_string()));
    mdk.storage().rollback_group_to_snapshot(&gid, "s1").unwrap();
    println!("C09 after rollback: {} messages", mdk.get_messages(&gid, None).unwrap().len());
}

#[test]
fn probe_c15_keypackage_trailing_bytes() {
    let mdk = create_test_mdk();
    let keys = Keys::generate();
    let relays = vec![nostr::RelayUrl::parse("wss://test.relay").unwrap()];
    let (content, tags, _) = mdk.create_key_package_for_event(&keys.public_key(), relays).unwrap();
    let mut bytes = BASE64.decode(&content).unwrap();
    bytes.extend_from_slice(b"TRAILING-GARBAGE");
    let content2 = BASE64.encode(&bytes);
    let ev = EventBuilder::new(Kind::MlsKeyPackage, content2).tags(tags).sign_with_keys(&keys).unwrap();
    println!("C15 key package with trailing bytes accepted = {}", mdk.parse_key_package(&ev).is_ok());
}

#[test]
fn probe_c16_welcome_overwrites_active_group() {
    use openmls::prelude::*;
    use tls_codec::Serialize as _;
    let (alice, bob, _ak, bob_keys, gid) = two_party();
    let before = bob.get_group(&gid).unwrap().unwrap();
    println!("C16 before: state={:?} name={:?} epoch={}", before.state, before.name, before.epoch);
    // Bob publishes a fresh key package (public)
    let kp_event = create_key_package_event(&bob, &bob_keys);
    // Attacker (outsider) crafts a group with the SAME MLS group id
    let mallory = create_test_mdk();
    let mk = Keys::generate();
    let (cred, signer) = mallory.generate_credential_with_key(&mk.public_key()).unwrap();
    let relays = vec![nostr::RelayUrl::parse("wss://evil.relay").unwrap()];
    let gd = crate::extension::NostrGroupDataExtension::new("PWNED", "x", vec![mk.public_key()], relays.clone(), None, None, None, None);
    let ext = Extension::Unknown(gd.extension_type(), UnknownExtension(gd.as_raw().tls_serialize_detached().unwrap()));
    let exts = Extensions::from_vec(vec![ext, mallory.required_capabilities_extension()]).unwrap();
    let cfg = MlsGroupCreateConfig::builder()
        .ciphersuite(mallory.ciphersuite)
        .use_ratchet_tree_extension(true)
        .capabilities(mallory.capabilities())
        .with_group_context_extensions(exts)
        .build();
    let mut g = MlsGroup::new_with_group_id(&mallory.provider, &signer, &cfg, openmls::group::GroupId::from_slice(gid.as_slice()), cred).unwrap();
    let kp = mallory.parse_key_package(&kp_event).unwrap();
    let (_c, welcome_out, _gi) = g.add_members(&mallory.provider, &signer, &[kp]).unwrap();
    g.merge_pending_commit(&mallory.provider).unwrap();
    let rumors = mallory.build_welcome_rumors_for_key_packages(&g, welcome_out.tls_serialize_detached().unwrap(), vec![kp_event], &relays).unwrap().unwrap();
    let r = bob.process_welcome(&EventId::from_slice(&[7u8; 32]).unwrap(), &rumors[0]);
    println!("C16 process_welcome (no consent yet) -> {:?}", r.as_ref().map(|w| w.group_name.clone()).map_err(|e| e.to_string()));
    let after = bob.get_group(&gid).unwrap().unwrap();
    println!("C16 after: state={:?} name={:?} epoch={} nostr_id_changed={}", after.state, after.name, after.epoch, after.nostr_group_id != before.nostr_group_id);
    // can Bob still receive Alice's messages?
    let ak = _ak;
    let m = alice.create_message(&gid, create_test_rumor(&ak, "hello after attack")).unwrap();
    println!("C16 bob processes alice msg after attack -> {:?}", bob.process_message(&m).map(|_| "ok").map_err(|e| e.to_string()));
}

#[test]
fn probe_c16_accept_replaces_active_group() {
    use openmls::prelude::*;
    use tls_codec::Serialize as _;
    let (alice, bob, ak, bob_keys, gid) = two_party();
    let kp_event = create_key_package_event(&bob, &bob_keys);
    let mallory = create_test_mdk();
    let mk = Keys::generate();
    let (cred, signer) = mallory.generate_credential_with_key(&mk.public_key()).unwrap();
    let relays = vec![nostr::RelayUrl::parse("wss://evil.relay").unwrap()];
    let gd = crate::extension::NostrGroupDataExtension::new("PWNED", "x", vec![mk.public_key()], relays.clone(), None, None, None, None);
    let ext = Extension::Unknown(gd.extension_type(), UnknownExtension(gd.as_raw().tls_serialize_detached().unwrap()));
    let exts = Extensions::from_vec(vec![ext, mallory.required_capabilities_extension()]).unwrap();
    let cfg = MlsGroupCreateConfig::builder()
        .ciphersuite(mallory.ciphersuite)
        .use_ratchet_tree_extension(true)
        .capabilities(mallory.capabilities())
        .with_group_context_extensions(exts)
        .build();
    let mut g = MlsGroup::new_with_group_id(&mallory.provider, &signer, &cfg, openmls::group::GroupId::from_slice(gid.as_slice()), cred).unwrap();
    let kp = mallory.parse_key_package(&kp_event).unwrap();
    let (_c, welcome_out, _gi) = g.add_members(&mallory.provider, &signer, &[kp]).unwrap();
    g.merge_pending_commit(&mallory.provider).unwrap();
    let rumors = mallory.build_welcome_rumors_for_key_packages(&g, welcome_out.tls_serialize_detached().unwrap(), vec![kp_event], &relays).unwrap().unwrap();
    let w = bob.process_welcome(&EventId::from_slice(&[8u8; 32]).unwrap(), &rumors[0]).unwrap();
    let mid = bob.get_group(&gid).unwrap().unwrap();
    println!("C16b after process_welcome: state={:?} name={:?}", mid.state, mid.name);
    let members_before = bob.get_members(&gid).unwrap();
    let r = bob.accept_welcome(&w);
    println!("C16b accept_welcome of the crafted invitation -> {:?}", r.as_ref().map_err(|e| e.to_string()));
    let after = bob.get_group(&gid).unwrap().unwrap();
    let members_after = bob.get_members(&gid).unwrap();
    println!("C16b after accept: state={:?} name={:?} members_changed={} alice_still_member={}", after.state, after.name, members_before != members_after, members_after.contains(&ak.public_key()));
    let m = alice.create_message(&gid, create_test_rumor(&ak, "hello after accept")).unwrap();
    println!("C16b bob processes alice msg after accept -> {:?}", bob.process_message(&m).map(|_| "ok").map_err(|e| e.to_string()));
}

#[test]
fn probe_c01_own_commit_merged_immediately_then_better_arrives() {
    use crate::groups::NostrGroupDataUpdate;
    // Alice(admin), Bob(admin), Carol
    let ak = Keys::generate(); let bk = Keys::generate(); let ck = Keys::generate();
    let alice = create_test_mdk(); let bob = create_test_mdk(); let carol = create_test_mdk();
    let admins = vec![ak.public_key(), bk.public_key()];
    let res = alice.create_group(&ak.public_key(), vec![create_key_package_event(&bob, &bk), create_key_package_event(&carol, &ck)], create_nostr_group_config_data(admins)).unwrap();
    let gid = res.group.mls_group_id.clone();
    alice.merge_pending_commit(&gid).unwrap();
    for (m, i) in [(&bob, 0usize), (&carol, 1usize)] {
        let w = m.process_welcome(&EventId::from_slice(&[i as u8 + 1; 32]).unwrap(), &res.welcome_rumors[i]).unwrap();
        m.accept_welcome(&w).unwrap();
    }
    // competing commits on the same epoch
    let ca = alice.update_group_data(&gid, NostrGroupDataUpdate::new().name("from-alice")).unwrap().evolution_event;
    alice.merge_pending_commit(&gid).unwrap(); // "immediately after publishing"
    let cb = loop {
        let e = bob.update_group_data(&gid, NostrGroupDataUpdate::new().name("from-bob")).unwrap().evolution_event;
        let better = e.created_at < ca.created_at || (e.created_at == ca.created_at && e.id.to_hex() < ca.id.to_hex());
        if better { break e; }
        bob.clear_pending_commit(&gid).unwrap();
    };
    // Bob applies his own on relay echo
    println!("C01 bob <- cb: {:?}", bob.process_message(&cb).map(|r| format!("{r:?}")).map_err(|e| e.to_string()));
    println!("C01 bob <- ca: {:?}", bob.process_message(&ca).map(|r| format!("{r:?}")).map_err(|e| e.to_string()));
    // Carol: worse first, then better
    println!("C01 carol <- ca: {:?}", carol.process_message(&ca).map(|r| format!("{r:?}")).map_err(|e| e.to_string()));
    println!("C01 carol <- cb: {:?}", carol.process_message(&cb).map(|r| format!("{r:?}")).map_err(|e| e.to_string()));
    // Alice gets the better commit after having merged her own immediately
    println!("C01 alice <- cb: {:?}", alice.process_message(&cb).map(|r| format!("{r:?}")).map_err(|e| e.to_string()));
    println!("C01 alice <- cb again: {:?}", alice.process_message(&cb).map(|r| format!("{r:?}")).map_err(|e| e.to_string()));
    for (n, m) in [("alice", &alice), ("bob", &bob), ("carol", &carol)] {
        let g = m.get_group(&gid).unwrap().unwrap();
        println!("C01 final {n}: epoch={} name={:?}", g.epoch, g.name);
    }
}

#[test]
fn probe_c02_late_message_epoch_label() {
    use crate::groups::NostrGroupDataUpdate;
    let (alice, bob, ak, _bk, gid) = two_party();
    let e0 = alice.get_group(&gid).unwrap().unwrap().epoch;
    // Alice sends a message at epoch e0, then commits; Bob receives commit first, message late.
    let msg = alice.create_message(&gid, create_test_rumor(&ak, "sent at e0")).unwrap();
    let c = alice.update_group_data(&gid, NostrGroupDataUpdate::new().name("n2")).unwrap().evolution_event;
    alice.merge_pending_commit(&gid).unwrap();
    bob.process_message(&c).unwrap();
    match bob.process_message(&msg).unwrap() {
        MessageProcessingResult::ApplicationMessage(m) => println!("C02 sent at epoch {} stored with epoch {:?} (receiver epoch {})", e0, m.epoch, bob.get_group(&gid).unwrap().unwrap().epoch),
        other => println!("C02 unexpected {other:?}"),
    }
}

#[test]
fn probe_c02_future_epoch_message_then_commit() {
    use crate::groups::NostrGroupDataUpdate;
    let (alice, bob, ak, _bk, gid) = two_party();
    let c = alice.update_group_data(&gid, NostrGroupDataUpdate::new().name("n2")).unwrap().evolution_event;
    alice.merge_pending_commit(&gid).unwrap();
    let msg = alice.create_message(&gid, create_test_rumor(&ak, "sent at e1")).unwrap();
    println!("C02 bob <- msg(e1) before commit: {:?}", bob.process_message(&msg).map(|r| format!("{r:?}")).map_err(|e| e.to_string()));
    println!("C02 bob <- commit: {:?}", bob.process_message(&c).map(|r| format!("{r:?}")).map_err(|e| e.to_string()));
    println!("C02 bob <- msg(e1) re-offered: {:?}", bob.process_message(&msg).map(|r| format!("{r:?}")).map_err(|e| e.to_string()));
    println!("C02 bob stored messages = {}", bob.get_messages(&gid, None).unwrap().len());
}

#[test]
fn probe_c05_admin_rename_sweeps_foreign_remove_proposal() {
    use crate::groups::NostrGroupDataUpdate;
    use openmls::prelude::*;
    use tls_codec::Serialize as _;
    let ak = Keys::generate(); let bk = Keys::generate(); let ck = Keys::generate();
    let alice = create_test_mdk(); let bob = create_test_mdk(); let carol = create_test_mdk();
    let admins = vec![ak.public_key(), bk.public_key()];
    let res = alice.create_group(&ak.public_key(), vec![create_key_package_event(&bob, &bk), create_key_package_event(&carol, &ck)], create_nostr_group_config_data(admins)).unwrap();
    let gid = res.group.mls_group_id.clone();
    alice.merge_pending_commit(&gid).unwrap();
    for (m, i) in [(&bob, 0usize), (&carol, 1usize)] {
        let w = m.process_welcome(&EventId::from_slice(&[i as u8 + 1; 32]).unwrap(), &res.welcome_rumors[i]).unwrap();
        m.accept_welcome(&w).unwrap();
    }
    // Carol (non-admin) proposes removing Alice, using the MLS library directly.
    let mut cg = carol.load_mls_group(&gid).unwrap().unwrap();
    let signer = carol.load_mls_signer(&cg).unwrap();
    let alice_leaf = cg.members().find(|m| carol.pubkey_for_member(m).unwrap() == ak.public_key()).unwrap().index;
    let (prop_msg, _r) = cg.propose_remove_member(&carol.provider, &signer, alice_leaf).unwrap();
    let prop_event = carol.build_message_event(&gid, prop_msg.tls_serialize_detached().unwrap()).unwrap();
    println!("C05 bob <- carol's Remove(alice) proposal: {:?}", bob.process_message(&prop_event).map(|r| format!("{r:?}")).map_err(|e| e.to_string()));
    println!("C05 bob pending changes: {:?}", bob.pending_member_changes(&gid).unwrap().removals.len());
    // Bob (admin) merely renames the group
    let c = bob.update_group_data(&gid, NostrGroupDataUpdate::new().name("renamed")).unwrap().evolution_event;
    bob.merge_pending_commit(&gid).unwrap();
    println!("C05 bob members after rename: {} (alice still member = {})", bob.get_members(&gid).unwrap().len(), bob.get_members(&gid).unwrap().contains(&ak.public_key()));
    let _ = c;
}

#[test]
fn probe_c11_restart_loses_race_resolution() {
    use crate::groups::NostrGroupDataUpdate;
    let ak = Keys::generate(); let bk = Keys::generate(); let ck = Keys::generate();
    let alice = create_test_mdk(); let bob = create_test_mdk();
    let dir = tempfile::tempdir().unwrap();
    let path = dir.path().join("carol.db");
    let carol = MDK::new(mdk_sqlite_storage::MdkSqliteStorage::new_unencrypted(&path).unwrap());
    let admins = vec![ak.public_key(), bk.public_key()];
    let res = alice.create_group(&ak.public_key(), vec![create_key_package_event(&bob, &bk), create_key_package_event(&carol, &ck)], create_nostr_group_config_data(admins)).unwrap();
    let gid = res.group.mls_group_id.clone();
    alice.merge_pending_commit(&gid).unwrap();
    let w = bob.process_welcome(&EventId::from_slice(&[1; 32]).unwrap(), &res.welcome_rumors[0]).unwrap(); bob.accept_welcome(&w).unwrap();
    let w = carol.process_welcome(&EventId::from_slice(&[2; 32]).unwrap(), &res.welcome_rumors[1]).unwrap(); carol.accept_welcome(&w).unwrap();
    let ca = alice.update_group_data(&gid, NostrGroupDataUpdate::new().name("from-alice")).unwrap().evolution_event;
    let cb = loop {
        let e = bob.update_group_data(&gid, NostrGroupDataUpdate::new().name("from-bob")).unwrap().evolution_event;
        let better = e.created_at < ca.created_at || (e.created_at == ca.created_at && e.id.to_hex() < ca.id.to_hex());
        if better { break e; }
        bob.clear_pending_commit(&gid).unwrap();
    };
    println!("C11 carol <- ca (worse): {:?}", carol.process_message(&ca).map(|r| format!("{r:?}")).map_err(|e| e.to_string()));
    drop(carol);
    let carol = MDK::new(mdk_sqlite_storage::MdkSqliteStorage::new_unencrypted(&path).unwrap());
    println!("C11 carol(restarted) <- cb (better): {:?}", carol.process_message(&cb).map(|r| format!("{r:?}")).map_err(|e| e.to_string()));
    println!("C11 carol final name={:?} (winner should be from-bob)", carol.get_group(&gid).unwrap().unwrap().name);
}

#[test]
fn probe_c06_malformed_group_data_commit_advances_state_but_fails() {
    use openmls::prelude::*;
    use tls_codec::Serialize as _;
    let (alice, bob, _ak, _bk, gid) = two_party();
    let before = bob.get_group(&gid).unwrap().unwrap();
    let before_mls_epoch = bob.load_mls_group(&gid).unwrap().unwrap().epoch().as_u64();
    // Alice (admin, modified client) commits a garbage 0xF2EE extension
    let mut ag = alice.load_mls_group(&gid).unwrap().unwrap();
    let signer = alice.load_mls_signer(&ag).unwrap();
    let mut exts = ag.extensions().clone();
    exts.add_or_replace(Extension::Unknown(0xF2EE, UnknownExtension(vec![0xde, 0xad, 0xbe, 0xef]))).unwrap();
    let (msg, _, _) = ag.update_group_context_extensions(&alice.provider, exts, &signer).unwrap();
    let ev = alice.build_message_event(&gid, msg.tls_serialize_detached().unwrap()).unwrap();
    let r = bob.process_message(&ev);
    println!("C06 bob <- malformed-extension commit: {:?}", r.map(|r| format!("{r:?}")).map_err(|e| e.to_string()));
    let after = bob.get_group(&gid).unwrap().unwrap();
    let after_mls_epoch = bob.load_mls_group(&gid).unwrap().unwrap().epoch().as_u64();
    println!("C06 stored epoch {} -> {}, MLS epoch {} -> {}", before.epoch, after.epoch, before_mls_epoch, after_mls_epoch);
}

#[test]
fn probe_c02_lookback_constant_vs_config() {
    use crate::groups::NostrGroupDataUpdate;
    let cfg = crate::MdkConfig { max_past_epochs: 8, ..Default::default() };
    let ak = Keys::generate(); let bk = Keys::generate();
    let alice = crate::tests::create_test_mdk_with_config(cfg.clone());
    let bob = crate::tests::create_test_mdk_with_config(cfg);
    let admins = vec![ak.public_key(), bk.public_key()];
    let res = alice.create_group(&ak.public_key(), vec![create_key_package_event(&bob, &bk)], create_nostr_group_config_data(admins)).unwrap();
    let gid = res.group.mls_group_id.clone();
    alice.merge_pending_commit(&gid).unwrap();
    let w = bob.process_welcome(&EventId::all_zeros(), &res.welcome_rumors[0]).unwrap(); bob.accept_welcome(&w).unwrap();
    let late = alice.create_message(&gid, create_test_rumor(&ak, "late by 6 epochs")).unwrap();
    for i in 0..6 {
        let c = alice.update_group_data(&gid, NostrGroupDataUpdate::new().name(format!("n{i}"))).unwrap().evolution_event;
        alice.merge_pending_commit(&gid).unwrap();
        bob.process_message(&c).unwrap();
    }
    println!("C02 max_past_epochs=8, message 6 epochs late -> {:?}", bob.process_message(&late).map(|r| format!("{r:?}")).map_err(|e| e.to_string()));
}

/// F16 candidate: any kind-445 wrapper carrying a handshake message of an already left epoch and an *earlier* created_at than
/// the commit applied there triggers a rollback — here: the applied commit itself, re-wrapped by anyone who holds that epoch's
/// exporter secret (every member of that epoch, including members removed since).
#[test]
fn probe_c07_rewrapped_applied_commit_triggers_rollback() {
    use nostr::{Tag, TagKind, Timestamp};
    let (alice, bob, alice_keys, _bob_keys, gid) = two_party();
    let e0 = bob.get_group(&gid).unwrap().unwrap().epoch;
    // Alice rotates her key: commit C (epoch e0 -> e0+1); Bob applies it.
    let upd = alice.self_update(&gid).unwrap();
    alice.merge_pending_commit(&gid).unwrap();
    let r = bob.process_message(&upd.evolution_event);
    println!("F16 bob applies C: {:?}", r.as_ref().map(|x| format!("{:?}", x).chars().take(30).collect::<String>()).map_err(|e| e.to_string()));
    let e1 = bob.get_group(&gid).unwrap().unwrap().epoch;
    // A message in the new epoch, stored by Bob.
    let mut rumor = create_test_rumor(&alice_keys, "sent after the commit");
    let mid = rumor.id();
    let mev = alice.create_message(&gid, rumor).unwrap();
    let _ = bob.process_message(&mev).unwrap();
    println!("F16 before: epoch {} -> {}, message state {:?}", e0, e1, bob.get_message(&gid, &mid).unwrap().unwrap().state);
    // Re-wrap C: same MLS bytes, same epoch-e0 exporter secret, fresh ephemeral signer, earlier timestamp.
    let secret = bob.storage().get_group_exporter_secret(&gid, e0).unwrap().expect("epoch e0 secret");
    let bytes = crate::util::decrypt_with_exporter_secret(&secret, &upd.evolution_event.content).unwrap();
    let sk = nostr::SecretKey::from_slice(secret.secret.as_ref()).unwrap();
    let k = Keys::new(sk);
    let content = nostr::nips::nip44::encrypt(k.secret_key(), &k.public_key, &bytes, nostr::nips::nip44::Version::default()).unwrap();
    let h = upd.evolution_event.tags.iter().find(|t| t.kind() == TagKind::h()).unwrap().clone();
    let earlier = Timestamp::from_secs(upd.evolution_event.created_at.as_secs() - 5);
    let rewrapped = EventBuilder::new(Kind::MlsGroupMessage, content)
        .tag(Tag::custom(TagKind::h(), [h.content().unwrap().to_string()]))
        .custom_created_at(earlier)
        .sign_with_keys(&Keys::generate())
        .unwrap();
    let r2 = bob.process_message(&rewrapped);
    println!("F16 bob processes the re-wrapped copy: {:?}", r2.as_ref().map(|x| format!("{:?}", x).chars().take(40).collect::<String>()).map_err(|e| e.to_string()));
    let g = bob.get_group(&gid).unwrap().unwrap();
    println!("F16 after: epoch {}, message state {:?}", g.epoch, bob.get_message(&gid, &mid).unwrap().map(|m| m.state));
    // the original, legitimate events delivered again
    let r3 = bob.process_message(&upd.evolution_event);
    let r4 = bob.process_message(&mev);
    println!("F16 re-delivery of C: {:?}", r3.as_ref().map(|x| format!("{:?}", x).chars().take(40).collect::<String>()).map_err(|e| e.to_string()));
    println!("F16 re-delivery of M: {:?}", r4.as_ref().map(|x| format!("{:?}", x).chars().take(40).collect::<String>()).map_err(|e| e.to_string()));
    println!("F16 final: epoch {}, message state {:?}", bob.get_group(&gid).unwrap().unwrap().epoch, bob.get_message(&gid, &mid).unwrap().map(|m| m.state));
}

/// F17 candidate (needs --features mip04): the same file shared twice, in two different epochs. The epoch hint is looked up by the
/// file hash alone, so one of the two uploads gets the other's epoch; its key cannot be re-derived once the group has moved on.
#[cfg(feature = "mip04")]
#[test]
fn probe_c17_same_file_shared_in_two_epochs() {
    let (alice, bob, alice_keys, _bob_keys, gid) = two_party();
    let data = b"the very same attachment";
    let share = |label: &str| {
        let m = alice.media_manager(gid.clone());
        let up = m.encrypt_for_upload(data, "text/plain", "same.txt").unwrap();
        let tag = m.create_imeta_tag(&up, &format!("https://example.com/{}", label));
        let mut rumor = create_test_rumor(&alice_keys, label);
        rumor.tags.push(tag.clone());
        rumor.id = None;
        let ev = alice.create_message(&gid, rumor).unwrap();
        let _ = bob.process_message(&ev).unwrap();
        (up, tag)
    };
    let advance = || {
        let u = alice.self_update(&gid).unwrap();
        alice.merge_pending_commit(&gid).unwrap();
        let _ = bob.process_message(&u.evolution_event).unwrap();
    };
    let (up1, tag1) = share("first");
    advance();
    let (up2, tag2) = share("second");
    advance();
    advance();
    let bm = bob.media_manager(gid.clone());
    let r1 = bm.parse_imeta_tag(&tag1).unwrap();
    let r2 = bm.parse_imeta_tag(&tag2).unwrap();
    let d1 = bm.decrypt_from_download(&up1.encrypted_data, &r1);
    let d2 = bm.decrypt_from_download(&up2.encrypted_data, &r2);
    println!("F17 first upload decrypts: {:?}", d1.as_ref().map(|d| d.len()).map_err(|e| e.to_string()));
    println!("F17 second upload decrypts: {:?}", d2.as_ref().map(|d| d.len()).map_err(|e| e.to_string()));
    let am = alice.media_manager(gid.clone());
    println!("F17 sender side: {:?} / {:?}", am.decrypt_from_download(&up1.encrypted_data, &r1).map(|d| d.len()).map_err(|e| e.to_string()),
             am.decrypt_from_download(&up2.encrypted_data, &r2).map(|d| d.len()).map_err(|e| e.to_string()));
}

/// F18 candidate: a welcome rumor without an id is refused (MissingRumorEventId) only after the pending group and its relays were stored.
#[test]
fn probe_c06_refused_welcome_without_id_leaves_group_behind() {
    let alice_keys = Keys::generate();
    let bob_keys = Keys::generate();
    let alice = create_test_mdk();
    let bob = create_test_mdk();
    let admins = vec![alice_keys.public_key()];
    let bob_kp = create_key_package_event(&bob, &bob_keys);
    let res = alice.create_group(&alice_keys.public_key(), vec![bob_kp], create_nostr_group_config_data(admins)).unwrap();
    let mut rumor = res.welcome_rumors[0].clone();
    rumor.id = None;
    println!("F18 groups before: {}", bob.get_groups().unwrap().len());
    let r = bob.process_welcome(&EventId::all_zeros(), &rumor);
    println!("F18 process_welcome: {:?}", r.as_ref().map(|_| "ok").map_err(|e| e.to_string()));
    let gs = bob.get_groups().unwrap();
    println!("F18 groups after the refused welcome: {} {:?}", gs.len(), gs.iter().map(|g| (g.name.clone(), g.state)).collect::<Vec<_>>());
    println!("F18 pending welcomes: {}", bob.get_pending_welcomes(None).unwrap().len());
}

/// F19 candidate: with the SQLite backend, a welcome whose rumor JSON is larger than the storage layer's event limit (100 KB) is
/// refused by save_welcome only after the pending group, its relays and the "processed" marker were stored.
#[test]
fn probe_c06_oversized_welcome_refused_after_group_written() {
    let alice_keys = Keys::generate();
    let bob_keys = Keys::generate();
    let alice = create_test_mdk();
    let bob = MDK::new(mdk_sqlite_storage::MdkSqliteStorage::new_unencrypted(":memory:").unwrap());
    let admins = vec![alice_keys.public_key()];
    let bob_kp = create_key_package_event(&bob, &bob_keys);
    let res = alice.create_group(&alice_keys.public_key(), vec![bob_kp], create_nostr_group_config_data(admins)).unwrap();
    let mut rumor = res.welcome_rumors[0].clone();
    // any extra tag is accepted by validate_welcome_event; pad the rumor beyond 100 KB
    let mut tags: Vec<nostr::Tag> = rumor.tags.iter().cloned().collect();
    tags.push(nostr::Tag::custom(nostr::TagKind::Custom("padding".into()), vec!["x".repeat(110 * 1024)]));
    rumor.tags = nostr::Tags::from_list(tags);
    rumor.id = None;
    rumor.ensure_id();
    println!("F19 groups before: {}", bob.get_groups().unwrap().len());
    let wrapper = EventId::all_zeros();
    let r = bob.process_welcome(&wrapper, &rumor);
    println!("F19 process_welcome: {:?}", r.as_ref().map(|_| "ok").map_err(|e| e.to_string()));
    let gs = bob.get_groups().unwrap();
    println!("F19 groups after the refused welcome: {} {:?}", gs.len(), gs.iter().map(|g| (g.name.clone(), g.state)).collect::<Vec<_>>());
    println!("F19 pending welcomes: {}", bob.get_pending_welcomes(None).unwrap().len());
    let r2 = bob.process_welcome(&wrapper, &rumor);
    println!("F19 retry: {:?}", r2.as_ref().map(|_| "ok").map_err(|e| e.to_string()));
}

/// F19 (memory backend): an invitation to a group that lists more relays than the receiver's storage allows (default 100) is
/// refused by replace_group_relays after save_group stored the pending group.
#[test]
fn probe_c06_too_many_relays_refused_after_group_written() {
    let alice_keys = Keys::generate();
    let bob_keys = Keys::generate();
    let alice = MDK::new(mdk_memory_storage::MdkMemoryStorage::with_limits(
        mdk_memory_storage::ValidationLimits::default().with_max_relays_per_group(1000).with_max_relays_per_welcome(1000)));
    let bob = create_test_mdk();
    let admins = vec![alice_keys.public_key()];
    let bob_kp = create_key_package_event(&bob, &bob_keys);
    let mut cfg = create_nostr_group_config_data(admins);
    cfg.relays = (0..150).map(|i| nostr::RelayUrl::parse(&format!("wss://relay{}.example.com", i)).unwrap()).collect();
    let res = alice.create_group(&alice_keys.public_key(), vec![bob_kp], cfg).unwrap();
    let rumor = res.welcome_rumors[0].clone();
    let wrapper = EventId::all_zeros();
    let r = bob.process_welcome(&wrapper, &rumor);
    println!("F19m process_welcome: {:?}", r.as_ref().map(|_| "ok").map_err(|e| e.to_string()));
    let gs = bob.get_groups().unwrap();
    println!("F19m groups after the refused welcome: {} {:?}", gs.len(), gs.iter().map(|g| (g.name.clone(), g.state)).collect::<Vec<_>>());
    println!("F19m pending welcomes: {}", bob.get_pending_welcomes(None).unwrap().len());
    let r2 = bob.process_welcome(&wrapper, &rumor);
    println!("F19m retry: {:?}", r2.as_ref().map(|_| "ok").map_err(|e| e.to_string()));
}

/// F19 (SQLite backend, relay list): the serialized relay list of the invitation exceeds the welcome table's 50 KB bound.
#[test]
fn probe_c06_relay_json_refused_after_group_written_sqlite() {
    let alice_keys = Keys::generate();
    let bob_keys = Keys::generate();
    let alice = MDK::new(mdk_memory_storage::MdkMemoryStorage::with_limits(
        mdk_memory_storage::ValidationLimits::default().with_max_relays_per_group(5000).with_max_relays_per_welcome(5000)));
    let bob = MDK::new(mdk_sqlite_storage::MdkSqliteStorage::new_unencrypted(":memory:").unwrap());
    let admins = vec![alice_keys.public_key()];
    let bob_kp = create_key_package_event(&bob, &bob_keys);
    let mut cfg = create_nostr_group_config_data(admins);
    cfg.relays = (0..1800).map(|i| nostr::RelayUrl::parse(&format!("wss://relay-number-{}.example.com", i)).unwrap()).collect();
    let res = alice.create_group(&alice_keys.public_key(), vec![bob_kp], cfg).unwrap();
    let rumor = res.welcome_rumors[0].clone();
    let wrapper = EventId::all_zeros();
    let r = bob.process_welcome(&wrapper, &rumor);
    println!("F19r process_welcome: {:?}", r.as_ref().map(|_| "ok").map_err(|e| e.to_string()));
    let gs = bob.get_groups().unwrap();
    println!("F19r groups after the refused welcome: {} {:?}", gs.len(), gs.iter().map(|g| (g.name.clone(), g.state)).collect::<Vec<_>>());
    println!("F19r pending welcomes: {}", bob.get_pending_welcomes(None).unwrap().len());
}

/// F20 candidate: an admin's commit that sets a group name longer than the receiver's storage bound (SQLite: 255 bytes) is merged by the
/// receiver's MLS layer and only then refused by save_group in the metadata sync.
#[test]
fn probe_c06_long_name_commit_merged_then_refused() {
    let alice_keys = Keys::generate();
    let bob_keys = Keys::generate();
    let alice = MDK::new(mdk_memory_storage::MdkMemoryStorage::with_limits(
        mdk_memory_storage::ValidationLimits::default().with_max_group_name_length(10_000)));
    let bob = MDK::new(mdk_sqlite_storage::MdkSqliteStorage::new_unencrypted(":memory:").unwrap());
    let admins = vec![alice_keys.public_key()];
    let bob_kp = create_key_package_event(&bob, &bob_keys);
    let res = alice.create_group(&alice_keys.public_key(), vec![bob_kp], create_nostr_group_config_data(admins)).unwrap();
    let gid = res.group.mls_group_id.clone();
    alice.merge_pending_commit(&gid).unwrap();
    let w = bob.process_welcome(&EventId::all_zeros(), &res.welcome_rumors[0]).unwrap();
    bob.accept_welcome(&w).unwrap();
    let upd = alice.update_group_data(&gid, crate::groups::NostrGroupDataUpdate::new().name("n".repeat(300))).unwrap();
    alice.merge_pending_commit(&gid).unwrap();
    let before = bob.get_group(&gid).unwrap().unwrap();
    let mls_before = bob.load_mls_group(&gid).unwrap().unwrap().epoch().as_u64();
    let r = bob.process_message(&upd.evolution_event);
    println!("F20 process_message: {:?}", r.as_ref().map(|x| format!("{:?}", x).chars().take(80).collect::<String>()).map_err(|e| e.to_string()));
    let after = bob.get_group(&gid).unwrap().unwrap();
    let mls_after = bob.load_mls_group(&gid).unwrap().unwrap().epoch().as_u64();
    println!("F20 stored epoch {} -> {}, MLS epoch {} -> {}, stored name len {}", before.epoch, after.epoch, mls_before, mls_after, after.name.len());
    let r2 = bob.process_message(&upd.evolution_event);
    println!("F20 retry: {:?}", r2.as_ref().map(|x| format!("{:?}", x).chars().take(80).collect::<String>()).map_err(|e| e.to_string()));
    // can bob still read alice's next message?
    let rumor = create_test_rumor(&alice_keys, "after the rename");
    let ev = alice.create_message(&gid, rumor).unwrap();
    let r3 = bob.process_message(&ev);
    println!("F20 next message: {:?}", r3.as_ref().map(|x| format!("{:?}", x).chars().take(60).collect::<String>()).map_err(|e| e.to_string()));
}

/// Not a finding: an application message whose rumor JSON exceeds the SQLite layer's 100 KB event bound cannot be built — the NIP-44
/// layer refuses plaintexts above 65535 bytes (create_message answers NIP44(V2(MessageTooLong))), so save_message's bounds are out of
/// reach on the receive path.
#[test]
fn probe_c02_large_message_decrypted_then_refused_by_storage() {
    let alice_keys = Keys::generate();
    let bob_keys = Keys::generate();
    let alice = create_test_mdk();
    let bob = MDK::new(mdk_sqlite_storage::MdkSqliteStorage::new_unencrypted(":memory:").unwrap());
    let admins = vec![alice_keys.public_key()];
    let bob_kp = create_key_package_event(&bob, &bob_keys);
    let res = alice.create_group(&alice_keys.public_key(), vec![bob_kp], create_nostr_group_config_data(admins)).unwrap();
    let gid = res.group.mls_group_id.clone();
    alice.merge_pending_commit(&gid).unwrap();
    let w = bob.process_welcome(&EventId::all_zeros(), &res.welcome_rumors[0]).unwrap();
    bob.accept_welcome(&w).unwrap();
    let rumor = create_test_rumor(&alice_keys, &"m".repeat(120 * 1024));
    let ev = alice.create_message(&gid, rumor).unwrap();
    let r = bob.process_message(&ev);
    println!("F21 process_message: {:?}", r.as_ref().map(|x| format!("{:?}", x).chars().take(80).collect::<String>()).map_err(|e| e.to_string()));
    println!("F21 stored messages: {}", bob.get_messages(&gid, None).unwrap().len());
    let r2 = bob.process_message(&ev);
    println!("F21 retry: {:?}", r2.as_ref().map(|x| format!("{:?}", x).chars().take(80).collect::<String>()).map_err(|e| e.to_string()));
    let ev2 = alice.create_message(&gid, create_test_rumor(&alice_keys, "small one")).unwrap();
    let r3 = bob.process_message(&ev2);
    println!("F21 next message: {:?}", r3.as_ref().map(|x| format!("{:?}", x).chars().take(40).collect::<String>()).map_err(|e| e.to_string()));
}

/// F22 candidate (C12 marker-last): process_application_message writes the processed record before the group's last-message pointer.
/// Crash emulation: the state after the processed record and before save_group is "message + record stored, group record as before";
/// it is produced here by putting the previous group record back. Re-processing the event then short-circuits on the record.
#[test]
fn probe_c12_pointer_write_after_processed_record_is_lost() {
    let (alice, bob, alice_keys, _bob_keys, gid) = two_party();
    let before = bob.get_group(&gid).unwrap().unwrap();
    let ev = alice.create_message(&gid, create_test_rumor(&alice_keys, "hello")).unwrap();
    let r = bob.process_message(&ev).unwrap();
    let full = bob.get_group(&gid).unwrap().unwrap();
    println!("F22 uninterrupted run: last_message_id {:?} -> {:?}", before.last_message_id.map(|i| i.to_hex()[..8].to_string()), full.last_message_id.map(|i| i.to_hex()[..8].to_string()));
    // emulate the process dying between save_processed_message and save_group
    bob.storage().save_group(before.clone()).unwrap();
    let r2 = bob.process_message(&ev);
    println!("F22 re-processing after the emulated crash: {:?}", r2.as_ref().map(|x| format!("{:?}", x).chars().take(40).collect::<String>()).map_err(|e| e.to_string()));
    let after = bob.get_group(&gid).unwrap().unwrap();
    println!("F22 after retry: last_message_id {:?}, stored messages {}", after.last_message_id.map(|i| i.to_hex()[..8].to_string()), bob.get_messages(&gid, None).unwrap().len());
    let _ = r;
}

/// F23 candidate (C18 pointer clause): the last-message pointer lives in the groups row, which a rollback restores to its value at
/// snapshot time. A message of the *old* epoch that arrived after the snapshot stays valid (only epochs above the target are
/// invalidated) but the pointer no longer designates it.
#[test]
fn probe_c18_pointer_after_rollback_misses_late_old_epoch_message() {
    use nostr::{Tag, TagKind, Timestamp};
    let (alice, bob, alice_keys, _bob_keys, gid) = two_party();
    let e0 = bob.get_group(&gid).unwrap().unwrap().epoch;
    let mut r0 = create_test_rumor(&alice_keys, "m0, before the commit");
    let m0 = r0.id();
    let ev0 = alice.create_message(&gid, r0).unwrap();
    bob.process_message(&ev0).unwrap();
    // m1 is sent in epoch e0 as well but reaches Bob only after the commit
    std::thread::sleep(std::time::Duration::from_millis(1100));
    let mut r1 = create_test_rumor(&alice_keys, "m1, sent in the old epoch, delivered late");
    let m1 = r1.id();
    let ev1 = alice.create_message(&gid, r1).unwrap();
    let upd = alice.self_update(&gid).unwrap();
    alice.merge_pending_commit(&gid).unwrap();
    bob.process_message(&upd.evolution_event).unwrap();
    let r = bob.process_message(&ev1);
    println!("F23 late old-epoch message: {:?}", r.as_ref().map(|x| format!("{:?}", x).chars().take(30).collect::<String>()).map_err(|e| e.to_string()));
    let g = bob.get_group(&gid).unwrap().unwrap();
    println!("F23 before rollback: epoch {}, pointer is m1: {}, m1.epoch {:?}", g.epoch, g.last_message_id == Some(m1), bob.get_message(&gid, &m1).unwrap().map(|m| m.epoch));
    // a competing commit for epoch e0 with an earlier timestamp makes Bob roll back to e0 (here: the re-wrapped copy, see F16)
    let secret = bob.storage().get_group_exporter_secret(&gid, e0).unwrap().expect("epoch e0 secret");
    let bytes = crate::util::decrypt_with_exporter_secret(&secret, &upd.evolution_event.content).unwrap();
    let k = Keys::new(nostr::SecretKey::from_slice(secret.secret.as_ref()).unwrap());
    let content = nostr::nips::nip44::encrypt(k.secret_key(), &k.public_key, &bytes, nostr::nips::nip44::Version::default()).unwrap();
    let h = upd.evolution_event.tags.iter().find(|t| t.kind() == TagKind::h()).unwrap().clone();
    let rewrapped = EventBuilder::new(Kind::MlsGroupMessage, content)
        .tag(Tag::custom(TagKind::h(), [h.content().unwrap().to_string()]))
        .custom_created_at(Timestamp::from_secs(upd.evolution_event.created_at.as_secs() - 5))
        .sign_with_keys(&Keys::generate())
        .unwrap();
    let _ = bob.process_message(&rewrapped);
    let g = bob.get_group(&gid).unwrap().unwrap();
    let listed = bob.get_messages(&gid, None).unwrap();
    let first_valid = listed.iter().find(|m| m.state != mdk_storage_traits::messages::types::MessageState::EpochInvalidated).map(|m| m.id);
    println!("F23 after rollback: epoch {}, m1 state {:?}", g.epoch, bob.get_message(&gid, &m1).unwrap().map(|m| m.state));
    println!("F23 pointer is m0: {}, pointer is m1: {}, first valid listed is m1: {}", g.last_message_id == Some(m0), g.last_message_id == Some(m1), first_valid == Some(m1));
}

#[test]
fn probe_c03_removed_and_replaced_in_one_commit() {
    // F24: a member whose removal is committed together with an Add: the newcomer takes the vacated leaf slot, so
    // MlsGroup::own_leaf() (the leaf at the own index of the public tree) is Some again on the evicted client.
    let ak = Keys::generate(); let bk = Keys::generate(); let ck = Keys::generate(); let dk = Keys::generate();
    let alice = create_test_mdk(); let bob = create_test_mdk(); let carol = create_test_mdk(); let dave = create_test_mdk();
    let admins = vec![ak.public_key()];
    let res = alice.create_group(&ak.public_key(), vec![create_key_package_event(&bob, &bk), create_key_package_event(&carol, &ck)], create_nostr_group_config_data(admins)).unwrap();
    let gid = res.group.mls_group_id.clone();
    alice.merge_pending_commit(&gid).unwrap();
    for (m, i) in [(&bob, 0usize), (&carol, 1usize)] {
        let w = m.process_welcome(&EventId::from_slice(&[i as u8 + 1; 32]).unwrap(), &res.welcome_rumors[i]).unwrap();
        m.accept_welcome(&w).unwrap();
    }
    // Bob leaves: a proposal the admin has to commit
    let leave = bob.leave_group(&gid).unwrap();
    let r = alice.process_message(&leave.evolution_event);
    println!("C03 alice <- bob's leave proposal: {:?}", r.as_ref().map(|x| format!("{x:?}").chars().take(60).collect::<String>()).map_err(|e| e.to_string()));
    // the auto-commit is dropped (e.g. it lost a race / was never published); the queued proposal stays
    alice.clear_pending_commit(&gid).unwrap();
    println!("C03 alice pending removals after clearing the auto-commit: {}", alice.pending_member_changes(&gid).unwrap().removals.len());
    // the admin's next commit adds Dave and sweeps the queued removal in
    let add = alice.add_members(&gid, &[create_key_package_event(&dave, &dk)]).unwrap();
    alice.merge_pending_commit(&gid).unwrap();
    println!("C03 alice members after the commit: {} (bob still member = {})", alice.get_members(&gid).unwrap().len(), alice.get_members(&gid).unwrap().contains(&bk.public_key()));
    // Bob processes the commit that removes him
    let rb = bob.process_message(&add.evolution_event);
    println!("C03 bob <- commit(remove bob + add dave): {:?}", rb.as_ref().map(|x| format!("{x:?}").chars().take(80).collect::<String>()).map_err(|e| e.to_string()));
    println!("C03 bob's stored group state afterwards: {:?}", bob.get_group(&gid).unwrap().map(|g| g.state));
    let g = bob.load_mls_group(&gid).unwrap().unwrap();
    println!("C03 bob's MLS group: is_active={} own_leaf().is_some()={}", g.is_active(), g.own_leaf().is_some());
}

#[test]
fn probe_c07_redelivered_proposal_after_its_commit_rolls_back() {
    // F16 seen from C07: the *same* proposal event handed over again after the commit that covers it was applied
    let ak = Keys::generate(); let bk = Keys::generate(); let ck = Keys::generate();
    let alice = create_test_mdk(); let bob = create_test_mdk(); let carol = create_test_mdk();
    let admins = vec![ak.public_key()];
    let res = alice.create_group(&ak.public_key(), vec![create_key_package_event(&bob, &bk), create_key_package_event(&carol, &ck)], create_nostr_group_config_data(admins)).unwrap();
    let gid = res.group.mls_group_id.clone();
    alice.merge_pending_commit(&gid).unwrap();
    for (m, i) in [(&bob, 0usize), (&carol, 1usize)] {
        let w = m.process_welcome(&EventId::from_slice(&[i as u8 + 1; 32]).unwrap(), &res.welcome_rumors[i]).unwrap();
        m.accept_welcome(&w).unwrap();
    }
    // Carol leaves: proposal event; Bob (non-admin) queues it, Alice (admin) commits it
    let leave = carol.leave_group(&gid).unwrap();
    println!("C07 bob <- leave proposal: {:?}", bob.process_message(&leave.evolution_event).map(|r| format!("{r:?}").chars().take(50).collect::<String>()).map_err(|e| e.to_string()));
    std::thread::sleep(std::time::Duration::from_secs(2));
    let r = alice.process_message(&leave.evolution_event).unwrap();
    let commit_event = match r { MessageProcessingResult::Proposal(u) => u.evolution_event, other => panic!("unexpected {other:?}") };
    alice.merge_pending_commit(&gid).unwrap();
    println!("C07 bob <- commit: {:?}", bob.process_message(&commit_event).map(|r| format!("{r:?}").chars().take(50).collect::<String>()).map_err(|e| e.to_string()));
    let e1 = bob.get_group(&gid).unwrap().unwrap().epoch;
    // the proposal event is delivered to Bob once more
    println!("C07 bob <- the same proposal again: {:?}", bob.process_message(&leave.evolution_event).map(|r| format!("{r:?}").chars().take(60).collect::<String>()).map_err(|e| e.to_string()));
    let e2 = bob.get_group(&gid).unwrap().unwrap().epoch;
    let m2 = bob.load_mls_group(&gid).unwrap().unwrap().epoch().as_u64();
    println!("C07 bob stored epoch before re-delivery = {e1}, after = {e2}, MLS epoch after = {m2}");
}
