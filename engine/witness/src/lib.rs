//! Positive controls for rules whose expected count on the real tree is zero.
//! Compiled by the mdkfacts driver like a workspace crate; nothing here is ever executed.

/// logs a group id through its Debug impl (type rule must report it)
pub fn positive_control_logs_group_id(g: &mdk_storage_traits::GroupId) {
    tracing::info!("joined group {:?}", g);
}

/// logs a hex string derived from a group id (value/taint rule must report it)
pub fn positive_control_logs_hex_of_group_id(g: &mdk_storage_traits::GroupId) {
    let label = hex::encode(g.as_slice());
    tracing::warn!("rollback for {}", label);
}

/// panics on caller-supplied data (NoPanic positive control)
pub fn positive_control_indexes_untrusted_input(bytes: &[u8]) -> u8 {
    bytes[3]
}

/// acquires a second lock while the first guard is alive (lock-order positive control)
pub fn positive_control_nested_locks(a: &std::sync::Mutex<u32>, b: &std::sync::Mutex<u32>) -> u32 {
    let ga = a.lock().unwrap();
    let gb = b.lock().unwrap();
    *ga + *gb
}
