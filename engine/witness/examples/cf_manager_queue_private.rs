// the snapshot manager's queue cannot be edited from outside (bounds of C20 rest on it)
fn main() {
    let m = mdk_core::epoch_snapshots::EpochSnapshotManager::new(5);
    let _q = &m.inner; //~ E0616
}
