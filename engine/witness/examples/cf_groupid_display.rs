// GroupId has no Display (nothing formats it with {})
fn main() {
    let g = mdk_storage_traits::GroupId::from_slice(&[1, 2, 3]);
    println!("{}", g); //~ E0277
}
