// EncryptionConfig must not be printable with Display (would print the database key)
fn main() {
    let c = mdk_sqlite_storage::EncryptionConfig::generate().unwrap();
    println!("{}", c); //~ E0277
}
