// the raw key field is private
fn main() {
    let c = mdk_sqlite_storage::EncryptionConfig::generate().unwrap();
    let _k = c.key; //~ E0616
}
