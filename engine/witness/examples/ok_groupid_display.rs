fn main() {
    let g = mdk_storage_traits::GroupId::from_slice(&[1, 2, 3]);
    println!("{}", g.as_slice().len());
}
