fn main() {
    let m = mdk_core::epoch_snapshots::EpochSnapshotManager::new(5);
    println!("{:?}", m);
}
