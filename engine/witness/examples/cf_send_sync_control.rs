// control for ok_send_sync: the assertion really rejects a !Sync type
fn needs<T: Send + Sync>() {}
fn main() {
    needs::<std::cell::RefCell<mdk_memory_storage::MdkMemoryStorage>>(); //~ E0277
}
