// EncryptionConfig must not be serialisable
fn needs<T: serde::Serialize>() {}
fn main() {
    needs::<mdk_sqlite_storage::EncryptionConfig>(); //~ E0277
}
