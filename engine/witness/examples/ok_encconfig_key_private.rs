fn main() {
    let c = mdk_sqlite_storage::EncryptionConfig::generate().unwrap();
    let _k = c.clone();
}
