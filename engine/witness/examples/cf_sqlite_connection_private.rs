// the SQLite connection (and with it PRAGMA key) is not reachable from outside the crate
fn main() {
    let s = mdk_sqlite_storage::MdkSqliteStorage::new_unencrypted("/nonexistent/x.db").unwrap();
    let _c = &s.connection; //~ E0616
}
