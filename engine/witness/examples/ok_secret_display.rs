fn main() {
    let s = mdk_storage_traits::Secret::new([7u8; 32]);
    println!("{:?}", s);
}
