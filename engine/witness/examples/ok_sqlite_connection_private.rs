use mdk_storage_traits::MdkStorageProvider;
fn main() {
    let s = mdk_sqlite_storage::MdkSqliteStorage::new_unencrypted("/nonexistent/x.db").unwrap();
    let _b = s.backend();
}
