fn needs<T: Clone>() {}
fn main() {
    needs::<mdk_sqlite_storage::EncryptionConfig>();
}
