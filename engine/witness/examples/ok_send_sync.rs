// both backends (and MDK over them) can be shared between threads
fn needs<T: Send + Sync>() {}
fn main() {
    needs::<mdk_memory_storage::MdkMemoryStorage>();
    needs::<mdk_sqlite_storage::MdkSqliteStorage>();
    needs::<mdk_core::MDK<mdk_memory_storage::MdkMemoryStorage>>();
    needs::<mdk_core::MDK<mdk_sqlite_storage::MdkSqliteStorage>>();
}
