#!/usr/bin/env python3
"""Regenerates /verif/MANIFEST.json from the table below (kept valid at all times)."""
import json
import os

VERIF = os.path.dirname(os.path.dirname(os.path.abspath(__file__)))
props = [json.loads(l) for l in open(os.path.join(VERIF, "properties.jsonl"))]

NOTE = ("Static analysis over rustc MIR facts of /repo's current tree. Trusted base: rustc MIR construction and callee "
        "resolution; documented behaviour of openmls/nostr/rusqlite/SQLCipher/tls_codec/AEAD/HKDF crates; the frozen "
        "classification tables in engine/rules (one reason per entry). Decides the named structural clauses only — each a "
        "necessary condition of the property — not the behavioural whole.")

# id -> (technique, level text, design_ref)
CLAIMED = {
    "C01": ("MIR dataflow: interprocedural success-dominance (snapshot before merge), decision-table enumeration of the comparator, "
            "must-pass-through on the rollback arm",
            "On every CFG path and calling context: a checked snapshot precedes every MLS merge; the MIP-03 comparator's 3x3 decision "
            "table equals the spec; the rollback arm invalidates, marks retryable, notifies and re-processes. Convergence of real "
            "schedules is not decided.", "DESIGN.md §4 C01"),
    "C02": ("MIR dataflow: Ok-spine post-dominance (both records written), interprocedural provenance (field wiring, Message.epoch, "
            "lookback window from config), transition-table extraction of the own-echo arm",
            "Every Ok path after a received Message is built writes both records; stored fields are wired to the decoded rumor; "
            "Message.epoch derives from ProcessedMessage::epoch(); the outer-layer window derives from MdkConfig; own-echo transition "
            "table. Exactly-once under real interleavings is not decided.", "DESIGN.md §4 C02"),
    "C03": ("MIR who-may-write (GroupState::Active), success-dominance (MlsGroup::is_active test before exporter-secret export), "
            "copy-provenance of the kind-445 content (nip44::encrypt of TLS-serialised MLS output)",
            "Active is written only by create_group/accept_welcome; after a merge the exporter secret is exported only while still a "
            "member and eviction stores Inactive; wrapper content is exactly NIP-44 ciphertext keyed by the exporter secret. What "
            "OpenMLS/NIP-44 leak cryptographically is not decided.", "DESIGN.md §4 C03"),
    "C04": ("MIR interprocedural success-dominance by public error variant (AuthorMismatch; the guard cannot return Ok off the equal side of its comparison) and by guaranteed callee (verify_id)",
            "A checked author-binding guard and a checked id verification success-dominate the construction of every stored Message "
            "(receive and send path). OpenMLS replay protection is not decided.", "DESIGN.md §4 C04"),
    "C05": ("MIR success-dominance by error variant, decision-table enumeration (authorisation function; the whitelist predicate evaluated on 366 symbolic commits, 4760 in the thorough tier, independent of closure / loop form), "
            "arm-restricted who-may-call (proposal triage), boolean-guard dominance (sender side), store-consumption rule",
            "Both commit guards dominate every merge of a received commit and precede any state change; the authorisation and whitelist "
            "decision tables equal the spec; proposals are queued / auto-committed only on the named arms; sender-side admin test "
            "dominates commit builders. Value-level correctness of the admin set is not decided.", "DESIGN.md §4 C05"),
    "C09": ("schema-level SQL analysis (sqlite3 parser on the migrations, EXPLAIN write sets, ON DELETE CASCADE closure, column coverage, "
            "WHERE scoping) + MIR field coverage of the memory snapshot",
            "For every statement of snapshot/restore/release/list/prune: cascade closure of deletes covered by the snapshot, column lists = "
            "schema, scoped to (group, name), write sets never touch messages/records/welcomes/keys, retake replaces; memory restore touches "
            "only the 8 group-scoped maps through group-id filters. Byte equality of restored rows is not decided.", "DESIGN.md §4 C09"),
    "C10": ("sibling cross-check: enum<->string tables by symbolic evaluation, SQL WHERE conjuncts vs MIR comparison triples, GroupDataType "
            "per StorageProvider method, upsert completeness, row-mapper coverage, table<->cache correspondence, ORDER BY vs comparator tables",
            "The two backends agree structurally on selection predicates, state constants, data-type filing, sort orders, limits and upsert "
            "semantics for every trait method. Observable equality on arbitrary sequences and LRU eviction are not decided.", "DESIGN.md §4 C10"),
    "C12": ("SQL bracket analysis on MIR: success-dominance of every write by the opening statement, COMMIT/RELEASE on Ok returns, "
            "ROLLBACK on error exits (or the RAII form: rusqlite Transaction/Savepoint guard, commit on Ok, rollback on drop), single connection guard; "
            "write-ordering rule on the receive path (no storage write is reachable after the success edge of the processed-record write)",
            "Decides the 'in particular' clause (snapshot creation, restore and relay replacement are each one transaction/savepoint bracket on "
            "every path) and one necessary condition of the retry clause: the processed record a retry short-circuits on is the last write of "
            "the call (fixed F21; known finding F22). Recoverability at every crash point of the multi-statement API calls is not decided.", "DESIGN.md §4 C12"),
    "C18": ("decision-table enumeration of comparators / sort closures / pointer update with callee+closure inlining, ORDER BY extraction, "
            "boolean-guard dominance (limit validation), overflow-assert and cast rules for pagination",
            "Both comparators are lexicographic total orders equal to the SQL ORDER BY lists and to the memory sort closures; limit "
            "validation dominates data access with equal bounds; pagination arithmetic cannot panic or wrap; pointer update decision "
            "table; after a rollback the pointer is re-derived from a paged listing in which every page is searched. Which message is newest for real histories is not decided.", "DESIGN.md §4 C18"),
    "C07": ("symbolic exploration of process_message's dedup step per stored record state (symbolic record, forking, helper inlining), success-dominance, "
            "copy-provenance of the failure record and of the snapshot's incumbent, control-dependence of the own-commit shortcut",
            "Failed / EpochInvalidated records end the call early with no write on every explored path; the dedup lookup dominates all state-"
            "touching calls; the comparator is irreflexive and compares against the applied commit's own id/timestamp; the pending-commit "
            "shortcut requires a Commit; the memory backend evicts nothing when a stored message is saved again. MLS-state equality after replays is not decided.", "DESIGN.md §4 C07"),
    "C08": ("Ok-spine post-dominance (sync after every merge, interprocedural), field-wiring provenance of the sync, routing provenance "
            "(h tag), index-maintenance rules on the memory backend + schema unique index",
            "Every merge is followed on every Ok path by the metadata sync; the sync copies each named field from the current MLS state and replaces the relay set on every Ok path; "
            "wrappers are tagged with the stored routing id and looked up by it; stale index entries are removed. Equality after every step "
            "of real histories is not decided.", "DESIGN.md §4 C08"),
    "C11": ("type-level inventory of interior-mutable state reachable from MDK, hydration-coverage provenance (per field: placeholder / parsed from the persisted name / other), "
            "queue-storage agreement (every removal from the in-memory queue is released or consumed in storage), persisted-mapping tables",
            "The only volatile state is the snapshot manager's queue; every field the race decision reads is rebuilt from persisted data "
            "(known finding: the commit timestamp is not). Equivalence of runs with and without restarts is not decided.", "DESIGN.md §4 C11"),
    "C15": ("who-may-call on TLS decoders (exact / remainder-checked), must-pass-through and error-exit control dependence for the key-package "
            "and welcome parsers, field wiring of as_raw/from_raw, writer/reader key tables from format templates",
            "Every external TLS decode is exact; every listed binding check is on all Ok paths / controls an error exit; numeric tag values reach a sign-tolerant parser only after a digits-only check; the extension "
            "wire mapping is the identity; imeta keys written are parsed. Value round-trip for arbitrary values is not decided.", "DESIGN.md §4 C15"),
    "C16": ("success-dominance (dedup, preview), symbolic evaluation of process_welcome / accept_welcome / decline_welcome once per state of the stored record (absent / Active / Pending / Inactive), "
            "constant-write tables for accept/decline; sibling agreement of the storage impls' argument-validation bounds along process_welcome's write sequence (both backends)",
            "A recorded wrapper id never writes again; records are written only after a successful preview; writes / disabling under the "
            "sender-chosen group id happen only when the existing record is not Active (known finding: accept_welcome); after the first write no storage "
            "call refuses the invitation on a bound no earlier call enforced (known findings F19). Joiner/inviter state "
            "equality is not decided.", "DESIGN.md §4 C16"),
    "C20": ("who-may-call (snapshot creation), must-pass-through of the retention loop after every queue push, copy-provenance of released "
            "names, evaluation of the release loop's index guards for the first indices, boolean-guard post-dominance of the TTL prune at build()",
            "Snapshots are created only by the manager; every push is followed under the same guard by the len>retention loop releasing the "
            "popped entry; rollback releases the split-off suffix by its own names, passing over exactly the consumed entry; build() prunes by now-ttl when persistent. Counts over "
            "real histories are not decided.", "DESIGN.md §4 C20"),
    "C06": ("NoPanic: enumeration of every unwrap/expect/panic!/index/slice-op call and every overflow/bounds assert in MIR with "
            "dominance-based discharge classes; validate-then-apply ordering incl. the storage impls' size bounds on peer-installed group data; lint-level query; write-set before MLS processing",
            "Every potential panic site in non-test library code is in a discharged class (lock poison, length-guarded index, non-input or "
            "range-checked arithmetic, documented configuration panic, named exception); no fallible input decoder follows a state-advancing "
            "MLS call and no storage bound on peer-installed data can first fire after the merge (known findings F19, F20); unsafe is forbidden. 'State exactly unchanged for all inputs' and dependency panics are not decided.", "DESIGN.md §4 C06"),
    "C13": ("who-may-call (Connection::open), success-dominance chain over PRAGMA statements, must-pass-through (chmod, pre-creation), "
            "lock/recheck dominance in the keyring path, arm-region reachability (existing file never generates a key), compile-fail witnesses",
            "The key is applied first and validated on every Ok path of every opener; permissions constants and ordering (files and created directories); keyring "
            "generation only under the lock after a re-check; type-level barriers hold. Bytes on disk (SQLCipher) are not decided.", "DESIGN.md §4 C13"),
    "C14": ("type rule + interprocedural taint (parameter/return summaries, closure captures) from identifier/secret sources to tracing "
            "arguments and error payloads; redaction rule on manual Debug impls; compile-fail witnesses; positive controls compiled by the driver",
            "No tracing event formats a type or value carrying a group id / Nostr group id / secret / snapshot name and no library error "
            "payload is derived from one, on every call site. Strings produced by dependencies' errors are assumed clean.", "DESIGN.md §4 C14"),
    "C17": ("parameter-coverage of the AAD / HKDF-context builders, enc/dec sibling argument wiring, binding agreement (key, AAD and published record bind the same values; decrypt side takes the reference's same-named fields), decision table of the post-decryption "
            "hash check, route restriction to the checking function, group-image hash-before-decrypt dominance",
            "Every metadata parameter is bound into AAD and key derivation identically on both sides; decrypted bytes are only returned "
            "after the hash comparison; label domain separation. AEAD/HKDF correctness and byte round-trips are not decided.", "DESIGN.md §4 C17"),
    "C19": ("guard live-range analysis in MIR (acquisition nesting incl. callees and closures run under a lock), critical-section counting per "
            "trait method with a frozen exception table, single-guard snapshot rule, Send+Sync compile witnesses",
            "No backend lock is acquired while another guard of that backend is alive (no self-deadlock / lock-order cycle); each trait method "
            "is one critical section unless listed; the memory snapshot is taken under one guard. Linearizability of real interleavings is not decided.",
            "DESIGN.md §4 C19"),
}
PENDING_REASON = "check under construction in this round (see DESIGN.md); not yet claimed"
NA = {}

checks = []
na = []
for p in props:
    pid = p["id"]
    if pid in CLAIMED:
        tech, text, ref = CLAIMED[pid]
        checks.append({
            "property_id": pid,
            "quick_cmd": "./check %s quick" % pid,
            "thorough_cmd": "./check %s thorough" % pid,
            "evidence_file": "/verif/evidence/%s.json" % pid,
            "replay_cmd_template": "cat {path}",
            "engine": "mdkfacts+rules",
            "level_claimed": {"category": "other", "text": text, "design_ref": ref},
            "level_note": NOTE,
            "technique": "static analysis: " + tech,
        })
    else:
        na.append({"property_id": pid, "reason": NA.get(pid, PENDING_REASON)})

m = {
    "version": 1,
    "setup_cmd": "./setup.sh",
    "hooks": {"guard": "mdk_verif", "enable": "none: static analysis executes no mdk code, no hooks are compiled in",
              "baseline_off_cmd": "cd /repo && cargo test --workspace --no-fail-fast --offline",
              "source_commits": [], "add_only": True},
    "engines": [
        {"name": "mdkfacts", "path": "engine/mdkfacts", "serves_properties": sorted(CLAIMED),
         "kind_free_text": "rustc_private driver (nightly) dumping simplified MIR, resolved callees, constants, ADTs, impls as JSON"},
        {"name": "rules", "path": "engine/rules", "serves_properties": sorted(CLAIMED),
         "kind_free_text": "Python rule engine: CFG dominance / success-dominance, call graph, value flow, SQL schema analysis, decision tables"},
    ],
    "checks": checks,
    "notes": "All checks are static (no mdk code is executed). Known genuine defects are listed in KNOWN_FINDINGS.txt; see DESIGN.md.",
    "not_applicable": na,
}
json.dump(m, open(os.path.join(VERIF, "MANIFEST.json"), "w"), indent=1)
print("claimed:", sorted(CLAIMED), "pending/na:", len(na))
