#!/usr/bin/env python3
"""Inventory of the library's functions at the pinned tree (engine/rules/known_fns.txt).
Used only by the helper inliner: a private function that is NOT in the inventory is a helper introduced by a later change and is
analysed as part of its callers (so extracting a helper does not change what the rules see).  Regenerate after a `fix:` commit that
adds functions to /repo."""
import os
import sys
HERE = os.path.dirname(os.path.abspath(__file__))
sys.path.insert(0, os.path.join(HERE, "rules"))
import extract  # noqa: E402

names = set()
for cfg in ("mip04", "default", "all"):
    facts = extract.load(cfg)
    for crate, d in facts.items():
        for fd in d["fns"]:
            if fd.get("kind") == "Closure":
                continue
            names.add(fd["path"])
out = os.path.join(HERE, "rules", "known_fns.txt")
open(out, "w").write("\n".join(sorted(names)) + "\n")
print(len(names), "functions ->", out)
