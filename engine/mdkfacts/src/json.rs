// minimal JSON writer (no dependencies)
pub enum J {
    Int(i128),
    Str(String),
    Arr(Vec<J>),
    Obj(Vec<(&'static str, J)>),
}

impl J {
    pub fn s(x: &str) -> J {
        J::Str(x.to_string())
    }
    pub fn obj(v: Vec<(&'static str, J)>) -> J {
        J::Obj(v)
    }
    pub fn write(&self, out: &mut String) {
        match self {
            J::Int(i) => out.push_str(&i.to_string()),
            J::Str(s) => {
                out.push('"');
                for c in s.chars() {
                    match c {
                        '"' => out.push_str("\\\""),
                        '\\' => out.push_str("\\\\"),
                        '\n' => out.push_str("\\n"),
                        '\r' => out.push_str("\\r"),
                        '\t' => out.push_str("\\t"),
                        c if (c as u32) < 0x20 => out.push_str(&format!("\\u{:04x}", c as u32)),
                        c => out.push(c),
                    }
                }
                out.push('"');
            }
            J::Arr(v) => {
                out.push('[');
                for (i, x) in v.iter().enumerate() {
                    if i > 0 {
                        out.push(',');
                    }
                    x.write(out);
                }
                out.push(']');
            }
            J::Obj(v) => {
                out.push('{');
                for (i, (k, x)) in v.iter().enumerate() {
                    if i > 0 {
                        out.push(',');
                    }
                    out.push('"');
                    out.push_str(k);
                    out.push_str("\":");
                    x.write(out);
                }
                out.push('}');
            }
        }
    }
}
