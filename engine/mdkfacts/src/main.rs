// mdkfacts — rustc_private driver: dumps the resolved program (simplified MIR, resolved
// callees, constants, ADTs, impls) of every mdk_* crate it compiles as one JSON file per
// rustc process into $MDKFACTS_OUT. Nothing is executed; rules live in engine/rules (Python).
#![feature(rustc_private)]
extern crate rustc_abi;
extern crate rustc_driver;
extern crate rustc_hir;
extern crate rustc_interface;
extern crate rustc_lint;
extern crate rustc_lint_defs;
extern crate rustc_middle;
extern crate rustc_session;
extern crate rustc_span;

use rustc_driver::Compilation;
use rustc_hir::def::DefKind;
use rustc_hir::def_id::{DefId, LOCAL_CRATE};
use rustc_middle::mir::{
    self, AggregateKind, AssertKind, BinOp, Const, Operand, ProjectionElem, Rvalue, StatementKind,
    TerminatorKind, UnwindAction,
};
use rustc_middle::ty::print::{with_crate_prefix, with_no_trimmed_paths, with_no_visible_paths};
use rustc_middle::ty::{self, Instance, Ty, TyCtxt, TypingEnv};
use std::collections::BTreeMap;
use std::fmt::Write as _;

mod json;
use json::J;

struct Cb;

struct Ctx<'tcx> {
    tcx: TyCtxt<'tcx>,
    adts: BTreeMap<String, DefId>,
}

thread_local! { static KRATE: std::cell::RefCell<String> = std::cell::RefCell::new(String::new()); }
fn fix(s: String) -> String {
    // local items print as `crate::…` under with_crate_prefix; make them crate-qualified
    if s.contains("crate::") {
        KRATE.with(|k| s.replace("crate::", &format!("{}::", k.borrow())))
    } else {
        s
    }
}
macro_rules! full { ($e:expr) => { fix(with_crate_prefix!(with_no_visible_paths!(with_no_trimmed_paths!($e)))) } }
fn dps(tcx: TyCtxt<'_>, did: DefId) -> String {
    full!(tcx.def_path_str(did))
}
fn tys(ty: Ty<'_>) -> String {
    full!(ty.to_string())
}

fn span_loc(tcx: TyCtxt<'_>, sp: rustc_span::Span) -> (String, u32) {
    // location of the outermost (user-written) call site
    let sp = sp.source_callsite();
    let sm = tcx.sess.source_map();
    let lo = sm.lookup_char_pos(sp.lo());
    let name = match &lo.file.name {
        rustc_span::FileName::Real(r) => match r.local_path() {
            Some(p) => p.to_string_lossy().to_string(),
            None => format!("{:?}", r),
        },
        other => format!("{:?}", other),
    };
    (name, lo.line as u32)
}

fn expn_list(tcx: TyCtxt<'_>, sp: rustc_span::Span) -> Vec<String> {
    let mut v = Vec::new();
    for e in sp.macro_backtrace() {
        if let Some(d) = e.macro_def_id {
            v.push(dps(tcx, d));
        } else {
            v.push(format!("{:?}", e.kind));
        }
    }
    v
}

impl<'tcx> Ctx<'tcx> {
    fn note_adt(&mut self, did: DefId) -> String {
        let p = dps(self.tcx, did);
        self.adts.entry(p.clone()).or_insert(did);
        p
    }

    fn place(&mut self, body: &mir::Body<'tcx>, p: &mir::Place<'tcx>) -> J {
        let tcx = self.tcx;
        let mut v = vec![J::Int(p.local.as_usize() as i128)];
        let mut pty = mir::PlaceTy::from_ty(body.local_decls[p.local].ty);
        for elem in p.projection.iter() {
            match elem {
                ProjectionElem::Deref => v.push(J::s("*")),
                ProjectionElem::Field(f, _) => {
                    let name = match pty.ty.kind() {
                        ty::Adt(adt, _) => {
                            let var = match pty.variant_index {
                                Some(vi) => adt.variant(vi),
                                None => adt.non_enum_variant(),
                            };
                            var.fields[f].name.to_string()
                        }
                        _ => format!("{}", f.as_usize()),
                    };
                    v.push(J::Str(format!(".{}", name)));
                }
                ProjectionElem::Downcast(name, vi) => {
                    let n = match name {
                        Some(n) => n.to_string(),
                        None => match pty.ty.kind() {
                            ty::Adt(adt, _) => adt.variant(vi).name.to_string(),
                            _ => format!("{}", vi.as_usize()),
                        },
                    };
                    if let ty::Adt(adt, _) = pty.ty.kind() {
                        self.note_adt(adt.did());
                    }
                    v.push(J::Str(format!("as {}", n)));
                }
                ProjectionElem::Index(l) => v.push(J::Str(format!("[_{}]", l.as_usize()))),
                ProjectionElem::ConstantIndex { offset, from_end, .. } => {
                    v.push(J::Str(format!("[{}{}]", if from_end { "-" } else { "" }, offset)))
                }
                ProjectionElem::Subslice { from, to, from_end } => {
                    v.push(J::Str(format!("[{}..{}{}]", from, if from_end { "-" } else { "" }, to)))
                }
                _ => v.push(J::s("?")),
            }
            pty = pty.projection_ty(tcx, elem);
        }
        J::Arr(v)
    }

    fn constant(&mut self, did: DefId, c: &mir::ConstOperand<'tcx>) -> J {
        let tcx = self.tcx;
        let ty = c.const_.ty();
        let mut o = vec![("ty", J::Str(tys(ty)))];
        match ty.kind() {
            ty::FnDef(callee, gargs) => {
                o.push(("fn", J::Str(dps(tcx, *callee))));
                o.push(("gen", J::Arr(gargs.iter().map(|g| J::Str(full!(g.to_string()))).collect())));
                return J::obj(o);
            }
            _ => {}
        }
        if let Const::Unevaluated(uv, _) = c.const_ {
            if let Some(p) = uv.promoted {
                o.push(("promoted", J::Int(p.as_usize() as i128)));
                return J::obj(o);
            } else {
                o.push(("item", J::Str(dps(tcx, uv.def))));
            }
        }
        if let ty::Ref(_, inner, _) = ty.kind() {
            if inner.is_str() {
                if let Const::Val(val, _) = c.const_ {
                    if let Some(bytes) = val.try_get_slice_bytes_for_diagnostics(tcx) {
                        o.push(("str", J::Str(String::from_utf8_lossy(bytes).to_string())));
                        return J::obj(o);
                    }
                }
                // unevaluated &str const items
                let tenv = TypingEnv::post_analysis(tcx, did);
                if let Ok(val) = c.const_.eval(tcx, tenv, c.span) {
                    if let Some(bytes) = val.try_get_slice_bytes_for_diagnostics(tcx) {
                        o.push(("str", J::Str(String::from_utf8_lossy(bytes).to_string())));
                        return J::obj(o);
                    }
                }
            }
            if let ty::Array(el, _) = inner.kind() {
                if *el == tcx.types.u8 {
                    // e.g. the compact `format_args!` template: &[u8; N] in a global allocation
                    if let Const::Val(mir::ConstValue::Scalar(rustc_middle::mir::interpret::Scalar::Ptr(ptr, _)), _) = c.const_ {
                        let (prov, off) = ptr.into_raw_parts();
                        if let Some(rustc_middle::mir::interpret::GlobalAlloc::Memory(a)) = tcx.try_get_global_alloc(prov.alloc_id()) {
                            let al = a.inner();
                            let start = off.bytes() as usize;
                            let end = al.len();
                            if start <= end {
                                let bytes = al.inspect_with_uninit_and_ptr_outside_interpreter(start..end);
                                o.push(("bytes", J::Str(String::from_utf8_lossy(bytes).to_string())));
                                return J::obj(o);
                            }
                        }
                    }
                }
            }
            if let ty::Slice(el) = inner.kind() {
                if *el == tcx.types.u8 {
                    if let Const::Val(val, _) = c.const_ {
                        if let Some(bytes) = val.try_get_slice_bytes_for_diagnostics(tcx) {
                            o.push(("bytes", J::Str(String::from_utf8_lossy(bytes).to_string())));
                            return J::obj(o);
                        }
                    }
                    // unevaluated &[u8] const items (e.g. `const CONTEXT: &[u8] = b"..."`)
                    let tenv = TypingEnv::post_analysis(tcx, did);
                    if let Ok(val) = c.const_.eval(tcx, tenv, c.span) {
                        if let Some(bytes) = val.try_get_slice_bytes_for_diagnostics(tcx) {
                            o.push(("bytes", J::Str(String::from_utf8_lossy(bytes).to_string())));
                            return J::obj(o);
                        }
                    }
                }
            }
        }
        if ty.is_integral() || ty.is_bool() || ty.is_char() {
            let tenv = TypingEnv::post_analysis(tcx, did);
            if let Some(si) = c.const_.try_eval_scalar_int(tcx, tenv) {
                let bits = si.to_bits_unchecked();
                let v: i128 = if ty.is_signed() {
                    let size = si.size();
                    size.sign_extend(bits) as i128
                } else {
                    bits as i128
                };
                o.push(("int", J::Int(v)));
                return J::obj(o);
            }
        }
        if let ty::Adt(adt, _) = ty.kind() {
            if adt.is_enum() {
                self.note_adt(adt.did());
            }
        }
        // aggregates of constants (`const SUFFIXES: [&str; 3] = [..]`): the evaluated value, pretty-printed, so that the string /
        // integer elements can be read out of it
        if matches!(ty.kind(), ty::Array(..) | ty::Tuple(..)) || matches!(ty.kind(), ty::Ref(_, inner, _) if matches!(inner.kind(), ty::Array(..) | ty::Slice(..) | ty::Tuple(..))) {
            let tenv = TypingEnv::post_analysis(tcx, did);
            if let Ok(val) = c.const_.eval(tcx, tenv, c.span) {
                let shown: String = full!(format!("{}", Const::Val(val, ty)));
                o.push(("evaluated", J::Str(shown.chars().take(600).collect())));
            }
        }
        o.push(("other", J::Str(full!(format!("{}", c.const_)))));
        J::obj(o)
    }

    fn operand(&mut self, did: DefId, body: &mir::Body<'tcx>, op: &Operand<'tcx>) -> J {
        match op {
            Operand::Copy(p) => J::obj(vec![("p", self.place(body, p))]),
            Operand::Move(p) => J::obj(vec![("p", self.place(body, p)), ("m", J::Int(1))]),
            Operand::Constant(c) => J::obj(vec![("c", self.constant(did, c))]),
            #[allow(unreachable_patterns)]
            _ => J::obj(vec![("x", J::s("runtime-checks"))]),
        }
    }

    fn variants_of(&mut self, ty: Ty<'tcx>) -> Option<String> {
        if let ty::Adt(adt, _) = ty.kind() {
            return Some(self.note_adt(adt.did()));
        }
        None
    }

    fn rvalue(&mut self, did: DefId, body: &mir::Body<'tcx>, rv: &Rvalue<'tcx>) -> Vec<(&'static str, J)> {
        let tcx = self.tcx;
        let mut o: Vec<(&'static str, J)> = Vec::new();
        match rv {
            Rvalue::Use(op, ..) => {
                o.push(("k", J::s("use")));
                o.push(("o", J::Arr(vec![self.operand(did, body, op)])));
            }
            Rvalue::Repeat(op, _) => {
                o.push(("k", J::s("repeat")));
                o.push(("o", J::Arr(vec![self.operand(did, body, op)])));
            }
            Rvalue::Ref(_, bk, p) => {
                o.push(("k", J::s("ref")));
                o.push(("mutb", J::Int(matches!(bk, mir::BorrowKind::Mut { .. }) as i128)));
                o.push(("o", J::Arr(vec![J::obj(vec![("p", self.place(body, p))])])));
            }
            Rvalue::RawPtr(_, p) => {
                o.push(("k", J::s("rawptr")));
                o.push(("o", J::Arr(vec![J::obj(vec![("p", self.place(body, p))])])));
            }
            Rvalue::Cast(ck, op, ty) => {
                o.push(("k", J::s("cast")));
                o.push(("cast", J::Str(format!("{:?}", ck))));
                o.push(("to", J::Str(tys(*ty))));
                o.push(("o", J::Arr(vec![self.operand(did, body, op)])));
            }
            Rvalue::BinaryOp(op, ab) => {
                let (a, b) = &**ab;
                o.push(("k", J::s("binop")));
                o.push(("op", J::Str(format!("{:?}", op))));
                let a = self.operand(did, body, a);
                let b = self.operand(did, body, b);
                o.push(("o", J::Arr(vec![a, b])));
                let _ = BinOp::Add;
            }
            Rvalue::UnaryOp(op, a) => {
                o.push(("k", J::s("unop")));
                o.push(("op", J::Str(format!("{:?}", op))));
                o.push(("o", J::Arr(vec![self.operand(did, body, a)])));
            }
            Rvalue::Discriminant(p) => {
                o.push(("k", J::s("discr")));
                let pty = p.ty(&body.local_decls, tcx).ty;
                if let Some(a) = self.variants_of(pty) {
                    o.push(("adt", J::Str(a)));
                }
                o.push(("o", J::Arr(vec![J::obj(vec![("p", self.place(body, p))])])));
            }
            Rvalue::Aggregate(kind, ops) => {
                let opsj: Vec<J> = ops.iter().map(|x| self.operand(did, body, x)).collect();
                match &**kind {
                    AggregateKind::Adt(adt_did, vi, _, _, active) => {
                        let adt = tcx.adt_def(*adt_did);
                        let var = adt.variant(*vi);
                        o.push(("k", J::s("agg")));
                        o.push(("adt", J::Str(self.note_adt(*adt_did))));
                        o.push(("variant", J::Str(var.name.to_string())));
                        let names: Vec<J> = if let Some(af) = active {
                            vec![J::Str(var.fields[*af].name.to_string())]
                        } else {
                            var.fields.iter().map(|f| J::Str(f.name.to_string())).collect()
                        };
                        o.push(("fields", J::Arr(names)));
                    }
                    AggregateKind::Closure(cdid, _) => {
                        o.push(("k", J::s("closure")));
                        o.push(("closure", J::Str(dps(tcx, *cdid))));
                    }
                    AggregateKind::Tuple => o.push(("k", J::s("tuple"))),
                    AggregateKind::Array(_) => o.push(("k", J::s("array"))),
                    other => {
                        o.push(("k", J::s("aggother")));
                        o.push(("what", J::Str(format!("{:?}", other).chars().take(80).collect())));
                    }
                }
                o.push(("o", J::Arr(opsj)));
            }
            Rvalue::CopyForDeref(p) => {
                o.push(("k", J::s("use")));
                o.push(("o", J::Arr(vec![J::obj(vec![("p", self.place(body, p))])])));
            }
            other => {
                o.push(("k", J::s("other")));
                o.push(("what", J::Str(format!("{:?}", other).chars().take(120).collect())));
                // best effort operands: none
                o.push(("o", J::Arr(vec![])));
            }
        }
        o
    }

    fn callee(&mut self, did: DefId, func: &Operand<'tcx>, body: &mir::Body<'tcx>) -> J {
        let tcx = self.tcx;
        if let Operand::Constant(c) = func {
            if let ty::FnDef(callee, gargs) = c.const_.ty().kind() {
                let tenv = TypingEnv::post_analysis(tcx, did);
                let mut o = vec![("path", J::Str(dps(tcx, *callee)))];
                o.push(("name", J::Str(tcx.item_name(*callee).to_string())));
                o.push(("gen", J::Arr(gargs.iter().map(|g| J::Str(full!(g.to_string()))).collect())));
                o.push(("krate", J::Str(tcx.crate_name(callee.krate).to_string())));
                if let Some(tr) = tcx.trait_of_assoc(*callee) {
                    o.push(("trait", J::Str(dps(tcx, tr))));
                    if let Some(st) = gargs.types().next() {
                        o.push(("self_ty", J::Str(tys(st))));
                    }
                } else if let Some(imp) = tcx.inherent_impl_of_assoc(*callee) {
                    let st = tcx.type_of(imp).instantiate_identity().skip_norm_wip();
                    o.push(("self_ty", J::Str(tys(st))));
                    if let ty::Adt(a, _) = st.kind() {
                        o.push(("self_adt", J::Str(dps(tcx, a.did()))));
                    }
                }
                if let Ok(Some(inst)) = Instance::try_resolve(tcx, tenv, *callee, gargs) {
                    let rd = inst.def_id();
                    if rd != *callee {
                        o.push(("resolved", J::Str(dps(tcx, rd))));
                        o.push(("rkrate", J::Str(tcx.crate_name(rd.krate).to_string())));
                    }
                    if let ty::InstanceKind::Virtual(..) = inst.def {
                        o.push(("virtual", J::Int(1)));
                    }
                } else {
                    o.push(("unresolved", J::Int(1)));
                }
                return J::obj(o);
            }
        }
        // indirect call through a value
        J::obj(vec![("indirect", self.operand(did, body, func))])
    }

    fn body(&mut self, did: DefId, body: &mir::Body<'tcx>) -> Vec<(&'static str, J)> {
        let tcx = self.tcx;
        let mut out: Vec<(&'static str, J)> = Vec::new();
        out.push(("nargs", J::Int(body.arg_count as i128)));
        let locals: Vec<J> = body.local_decls.iter().map(|d| J::Str(tys(d.ty))).collect();
        out.push(("locals", J::Arr(locals)));
        let mut dbg = Vec::new();
        for vdi in &body.var_debug_info {
            if let mir::VarDebugInfoContents::Place(p) = &vdi.value {
                dbg.push(J::Arr(vec![J::Str(vdi.name.to_string()), self.place(body, p)]));
            }
        }
        out.push(("debug", J::Arr(dbg)));
        let mut blocks = Vec::new();
        for (_bbi, bb) in body.basic_blocks.iter_enumerated() {
            let mut stmts = Vec::new();
            for st in &bb.statements {
                match &st.kind {
                    StatementKind::Assign(b) => {
                        let (pl, rv) = &**b;
                        let mut o = vec![("d", self.place(body, pl))];
                        o.extend(self.rvalue(did, body, rv));
                        if matches!(rv, Rvalue::Aggregate(..) | Rvalue::BinaryOp(..)) {
                            let (_, line) = span_loc(tcx, st.source_info.span);
                            o.push(("line", J::Int(line as i128)));
                        }
                        stmts.push(J::obj(o));
                    }
                    StatementKind::SetDiscriminant { place, variant_index } => {
                        let pty = place.ty(&body.local_decls, tcx).ty;
                        let mut o = vec![("d", self.place(body, place)), ("k", J::s("setdiscr"))];
                        if let ty::Adt(adt, _) = pty.kind() {
                            o.push(("adt", J::Str(self.note_adt(adt.did()))));
                            o.push(("variant", J::Str(adt.variant(*variant_index).name.to_string())));
                        }
                        o.push(("o", J::Arr(vec![])));
                        stmts.push(J::obj(o));
                    }
                    _ => {}
                }
            }
            let term = bb.terminator();
            let mut t: Vec<(&'static str, J)> = Vec::new();
            match &term.kind {
                TerminatorKind::Goto { target } => {
                    t.push(("k", J::s("goto")));
                    t.push(("to", J::Int(target.as_usize() as i128)));
                }
                TerminatorKind::SwitchInt { discr, targets } => {
                    t.push(("k", J::s("switch")));
                    t.push(("discr", self.operand(did, body, discr)));
                    let tg: Vec<J> = targets
                        .iter()
                        .map(|(v, bb)| J::Arr(vec![J::Int(v as i128), J::Int(bb.as_usize() as i128)]))
                        .collect();
                    t.push(("targets", J::Arr(tg)));
                    t.push(("otherwise", J::Int(targets.otherwise().as_usize() as i128)));
                }
                TerminatorKind::Return => t.push(("k", J::s("return"))),
                TerminatorKind::Unreachable => t.push(("k", J::s("unreachable"))),
                TerminatorKind::UnwindResume => t.push(("k", J::s("resume"))),
                TerminatorKind::UnwindTerminate(_) => t.push(("k", J::s("terminate"))),
                TerminatorKind::Drop { place, target, unwind, .. } => {
                    t.push(("k", J::s("drop")));
                    t.push(("place", self.place(body, place)));
                    t.push(("to", J::Int(target.as_usize() as i128)));
                    if let UnwindAction::Cleanup(u) = unwind {
                        t.push(("u", J::Int(u.as_usize() as i128)));
                    }
                }
                TerminatorKind::Call { func, args, destination, target, unwind, .. } => {
                    t.push(("k", J::s("call")));
                    t.push(("callee", self.callee(did, func, body)));
                    let a: Vec<J> = args.iter().map(|x| self.operand(did, body, &x.node)).collect();
                    t.push(("args", J::Arr(a)));
                    t.push(("dst", self.place(body, destination)));
                    if let Some(tb) = target {
                        t.push(("to", J::Int(tb.as_usize() as i128)));
                    }
                    if let UnwindAction::Cleanup(u) = unwind {
                        t.push(("u", J::Int(u.as_usize() as i128)));
                    }
                    let (file, line) = span_loc(tcx, term.source_info.span);
                    t.push(("file", J::Str(file)));
                    t.push(("line", J::Int(line as i128)));
                    let ex = expn_list(tcx, term.source_info.span);
                    if !ex.is_empty() {
                        t.push(("expn", J::Arr(ex.into_iter().map(J::Str).collect())));
                    }
                }
                TerminatorKind::TailCall { func, args, .. } => {
                    t.push(("k", J::s("call")));
                    t.push(("tail", J::Int(1)));
                    t.push(("callee", self.callee(did, func, body)));
                    let a: Vec<J> = args.iter().map(|x| self.operand(did, body, &x.node)).collect();
                    t.push(("args", J::Arr(a)));
                    t.push(("dst", J::Arr(vec![J::Int(0)])));
                }
                TerminatorKind::Assert { cond, expected, msg, target, unwind } => {
                    t.push(("k", J::s("assert")));
                    t.push(("cond", self.operand(did, body, cond)));
                    t.push(("expected", J::Int(*expected as i128)));
                    let (kind, ops): (String, Vec<J>) = match &**msg {
                        AssertKind::BoundsCheck { len, index } => {
                            ("bounds".into(), vec![self.operand(did, body, len), self.operand(did, body, index)])
                        }
                        AssertKind::Overflow(op, a, b) => {
                            (format!("overflow:{:?}", op), vec![self.operand(did, body, a), self.operand(did, body, b)])
                        }
                        AssertKind::OverflowNeg(a) => ("overflow:Neg".into(), vec![self.operand(did, body, a)]),
                        AssertKind::DivisionByZero(a) => ("div0".into(), vec![self.operand(did, body, a)]),
                        AssertKind::RemainderByZero(a) => ("rem0".into(), vec![self.operand(did, body, a)]),
                        other => (format!("other:{:?}", other).chars().take(60).collect(), vec![]),
                    };
                    t.push(("kind", J::Str(kind)));
                    t.push(("ops", J::Arr(ops)));
                    t.push(("to", J::Int(target.as_usize() as i128)));
                    if let UnwindAction::Cleanup(u) = unwind {
                        t.push(("u", J::Int(u.as_usize() as i128)));
                    }
                    let (file, line) = span_loc(tcx, term.source_info.span);
                    t.push(("file", J::Str(file)));
                    t.push(("line", J::Int(line as i128)));
                    let ex = expn_list(tcx, term.source_info.span);
                    if !ex.is_empty() {
                        t.push(("expn", J::Arr(ex.into_iter().map(J::Str).collect())));
                    }
                }
                TerminatorKind::FalseEdge { real_target, .. } => {
                    t.push(("k", J::s("goto")));
                    t.push(("to", J::Int(real_target.as_usize() as i128)));
                }
                TerminatorKind::FalseUnwind { real_target, .. } => {
                    t.push(("k", J::s("goto")));
                    t.push(("to", J::Int(real_target.as_usize() as i128)));
                }
                other => {
                    t.push(("k", J::s("otherterm")));
                    t.push(("what", J::Str(format!("{:?}", other).chars().take(80).collect())));
                    let succ: Vec<J> = term.successors().map(|b| J::Int(b.as_usize() as i128)).collect();
                    t.push(("succ", J::Arr(succ)));
                }
            }
            let mut bo = vec![("s", J::Arr(stmts)), ("t", J::obj(t))];
            if bb.is_cleanup {
                bo.push(("cl", J::Int(1)));
            }
            blocks.push(J::obj(bo));
        }
        out.push(("blocks", J::Arr(blocks)));
        out
    }

    fn promoted_consts(&mut self, did: DefId) -> J {
        // string / int constants of each promoted body (e.g. &["a","b"] tables)
        let tcx = self.tcx;
        let mut arr = Vec::new();
        if let Some(ld) = did.as_local() {
            let proms = tcx.promoted_mir(ld);
            for pb in proms.iter() {
                let mut items = Vec::new();
                for bb in pb.basic_blocks.iter() {
                    for st in &bb.statements {
                        if let StatementKind::Assign(b) = &st.kind {
                            let (_, rv) = &**b;
                            let mut ops: Vec<&Operand<'tcx>> = Vec::new();
                            if let Rvalue::Aggregate(kind, _) = rv {
                                if let AggregateKind::Adt(adt_did, vi, _, _, _) = &**kind {
                                    let adt = tcx.adt_def(*adt_did);
                                    let name = adt.variant(*vi).name.to_string();
                                    let ap = self.note_adt(*adt_did);
                                    items.push(J::obj(vec![("agg", J::Str(ap)), ("variant", J::Str(name))]));
                                }
                            }
                            match rv {
                                Rvalue::Use(op, ..) => ops.push(op),
                                Rvalue::Aggregate(_, os) => ops.extend(os.iter()),
                                Rvalue::Cast(_, op, _) => ops.push(op),
                                Rvalue::Repeat(op, _) => ops.push(op),
                                _ => {}
                            }
                            for op in ops {
                                if let Operand::Constant(c) = op {
                                    items.push(self.constant(did, c));
                                }
                            }
                        }
                    }
                    if let Some(term) = &bb.terminator {
                        if let TerminatorKind::Call { args, .. } = &term.kind {
                            for a in args.iter() {
                                if let Operand::Constant(c) = &a.node {
                                    items.push(self.constant(did, c));
                                }
                            }
                        }
                    }
                }
                arr.push(J::Arr(items));
            }
        }
        J::Arr(arr)
    }
}

impl rustc_driver::Callbacks for Cb {
    fn after_analysis<'tcx>(&mut self, _c: &rustc_interface::interface::Compiler, tcx: TyCtxt<'tcx>) -> Compilation {
        let krate = tcx.crate_name(LOCAL_CRATE).to_string();
        let outdir = match std::env::var("MDKFACTS_OUT") {
            Ok(d) => d,
            Err(_) => return Compilation::Continue,
        };
        let want = std::env::var("MDKFACTS_CRATES").unwrap_or_else(|_| "mdk_".to_string());
        if !want.split(',').any(|p| krate.starts_with(p)) {
            return Compilation::Continue;
        }
        if tcx.sess.dcx().has_errors().is_some() {
            return Compilation::Continue;
        }
        KRATE.with(|k| *k.borrow_mut() = krate.clone());
        let mut cx = Ctx { tcx, adts: BTreeMap::new() };
        let mut fns = Vec::new();
        for def in tcx.hir_body_owners() {
            let did = def.to_def_id();
            let kind = tcx.def_kind(did);
            if !matches!(kind, DefKind::Fn | DefKind::AssocFn | DefKind::Closure) {
                continue;
            }
            if tcx.is_constructor(did) {
                continue;
            }
            let mut f: Vec<(&'static str, J)> = Vec::new();
            f.push(("path", J::Str(dps(tcx, did))));
            f.push(("kind", J::Str(format!("{:?}", kind))));
            if !matches!(kind, DefKind::Closure) {
                f.push(("name", J::Str(tcx.item_name(did).to_string())));
                let vis = tcx.visibility(did);
                f.push(("vis", J::Str(if vis.is_public() { "pub".into() } else { format!("{:?}", vis) })));
                if tcx.is_const_fn(did) {
                    f.push(("const", J::Int(1)));
                }
            }
            if matches!(kind, DefKind::Closure) {
                let parent = tcx.parent(did);
                f.push(("parent", J::Str(dps(tcx, parent))));
                // root (non-closure) owner
                let root = tcx.typeck_root_def_id(did);
                f.push(("root", J::Str(dps(tcx, root))));
            }
            if let Some(ai) = tcx.opt_associated_item(did) {
                if let Some(imp) = tcx.inherent_impl_of_assoc(did) {
                    let st = tcx.type_of(imp).instantiate_identity().skip_norm_wip();
                    f.push(("self_ty", J::Str(tys(st))));
                    if let ty::Adt(a, _) = st.kind() {
                        f.push(("self_adt", J::Str(dps(tcx, a.did()))));
                    }
                } else if let Some(imp) = tcx.trait_impl_of_assoc(did) {
                    let st = tcx.type_of(imp).instantiate_identity().skip_norm_wip();
                    f.push(("self_ty", J::Str(tys(st))));
                    if let ty::Adt(a, _) = st.kind() {
                        f.push(("self_adt", J::Str(dps(tcx, a.did()))));
                    }
                    let tr = tcx.impl_trait_ref(imp).instantiate_identity().skip_norm_wip();
                    f.push(("impl_trait", J::Str(dps(tcx, tr.def_id))));
                    if tcx.is_automatically_derived(imp) {
                        f.push(("derived", J::Int(1)));
                    }
                } else if let Some(tr) = tcx.trait_of_assoc(did) {
                    f.push(("in_trait", J::Str(dps(tcx, tr))));
                }
                if let Some(ti) = ai.trait_item_def_id() {
                    f.push(("trait_item", J::Str(dps(tcx, ti))));
                }
            }
            let sp = tcx.def_span(did);
            let (file, line) = span_loc(tcx, sp);
            f.push(("file", J::Str(file)));
            f.push(("line", J::Int(line as i128)));
            let ex = expn_list(tcx, sp);
            if !ex.is_empty() {
                f.push(("expn", J::Arr(ex.into_iter().map(J::Str).collect())));
            }
            // attributes of interest
            let ret = {
                let body = tcx.optimized_mir(did);
                f.push(("ret", J::Str(tys(body.local_decls[mir::RETURN_PLACE].ty))));
                cx.body(did, body)
            };
            f.extend(ret);
            f.push(("promoted", cx.promoted_consts(did)));
            fns.push(J::obj(f));
        }
        // impls
        let mut impls = Vec::new();
        for id in tcx.hir_crate_items(()).free_items() {
            let did = id.owner_id.to_def_id();
            if let DefKind::Impl { of_trait } = tcx.def_kind(did) {
                let st = tcx.type_of(did).instantiate_identity().skip_norm_wip();
                let mut o = vec![("self_ty", J::Str(tys(st)))];
                if let ty::Adt(a, _) = st.kind() {
                    o.push(("self_adt", J::Str(dps(tcx, a.did()))));
                }
                if of_trait {
                    let tr = tcx.impl_trait_ref(did).instantiate_identity().skip_norm_wip();
                    o.push(("trait", J::Str(dps(tcx, tr.def_id))));
                    o.push(("trait_ref", J::Str(full!(tr.to_string()))));
                }
                if tcx.is_automatically_derived(did) {
                    o.push(("derived", J::Int(1)));
                }
                let (file, line) = span_loc(tcx, tcx.def_span(did));
                o.push(("file", J::Str(file)));
                o.push(("line", J::Int(line as i128)));
                let ex = expn_list(tcx, tcx.def_span(did));
                if !ex.is_empty() {
                    o.push(("expn", J::Arr(ex.into_iter().map(J::Str).collect())));
                }
                let mut methods = Vec::new();
                for ai in tcx.associated_items(did).in_definition_order() {
                    if matches!(ai.kind, ty::AssocKind::Fn { .. }) {
                        methods.push(J::Str(dps(tcx, ai.def_id)));
                    }
                }
                o.push(("methods", J::Arr(methods)));
                impls.push(J::obj(o));
            }
        }
        // local struct/enum definitions are always recorded
        for id in tcx.hir_crate_items(()).free_items() {
            let did = id.owner_id.to_def_id();
            if matches!(tcx.def_kind(did), DefKind::Struct | DefKind::Enum) {
                cx.note_adt(did);
            }
        }
        // ADT table
        let mut adts = Vec::new();
        let seen: Vec<(String, DefId)> = cx.adts.iter().map(|(k, v)| (k.clone(), *v)).collect();
        for (path, did) in seen {
            let adt = tcx.adt_def(did);
            let mut o = vec![("path", J::Str(path))];
            o.push(("kind", J::s(if adt.is_enum() { "enum" } else if adt.is_union() { "union" } else { "struct" })));
            o.push(("local", J::Int(did.is_local() as i128)));
            let mut vars = Vec::new();
            for (vi, var) in adt.variants().iter_enumerated() {
                let mut vo = vec![("name", J::Str(var.name.to_string()))];
                if adt.is_enum() {
                    let d = adt.discriminant_for_variant(tcx, vi);
                    vo.push(("discr", J::Int(d.val as i128)));
                }
                let fields: Vec<J> = var
                    .fields
                    .iter()
                    .map(|fd| {
                        let fty = tcx.type_of(fd.did).instantiate_identity().skip_norm_wip();
                        J::obj(vec![
                            ("name", J::Str(fd.name.to_string())),
                            ("ty", J::Str(tys(fty))),
                            ("pub", J::Int(fd.vis.is_public() as i128)),
                        ])
                    })
                    .collect();
                vo.push(("fields", J::Arr(fields)));
                vars.push(J::obj(vo));
            }
            o.push(("variants", J::Arr(vars)));
            if did.is_local() {
                let (file, line) = span_loc(tcx, tcx.def_span(did));
                o.push(("file", J::Str(file)));
                o.push(("line", J::Int(line as i128)));
                let vis = tcx.visibility(did);
                o.push(("vis", J::Str(if vis.is_public() { "pub".into() } else { format!("{:?}", vis) })));
            }
            adts.push(J::obj(o));
        }
        // crate-level lint level for unsafe_code
        let lvl = {
            let store = rustc_lint::unerased_lint_store(tcx.sess);
            let mut out = String::from("unknown");
            for l in store.get_lints() {
                if l.name_lower() == "unsafe_code" {
                    let lv = tcx.lint_level_at_node(l, rustc_hir::CRATE_HIR_ID);
                    out = format!("{:?}", lv.level);
                }
            }
            out
        };
        let crate_types: Vec<J> = tcx.crate_types().iter().map(|c| J::Str(format!("{:?}", c))).collect();
        let top = J::obj(vec![
            ("crate", J::Str(krate.clone())),
            ("unsafe_code_level", J::Str(lvl)),
            ("crate_types", J::Arr(crate_types)),
            ("fns", J::Arr(fns)),
            ("impls", J::Arr(impls)),
            ("adts", J::Arr(adts)),
        ]);
        let mut s = String::new();
        top.write(&mut s);
        let is_test = tcx.sess.opts.test;
        let mut fname = String::new();
        let _ = write!(fname, "{}/{}{}.{}.json", outdir, krate, if is_test { ".test" } else { "" }, std::process::id());
        if let Err(e) = std::fs::write(&fname, s) {
            eprintln!("mdkfacts: cannot write {}: {}", fname, e);
        }
        Compilation::Continue
    }
}

fn main() {
    let mut args: Vec<String> = std::env::args().collect();
    // RUSTC_WORKSPACE_WRAPPER / RUSTC_WRAPPER pass the real rustc path as argv[1]
    if args.len() > 1 && (args[1].ends_with("rustc") || args[1].contains("/rustc")) {
        args.remove(1);
    }
    rustc_driver::run_compiler(&args, &mut Cb);
}
