#!/usr/bin/env python3
"""Regenerates the seeded-change table of DESIGN.md from seeded/*/meta.json (+ the history notes below)."""
import json
import os
import re

VERIF = os.path.dirname(os.path.dirname(os.path.abspath(__file__)))
# verdict when the change first arrived, and what was strengthened if it was missed
HISTORY = {
    "C01-1": ("missed", "C01 rollback-arm/comparator-first"),
    "C01-2": ("missed", "C01 snapshot-records-incumbent (provenance of id / created_at / epoch)"),
    "C02-1": ("missed", "C02 lookback-window-arithmetic (affine evaluation of the epoch range)"),
    "C02-2": ("caught by C10 only", "C02 selector-siblings against the storage contract"),
    "C05-1": ("missed", "C05 decision source must be the live group, not StagedCommit::group_context()"),
    "C05-2": ("caught", ""),
    "C10-1": ("missed", "C10 message-key (id-only cache never feeds a returned value)"),
    "C10-2": ("caught", ""),
    "C18-1": ("caught by C10 only", "C18 upsert-complete for the messages table"),
    "C18-2": ("caught", ""),
    "C04-1": ("caught", ""),
    "C04-2": ("missed", "C04 authenticated-credential (copy provenance = ProcessedMessage::credential)"),
    "C07-1": ("missed", "C01/C07 snapshot-records-incumbent/hydrated"),
    "C07-2": ("missed", "C07 own-commit-shortcut"),
    "C08-1": ("caught by C09", ""),
    "C08-2": ("missed", "C16 existing-group guard must be exactly `state == Active`"),
    "C09-1": ("caught by C12 floor only", "C09 retake-replaces requires the DELETE (OR REPLACE alone leaves stale rows)"),
    "C09-2": ("missed", "C09 memory-scope/restore/nostr-index-key"),
    "C16-1": ("missed", "C16 decision table of the is-active closure"),
    "C16-2": ("caught by C08", ""),
    "C20-1": ("missed", "C20 rollback-discards-suffix/released-name (copy provenance)"),
    "C20-2": ("caught", ""),
    "C03-1": ("missed", "C03 remove-every-leaf"),
    "C03-2": ("caught", ""),
    "C06-1": ("caught", ""),
    "C06-2": ("missed", "C06 validate-then-apply/late-refusal"),
    "C13-1": ("missed", "C13 permissions/restrict-on-every-open"),
    "C13-2": ("missed", "C13 keyring/never-deletes-key"),
    "C14-1": ("caught", ""),
    "C14-2": ("missed", "C14 redacting-debug inspects the values handed to the formatter; wrapper Event is a leaky type"),
    "C15-1": ("missed", "C15 imeta-tables/entry-split-at-first-space"),
    "C15-2": ("missed", "C15 welcome-bound/refuses/every-encoding-tag"),
    "C19-1": ("caught", ""),
    "C11-1": ("caught by C20 only", "C11 queue-storage-agreement (every removal from the queue is released / consumed in storage)"),
    "C11-2": ("caught by C01/C07 only; C11 lost its known finding silently", "C11 hydration-coverage/<field>/source (a hydrated field is parsed from the name, never the row's creation time)"),
    "C12-1": ("caught", ""),
    "C12-2": ("caught", ""),
    "C17-1": ("caught", ""),
    "C17-2": ("missed", "C17 aead-siblings/binding-agreement (+ reference-field on the decrypt side)"),
    "C01-3": ("missed (round 2)", "C09 memory-scope/filter-key-representation (OpenMLS maps are filtered with the MlsCodec-serialised id)"),
    "C01-4": ("caught (round 2)", ""),
    "C05-3": ("caught (round 2)", ""),
    "C05-4": ("caught (round 2)", ""),
    "C07-3": ("caught (round 2)", ""),
    "C07-4": ("caught (round 2)", ""),
    "C09-3": ("caught (round 2)", ""),
    "C09-4": ("caught (round 2)", ""),
    "C12-3": ("caught (round 2)", ""),
    "C12-4": ("missed (round 2)", "C12 sql-bracket/statement-api (multi-statement SQL must go through execute_batch)"),
    "C16-3": ("caught by a C10 floor only (round 2)", "targetless ON CONFLICT parsed; upsert conflict target must be the primary key (C10 upsert-complete, C08 routing-index, C16 existing-group-untouched)"),
    "C16-4": ("caught (round 2)", ""),
    "C02-3": ("missed (round 2)", "C02 message-epoch-provenance/<record>.<field>-rewritten (stored message records are updated in place only in their state)"),
    "C02-4": ("caught (round 2)", ""),
    "C03-3": ("missed (round 2)", "C03 remove-every-leaf/walk-exhausted (no early break out of the member walk)"),
    "C04-3": ("caught (round 2)", ""),
    "C06-3": ("caught (round 2)", ""),
    "C08-3": ("missed (round 2)", "C08 sync-after-merge/no-stale-overwrite (a record saved after the sync was re-read after it)"),
    "C10-3": ("missed (round 2)", "C10 pagination/memory/<method>/filter-before-page"),
    "C18-3": ("caught by an anchor floor only (round 2)", "C18/C10 memory-sort understands sort_by_key / Reverse key closures and reports the missing tie-break key"),
    "C11-3": ("missed (round 2) — NOT caught", "none: the change swaps `SELECT DISTINCT .. ORDER BY created_at` for `GROUP BY snapshot_name .. ORDER BY created_at`; both are ordered by the same key, the difference is the order SQLite happens to produce among rows with equal created_at (seconds), which SQL leaves unspecified — a runtime matter no sound structural rule separates. Honest miss"),
    "C20-3": ("missed (round 2)", "C09 sql-columns / C20 ttl-prune-at-build: surviving snapshots are written back verbatim (created_at as read)"),
    "C13-3": ("missed (round 2)", "C13 permissions/sidecars/named-after-file (Path::file_name, not file_stem)"),
    "C14-3": ("caught (round 2)", ""),
    "C15-3": ("missed (round 2)", "C15 extension-wiring/presence/<field> (an optional field's presence depends on that wire field alone)"),
    "C17-3": ("missed (round 2)", "C17 aead-siblings/imeta-values-verbatim"),
    "C19-3": ("missed (round 2)", "C19 snapshot-one-instant counts acquisitions through callees and anchors on the function building the snapshot"),
    "C19-4": ("caught by C20 only (round 2)", "C19 one-critical-section/manager/<fn> (a manager function takes the mutex once)"),
    "C01-5": ("caught by C02/C10 only (round 3)", ""),
    "C01-6": ("caught by C07 only (round 3)", ""),
    "C02-5": ("caught (round 3)", ""),
    "C02-6": ("missed (round 3)", "C02 config-inventory/call-sites-agree (all sites of one dependency call wire the same MdkConfig fields to the same positions)"),
    "C03-5": ("caught (round 3)", ""),
    "C04-5": ("caught by C02 only (round 3)", "C04 id-verified/hashed-field/* (the wiring clause for the fields the id is the hash of)"),
    "C05-5": ("caught (round 3)", ""),
    "C05-6": ("caught by C15 only (round 3)", ""),
    "C06-5": ("missed (round 3)", "C06 no-panic: a constant index k is discharged only if the dominating conditions guarantee len > k"),
    "C08-5": ("caught by C16 only (round 3)", ""),
    "C09-5": ("missed (round 3)", "C09 sql-scope/*/key-representation (OpenMLS tables bound to the MlsCodec-serialised id, MDK tables to the raw id)"),
    "C19-2": ("caught by C09/C12 only", "C19 one-critical-section: only the group-existence pre-check is exempt on SQLite"),
    "C10-5": ("caught by C09 only (round 3)", ""),
    "C12-5": ("missed (round 3)", "C12 savepoint names agree across the bracket (SAVEPOINT / RELEASE / ROLLBACK TO name the same savepoint)"),
    "C13-5": ("caught (round 3; the same one-token change as C13-3, produced independently)", ""),
    "C14-5": ("caught (round 3)", ""),
    "C15-5": ("missed (round 3)", "C15 key-package-bound/refuses/i-tag-vs-hash-ref: the deciding comparison is a whole-value (in)equality of byte strings, not an element-wise comparison over zip() (prefix acceptance)"),
    "C16-5": ("missed (round 3)", "C16 preview-gates-writes / C06 refused-event-writes `storage-refusal-after-write`: argument-validation refusals of the storage impls after the first write must repeat an earlier check on the same data with a bound at least as strict (both backends) — the rule that found F19 on the unchanged tree"),
    "C17-5": ("caught (round 3)", ""),
    "C18-5": ("caught (round 3)", ""),
    "C19-5": ("caught (round 3)", ""),
    "C20-5": ("missed (round 3)", "C20 rollback-discards-suffix/<fn>/all-but-consumed: the release loop passes over exactly the consumed entry (guards on the enumerate index and skip() evaluated for the first indices)"),
    "C01-7": ("caught by C08 only (round 4)", "C01 shares C08's no-stale-overwrite (a record saved after the sync was re-read after it)"),
    "C02-7": ("caught by C10/C18 only (round 4)", "C02 / C10 / C18 upsert-complete/<table>/unconditional (no WHERE on the DO UPDATE side)"),
    "C03-7": ("missed (round 4)", "C03 remove-every-leaf/selected-by-membership-only (no second condition on the iterated member inside the walk)"),
    "C04-7": ("missed (round 4)", "C04 id-verified / C10 upsert-complete `stored-verbatim`: no content-changing operation (incl. in place through &mut) between the record and the bound values"),
    "C05-7": ("caught (round 4)", ""),
    "C06-7": ("caught by C05 only (round 4)", "C06 refused-event-writes/ignored-proposal-not-queued (the IgnoredProposal answer is not reachable from the success edge of a state-advancing MLS call)"),
    "C07-7": ("missed (round 4)", "C07 redelivery-readonly (arms on terminal processed-message states reach no OpenMLS call taking the group mutably)"),
    "C08-7": ("caught by a brittle sub-rule only (round 4; `save_group writes 0 maps` would also have fired on the correct helper refactor)", "C08 routing-index rules see through same-crate helpers; C09 / C08 index-entry-leaves-with-record (the index entry keyed by the removed record's id, read no later than the removal)"),
    "C09-7": ("caught by an artefact only (round 4; alias stripping made the join ambiguous)", "sqlmod keeps qualifiers for join statements; C09 sql-scope/snapshot/<table>/copies-every-row (the copy is restricted by the group key only)"),
    "C10-7": ("missed (round 4)", "C10 refusal-leaves-state (memory backend: no error exit reachable after a mutation of the storage's maps)"),
    "C11-7": ("missed (round 4)", "C11 hydration-coverage/<fn>/hydrate-first (ensure_hydrated precedes the method's storage calls and queue accesses)"),
    "C12-7": ("caught (round 4)", ""),
    "C13-7": ("caught by a brittle sub-rule only (round 4; `existing-file errors no longer produced` looked at the function body, not its closures)", "C13 keyring/existing-file/keyring-before-header; error constructions looked up in the function's family"),
    "C14-7": ("caught (round 4)", ""),
    "C15-7": ("missed (round 4)", "C15 encoding/content-verbatim (no normaliser between the event content and the base64 / hex decoder, callers included)"),
    "C16-7": ("caught (round 4)", ""),
    "C17-7": ("missed (round 4)", "C17 aead-siblings/accepts-agree/filename-length (upload path and imeta parser refuse above the same constant; a bound reaching an API parameter is a mismatch)"),
    "C18-7": ("caught (round 4)", ""),
    "C02-8": ("caught by C09 only (round 4, wave 2)", "C02 stored-messages-survive-rollback (C09's frame / cascade obligations for the rollback statements, shared)"),
    "C05-8": ("caught (round 4, wave 2)", ""),
    "C12-8": ("caught by C01 / C07 only (round 4, wave 2)", "C12 shares C07's only-after-rollback (the bookkeeping of a rollback is success-dominated by the restore); that rule and C01's after-rollback must-pass now see through helpers (`eq-rollback-bookkeeping-helper`)"),
    "C14-8": ("missed (round 4, wave 2)", "C14: the OpenMLS extension containers (Extensions, Extension, UnknownExtension, GroupContextExtensionProposal) hold the raw group-data extension and are treated as carriers / leaky Debug types"),
    "C16-8": ("caught, with a second, spurious key (round 4, wave 2; the guard inside the new helper was not seen)", "C16 existing-group-untouched evaluates mdk-core helpers inline, so a guard that lives in the helper decides (`eq-welcome-guard-in-helper`)"),
    "C18-8": ("missed (round 4, wave 2)", "C09 sql-columns / C18 last-message-pointer `snapshot-restore/<table>/tuple-positions-agree` (per tuple position, the column the snapshot writer read = the column the restore binds)"),
    "C19-8": ("caught, with a third, spurious key (round 4, wave 2; a snapshot builder that is handed the locked state)", "C19 snapshot-one-instant: a builder taking `&MdkMemoryStorageInner` is judged at its callers (exactly one guard held across the call)"),
    "C20-8": ("missed (round 4, wave 2)", "C20 prune-after-push / C11 hydration-coverage `list-oldest-first` (SQLite ORDER BY created_at ASC, memory sort key = created_at)"),
    "C01-9": ("caught by C11 / C19 / C20 (round 5)", "C01 now shares `hydration-coverage/*/hydrate-first` with C11"),
    "C02-9": ("caught by C07 (round 5)", "C02 now shares `own-commit-shortcut/decision` with C07"),
    "C03-9": ("caught (round 5)", ""),
    "C04-9": ("missed (round 5)", "C04 author-bound `AuthorMismatch/decides-every-ok`: the guard function cannot return Ok without the comparison having come out equal"),
    "C05-9": ("caught (round 5)", ""),
    "C06-9": ("caught (round 5)", ""),
    "C07-9": ("missed (round 5)", "C07 `resave-evicts-nothing`: removals in memory save_message only on the id-absent side"),
    "C08-9": ("missed (round 5)", "C08 sync-field-wiring `relays/every-ok-path`: every Ok return of the sync replaced the relay set (or found it equal as a whole set)"),
    "C09-9": ("caught by C12 (round 5)", "C09 now shares the restore's `sql-bracket` obligations with C12"),
    "C10-9": ("caught by C09 / C12 (round 5)", ""),
    "C11-9": ("caught by C01 / C07 (round 5)", ""),
    "C12-9": ("caught (round 5)", ""),
    "C13-9": ("missed (round 5)", "C13 permissions `chmod-after-mkdir/<fn>`: whatever creates a directory restricts it before returning Ok"),
    "C14-9": ("caught (round 5)", ""),
    "C15-9": ("missed (round 5)", "C15 key-package-bound `strict-numerals/<fn>`: a tag value handed to a sign-tolerant std integer parser was checked to be digits only"),
    "C16-9": ("caught (round 5)", ""),
    "C17-9": ("caught (round 5)", ""),
    "C18-9": ("missed (round 5)", "C18 last-message-pointer `searches-every-page`: the page-length stop test comes after the search of that page"),
    "C19-9": ("caught (round 5)", ""),
    "C20-9": ("caught (round 5)", ""),
    "C01-10": ("missed (round 6; the iterator form of the window fell outside the arithmetic rule, which then passed vacuously)", "C02 lookback-window-arithmetic: offset-walk form `(a..b).map_while(|k| cur.checked_sub(k))`, constant bounds, and a floor outside the loop (an unrecognised construction no longer passes silently); C01 shares the clause"),
    "C02-10": ("caught by C04 / C05 (round 6)", ""),
    "C03-10": ("caught by C01 (round 6)", "C07 now shares the rollback-arm clause as well"),
    "C04-10": ("caught (round 6)", ""),
    "C05-10": ("caught (round 6)", ""),
    "C06-10": ("caught by C15 only (round 6)", "C06 no-panic: `copy_from_slice` / `clone_from_slice` need a dominating *equality* test of the length (an upper bound is not enough)"),
    "C07-10": ("caught by C01 (round 6)", "C07 shares C01's rollback-arm clause (target epoch = the epoch the message carries)"),
    "C08-10": ("caught by C09, after a crash of C13 on a call through a function pointer was repaired (round 6)", "nameless indirect calls no longer crash name-based predicates; the C09 key-representation report is imprecise for table-driven dispatch (all entries are reported)"),
    "C09-10": ("caught (round 6)", ""),
    "C10-10": ("caught (round 6)", ""),
    "C11-10": ("caught by C09 / C12 (round 6)", ""),
    "C12-10": ("caught (round 6)", ""),
    "C13-10": ("missed — two checks fired for a spurious reason: an error text starting with \"delete\" was taken for SQL (round 6)", "SQL statements are recognised by keyword *and* what SQL requires after it; C13 keyring `get_db_key/absent-only-on-NoEntry`"),
    "C14-10": ("missed — C06 / C08 fired for a spurious reason (`hex::decode_to_slice` unknown) (round 6)", "C14: the content of an event's `h` tag is an identifier source; C06 / C08 accept `decode_to_slice`"),
    "C15-10": ("caught (round 6)", ""),
    "C16-10": ("caught by C10 (round 6)", ""),
    "C17-10": ("caught (round 6)", ""),
    "C18-10": ("caught (round 6)", ""),
    "C19-10": ("caught (round 6)", ""),
    "C20-10": ("caught by C19 only, for a neighbouring reason (round 6)", "C20 rollback-discards-suffix `memory/rollback_group_to_snapshot/consumes-the-snapshot`"),
    "C03-11": ("caught (round 7)", ""),
    "C04-11": ("caught (round 7)", ""),
    "C06-11": ("caught (round 7)", ""),
    "C10-11": ("missed (round 7)", "C09 memory-scope `filter-by-group-only` / C10 `snapshot-filter-agreement`: every entry-selecting closure of the memory backend's snapshot / restore selects by the group id alone"),
    "C11-11": ("caught (round 7)", ""),
    "C15-11": ("caught, but by a brittle count of `try_into` calls that also fired on the correct refactor R2-6 (round 7)", "C15 extension-wiring `checked-conversions/<field>`: per optional field, an exact-length conversion and no prefix-taking call on its data path"),
    "C08-12": ("caught (round 8)", ""),
    "C12-12": ("caught (round 8)", ""),
    "C16-12": ("caught (round 8)", ""),
    "C17-12": ("caught (round 8)", ""),
    "C19-12": ("caught (round 8)", ""),
    "C20-12": ("caught (round 8)", ""),
    "C01-13": ("missed (round 9)", "C01 / C02 lookback-from-config `window-not-capped`: the configured max_past_epochs may be raised to a default, never capped by a constant (`min` / `clamp` with a constant operand on its data path)"),
    "C02-13": ("caught by C01 / C07 only (round 9)", "C02 now runs the rollback-arm clause it used to defer to C01 (invalidation threshold = rollback target epoch)"),
    "C05-13": ("caught (round 9)", ""),
    "C07-13": ("caught by C02 only (round 9)", "C07 now runs C02's own-echo transition table (only Created / Retryable take the confirming arm)"),
    "C09-13": ("caught (round 9)", ""),
    "C13-13": ("caught (round 9)", ""),
    "C14-13": ("caught (round 9)", ""),
    "C03-14": ("caught (round 10)", ""),
    "C04-14": ("caught (round 10)", ""),
    "C08-14": ("caught (round 10)", ""),
    "C11-14": ("missed (round 10)", "C11 hydration-coverage `<entry point>/hydrates` (every manager entry point touching the queue hydrates) and `ensure_hydrated/skip-decided-by-hydrated-set`"),
    "C12-14": ("caught (round 10)", ""),
    "C16-14": ("caught (round 10)", ""),
    "C17-14": ("missed (round 10)", "C17 group-image `v1-fallback-independent-of-hash`: the v1 attempt after a failed v2 attempt is not control-dependent on the published hash"),
    "C20-14": ("missed (round 10)", "C20 / C11 `list-oldest-first/sqlite/no-name-tiebreak`: created_at ties are not broken by snapshot_name (un-padded decimal epoch)"),
}
rows = ["| id | change (needs) | first | now caught by | strengthened |", "|----|----------------|-------|---------------|--------------|"]
sd = os.path.join(VERIF, "seeded")
for d in sorted(os.listdir(sd)) if os.path.isdir(sd) else []:
    mp = os.path.join(sd, d, "meta.json")
    if not os.path.exists(mp):
        continue
    m = json.load(open(mp))
    first, strong = HISTORY.get(d, ("", ""))
    title = (m.get("title") or "").replace("|", "/")
    needs = (m.get("needs_to_manifest") or "").replace("|", "/").replace("\n", " ")
    if len(needs) > 160:
        needs = needs[:157] + "..."
    rows.append("| %s | %s — *%s* | %s | %s | %s |" % (d, title, needs, first, ", ".join(m.get("caught_by") or []) or "—", strong))
p = os.path.join(VERIF, "DESIGN.md")
s = open(p).read()
s = re.sub(r"<!-- SEEDED-TABLE-BEGIN -->.*?<!-- SEEDED-TABLE-END -->", "<!-- SEEDED-TABLE-BEGIN -->\n" + "\n".join(rows) + "\n<!-- SEEDED-TABLE-END -->", s, flags=re.S)
open(p, "w").write(s)
print(len(rows) - 2, "seeded changes in the table")


# ---- rules per property, from the obligation lists written by the last run of every check ----
import collections
obd = os.path.join(VERIF, "evidence", "obligations")
lines = ["| id | rules (obligations on the unchanged tree) |", "|----|--------------------------------------------|"]
for fn in sorted(os.listdir(obd)) if os.path.isdir(obd) else []:
    obs = json.load(open(os.path.join(obd, fn)))
    c = collections.OrderedDict()
    for o in obs:
        c[o["rule"]] = c.get(o["rule"], 0) + 1
    lines.append("| %s | %s |" % (fn[:-5], ", ".join("%s (%d)" % kv for kv in c.items())))
s2 = open(p).read()
if "<!-- RULES-TABLE-BEGIN -->" in s2:
    s2 = re.sub(r"<!-- RULES-TABLE-BEGIN -->.*?<!-- RULES-TABLE-END -->", "<!-- RULES-TABLE-BEGIN -->\n" + "\n".join(lines) + "\n<!-- RULES-TABLE-END -->", s2, flags=re.S)
    open(p, "w").write(s2)
    print(len(lines) - 2, "properties in the rules table")
