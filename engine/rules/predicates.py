"""Selection predicates of the in-memory backend as (field, op, rhs) triples, extracted from MIR comparisons."""
from ir import last_seg


def chain_locals(g, l):
    seen = set()
    st = [l]
    places = []
    while st:
        x = st.pop()
        if x in seen:
            continue
        seen.add(x)
        for bb, kind, d in g.defs().get(x, []):
            if kind == "stmt" and d.get("k") in ("use", "ref", "cast") and len(d["d"]) == 1 and d["o"] and "p" in d["o"][0]:
                places.append(d["o"][0]["p"])
                st.append(d["o"][0]["p"][0])
            elif kind == "call" and d.name in ("clone", "deref", "as_ref", "borrow", "as_deref") and d.args and "p" in d.args[0]:
                places.append(d.args[0]["p"])
                st.append(d.args[0]["p"][0])
    return seen, places


def describe(g, o):
    if "c" in o:
        c = o["c"]
        if "promoted" in c and c["promoted"] < len(g.promoted):
            for it in g.promoted[c["promoted"]]:
                if "variant" in it:
                    return ("const", it["variant"])
        return ("lit", c.get("int", c.get("str")))
    locs, places = chain_locals(g, o["p"][0])
    places = [o["p"]] + places
    for x in locs:
        for bb, kind, d in g.defs().get(x, []):
            if kind == "stmt" and d.get("k") == "agg" and not d.get("o") and len(d["d"]) == 1:
                return ("const", d["variant"])
            if kind == "stmt" and d.get("k") == "use" and d["o"] and "c" in d["o"][0]:
                r = describe(g, d["o"][0])
                if r[0] == "const":
                    return r
    fields = []
    for pl in places:
        fields += [e[1:] for e in pl[1:] if isinstance(e, str) and e.startswith(".") and not e[1:].isdigit()]
    if fields:
        return ("field", fields[0])
    return ("param",)


def family(prog, f):
    return prog.family(f)


def preds(prog, f):
    out = []
    fam = family(prog, f)
    scope = set(g.path for g in fam)

    def desc(g, o):
        d = describe(g, o)
        if d == ("param",) and "p" in o and g.is_closure():
            # a closure parameter (`.is_some_and(|e| e > epoch)`, `.filter(|(_, m)| ..)`): what the adaptor feeds it — the record field
            # it was taken from, when that is a single named field
            import analysis as A
            og = A.origins(prog, g, o["p"][0], scope=scope, max_frames=3)
            flds = set(x for x in og.fields if not x.isdigit() and not x.endswith("_cache") and x not in ("inner",))
            if len(flds) == 1:
                return ("field", sorted(flds)[0])
        return d
    for g in fam:
        for bb, s in g.stmts():
            if s.get("k") == "binop" and s["op"] in ("Gt", "Lt", "Ge", "Le", "Eq", "Ne"):
                a, b = s["o"]
                out.append((desc(g, a), s["op"], desc(g, b)))
        for c in g.live_calls():
            if c.name in ("eq", "ne") and last_seg(c.trait) == "PartialEq" and not c.expn:
                out.append((desc(g, c.args[0]), c.name, desc(g, c.args[1])))
            if c.name in ("is_none", "is_some") and last_seg(c.self_adt) == "Option":
                out.append((desc(g, c.args[0]), c.name, None))
    return out


OPMAP = {"Gt": ">", "Lt": "<", "Ge": ">=", "Le": "<=", "Eq": "=", "Ne": "!=", "eq": "=", "ne": "!="}


def normalise(trip, as_str):
    """memory triple -> SQL-style (col, op, rhs) or None if not a field predicate"""
    a, op, b = trip
    if op in ("is_none", "is_some"):
        if a[0] == "field":
            return (a[1], "IS" if op == "is_none" else "IS NOT", "NULL")
        return None
    if a[0] != "field" and b and b[0] == "field":
        a, b = b, a
        op = {"Gt": "Lt", "Lt": "Gt", "Ge": "Le", "Le": "Ge"}.get(op, op)
    if a[0] != "field":
        return None
    if b[0] == "const":
        return (a[1], OPMAP[op], "'%s'" % as_str.get(b[1], "?" + b[1]))
    if b[0] == "param" or b[0] == "field":
        return (a[1], OPMAP[op], "?")
    if b[0] == "lit":
        return (a[1], OPMAP[op], str(b[1]))
    return None


def state_writes(prog, f):
    """enum constants assigned to a `.state` field in f's family"""
    out = set()
    for g in family(prog, f):
        for bb, s in g.stmts():
            flds = [e for e in s["d"][1:] if isinstance(e, str) and e == ".state"]
            if not flds:
                continue
            if s.get("k") == "agg" and not s.get("o"):
                out.add(s["variant"])
            elif s.get("k") == "use" and s["o"]:
                r = describe(g, s["o"][0])
                if r[0] == "const":
                    out.add(r[1])
    return out


def field_const_writes(prog, f, field):
    """{(adt_last, variant)} of enum constants assigned to `.field` places in f's family"""
    out = set()
    for g in family(prog, f):
        for bb, s in g.stmts():
            if ("." + field) not in [e for e in s["d"][1:] if isinstance(e, str)]:
                continue
            if s.get("k") == "agg":
                out.add((last_seg(s["adt"]), s["variant"]))
            elif s.get("k") == "use" and s["o"] and "p" in s["o"][0]:
                locs, _ = chain_locals(g, s["o"][0]["p"][0])
                for x in locs:
                    for bb2, kind, d in g.defs().get(x, []):
                        if kind == "stmt" and d.get("k") == "agg" and len(d["d"]) == 1:
                            out.add((last_seg(d["adt"]), d["variant"]))
    return out
