"""E-C witnesses: tiny programs compiled against the real crates of the current tree (cargo +nightly check, no linking,
no execution).  cf_*.rs must fail with the error code on the marked line; ok_*.rs (its twin) must compile.  The lib
target holds positive-control functions and is compiled by the mdkfacts driver, so rules can be shown to fire."""
import fcntl
import glob
import json
import os
import re
import shutil
import subprocess
import sys

import extract

SRC = os.path.join(extract.VERIF, "engine", "witness")


def _workspace(repo):
    h = extract.tree_hash(repo)
    sh = extract.hashlib.sha256()
    for p in sorted(glob.glob(os.path.join(SRC, "src", "*.rs")) + glob.glob(os.path.join(SRC, "examples", "*.rs"))):
        sh.update(open(p, "rb").read())
    sh.update(extract.driver_hash().encode())
    return os.path.join(extract.CACHE, "witness", h + "-" + sh.hexdigest()[:8])


def build(repo=None):
    """returns dict: {"examples": {name: {"ok": bool, "codes": [...], "lines": [...]}}, "facts": path or None}"""
    repo = repo or extract.REPO
    ws = _workspace(repo)
    res_path = os.path.join(ws, "result.json")
    os.makedirs(extract.CACHE, exist_ok=True)
    lock = open(os.path.join(extract.CACHE, "extract.lock"), "w")
    fcntl.flock(lock, fcntl.LOCK_EX)
    try:
        if os.path.exists(res_path):
            return json.load(open(res_path))
        extract.ensure_driver()
        shutil.rmtree(ws, ignore_errors=True)
        os.makedirs(os.path.join(ws, "facts"))
        shutil.copytree(os.path.join(SRC, "src"), os.path.join(ws, "src"))
        shutil.copytree(os.path.join(SRC, "examples"), os.path.join(ws, "examples"))
        cr = os.path.join(repo, "crates")
        with open(os.path.join(ws, "Cargo.toml"), "w") as fh:
            fh.write("""[package]
name = "mdk_verif_witness"
version = "0.0.0"
edition = "2024"
publish = false

[dependencies]
mdk-core = { path = "%s/mdk-core", features = ["mip04"] }
mdk-storage-traits = { path = "%s/mdk-storage-traits" }
mdk-memory-storage = { path = "%s/mdk-memory-storage" }
mdk-sqlite-storage = { path = "%s/mdk-sqlite-storage" }
tracing = { version = "0.1", default-features = false }
hex = { version = "0.4", default-features = false, features = ["std"] }
serde = { version = "1.0", default-features = false }

[workspace]
""" % (cr, cr, cr, cr))
        shutil.copy(os.path.join(repo, "Cargo.lock"), os.path.join(ws, "Cargo.lock"))
        env = dict(os.environ)
        env.update({
            "LD_LIBRARY_PATH": extract.sysroot_lib() + ":" + env.get("LD_LIBRARY_PATH", ""),
            "CARGO_NET_OFFLINE": "true",
            "RUSTFLAGS": "-Zmir-opt-level=0 -Awarnings",
            "RUSTC_WORKSPACE_WRAPPER": extract.DRIVER,
            "CARGO_TARGET_DIR": os.path.join(extract.CACHE, "target-witness"),
            "MDKFACTS_OUT": os.path.join(ws, "facts"),
            "MDKFACTS_CRATES": "mdk_verif_witness",
        })
        env.pop("RUSTC_WRAPPER", None)
        # every scratch copy of the repository is a new set of path dependencies: keep the shared target directory from growing without bound
        try:
            du = subprocess.run(["du", "-sm", env["CARGO_TARGET_DIR"]], capture_output=True, text=True)
            if du.returncode == 0 and int(du.stdout.split()[0]) > 6000:
                shutil.rmtree(env["CARGO_TARGET_DIR"], ignore_errors=True)
        except (ValueError, IndexError, OSError):
            pass
        for fp in glob.glob(os.path.join(env["CARGO_TARGET_DIR"], "debug", ".fingerprint", "mdk_verif_witness-*")):
            shutil.rmtree(fp, ignore_errors=True)
        cmd = ["cargo", "+nightly", "check", "--offline", "--lib", "--examples", "--keep-going", "--message-format=json"]
        r = subprocess.run(cmd, cwd=ws, env=env, capture_output=True, text=True)
        examples = {}
        for p in glob.glob(os.path.join(ws, "examples", "*.rs")):
            examples[os.path.basename(p)[:-3]] = {"ok": None, "codes": [], "lines": [], "expect_line": None, "expect_code": None}
            for i, line in enumerate(open(p), 1):
                m = re.search(r"//~\s*(E\d{4})", line)
                if m:
                    examples[os.path.basename(p)[:-3]]["expect_line"] = i
                    examples[os.path.basename(p)[:-3]]["expect_code"] = m.group(1)
        lib_ok = None
        dep_failed = False
        for line in r.stdout.splitlines():
            try:
                m = json.loads(line)
            except ValueError:
                continue
            tgt = m.get("target", {})
            name = tgt.get("name")
            kinds = tgt.get("kind", [])
            if m.get("reason") == "compiler-message":
                msg = m["message"]
                if msg.get("level") == "error":
                    if "example" in kinds and name in examples:
                        code = (msg.get("code") or {}).get("code")
                        examples[name]["codes"].append(code)
                        for sp in msg.get("spans", []):
                            if sp.get("is_primary"):
                                examples[name]["lines"].append(sp.get("line_start"))
                        examples[name]["ok"] = False
                    elif "lib" in kinds and name == "mdk_verif_witness":
                        lib_ok = False
                    elif name and name.startswith("mdk"):
                        dep_failed = True
            elif m.get("reason") == "compiler-artifact":
                if "example" in kinds and name in examples and examples[name]["ok"] is None:
                    examples[name]["ok"] = True
                if "lib" in kinds and name == "mdk_verif_witness" and lib_ok is None:
                    lib_ok = True
        facts = None
        cands = glob.glob(os.path.join(ws, "facts", "mdk_verif_witness.*.json"))
        if cands:
            best = max(cands, key=os.path.getsize)
            facts = os.path.join(ws, "facts", "mdk_verif_witness.json")
            os.rename(best, facts)
        out = {"examples": examples, "facts": facts, "lib_ok": lib_ok, "dep_failed": dep_failed,
               "stderr_tail": r.stderr[-1500:] if (lib_ok is not True or dep_failed) else ""}
        if dep_failed or lib_ok is None:
            # the tree itself does not build: no verdict
            raise extract.BuildFailed("witness build: the mdk crates do not compile\n" + r.stderr[-2000:])
        with open(res_path, "w") as fh:
            json.dump(out, fh, indent=1)
        roots = sorted(glob.glob(os.path.join(extract.CACHE, "witness", "*")), key=os.path.getmtime)
        for old in roots[:-8]:
            shutil.rmtree(old, ignore_errors=True)
        return out
    finally:
        fcntl.flock(lock, fcntl.LOCK_UN)
        lock.close()


def check_examples(rep, res, names, rule="witness"):
    """record the verdict of the named compile-fail / compile-pass witnesses"""
    ex = res["examples"]
    for n in names:
        e = ex.get(n)
        if e is None:
            rep.violation(rule, n, "witness program %s is missing" % n)
            continue
        if n.startswith("ok_"):
            rep.check(e["ok"] is True, rule, n, "compiles against the current tree",
                      "compile-pass witness fails to compile: %s" % e["codes"])
        else:
            good = e["ok"] is False and e["expect_code"] in e["codes"] and e["expect_line"] in e["lines"]
            rep.check(good, rule, n, "fails to compile with %s at the marked line" % e["expect_code"],
                      ("compile-fail witness COMPILES: the type-level barrier it documents is gone" if e["ok"] else
                       "compile-fail witness fails for another reason (codes %s at lines %s, expected %s at line %s)" % (e["codes"], e["lines"], e["expect_code"], e["expect_line"])))


def load_facts(res):
    if not res.get("facts") or not os.path.exists(res["facts"]):
        return None
    with open(res["facts"]) as fh:
        return json.load(fh)


if __name__ == "__main__":
    r = build()
    for n, e in sorted(r["examples"].items()):
        print(n, e)
    print("lib_ok", r["lib_ok"], "facts", r["facts"])
