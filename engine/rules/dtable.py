"""DecisionTable: abstract evaluation of a comparison-only function over a finite set of orderings.
No solver, nothing executed: the MIR CFG is walked with symbolic atoms; every branch must be decided by
the scenario's ordering of atom classes (or by the caller's policy for opaque Options)."""
from ir import last_seg


class Undecided(Exception):
    pass


CMP_BINOPS = {"Lt", "Gt", "Le", "Ge", "Eq", "Ne"}
CMP_CALLS = {"lt": "Lt", "gt": "Gt", "le": "Le", "ge": "Ge", "eq": "Eq", "ne": "Ne"}
TRANSPARENT = {"to_hex", "clone", "deref", "as_ref", "borrow", "as_str", "as_bytes", "as_slice", "to_bytes", "to_string",
               "as_u64", "as_secs", "into", "from", "to_owned", "to_vec"}


def _cmp(op, rel):
    # rel in {-1,0,1}: ordering of a relative to b
    return {"Lt": rel < 0, "Gt": rel > 0, "Le": rel <= 0, "Ge": rel >= 0, "Eq": rel == 0, "Ne": rel != 0}[op]


class Evaluator:
    def __init__(self, f, classify, relation, opaque_switch, max_steps=2000):
        """classify(value) -> class name or None; relation(class_a, class_b) -> -1/0/1 or None;
        opaque_switch(bb, value, targets) -> successor block or None"""
        self.f = f
        self.classify = classify
        self.relation = relation
        self.opaque_switch = opaque_switch
        self.max_steps = max_steps
        self.trace = []

    def place_value(self, env, pl):
        v = env.get(pl[0], ("opaque", "local%d" % pl[0]))
        for e in pl[1:]:
            if e == "*":
                continue
            v = ("proj", v, e)
        return v

    def operand(self, env, o):
        if "p" in o:
            return self.place_value(env, o["p"])
        c = o["c"]
        if "int" in c:
            return ("int", c["int"])
        if "str" in c:
            return ("str", c["str"])
        return ("opaque", "const:" + str(c.get("ty")))

    def compare(self, op, a, b):
        if a[0] == "int" and b[0] == "int":
            rel = (a[1] > b[1]) - (a[1] < b[1])
            return ("int", int(_cmp(op, rel)))
        ca = self.classify(a) if a[0] != "int" else ("#%d" % a[1])
        cb = self.classify(b) if b[0] != "int" else ("#%d" % b[1])
        if ca is None or cb is None:
            raise Undecided("comparison of unclassified values %r %s %r" % (a, op, b))
        rel = self.relation(ca, cb)
        if rel is None:
            raise Undecided("no ordering given for (%s, %s)" % (ca, cb))
        self.trace.append("%s %s %s" % (ca, op, cb))
        return ("int", int(_cmp(op, rel)))

    def run(self, env):
        f = self.f
        bb = 0
        steps = 0
        while True:
            steps += 1
            if steps > self.max_steps:
                raise Undecided("step limit (loop?)")
            blk = f.blocks[bb]
            for s in blk["s"]:
                d = s["d"]
                k = s.get("k")
                if len(d) != 1:
                    continue
                if k in ("use", "ref"):
                    env[d[0]] = self.operand(env, s["o"][0])
                elif k == "cast":
                    env[d[0]] = self.operand(env, s["o"][0])
                elif k == "binop" and s["op"] in CMP_BINOPS:
                    env[d[0]] = self.compare(s["op"], self.operand(env, s["o"][0]), self.operand(env, s["o"][1]))
                elif k == "binop" and s["op"] in ("BitAnd", "BitOr", "BitXor"):
                    a, b = self.operand(env, s["o"][0]), self.operand(env, s["o"][1])
                    if a[0] == "int" and b[0] == "int":
                        env[d[0]] = ("int", {"BitAnd": a[1] & b[1], "BitOr": a[1] | b[1], "BitXor": a[1] ^ b[1]}[s["op"]])
                    else:
                        env[d[0]] = ("opaque", "bitop")
                elif k == "unop" and s.get("op") == "Not":
                    a = self.operand(env, s["o"][0])
                    env[d[0]] = ("int", 1 - a[1]) if a[0] == "int" and a[1] in (0, 1) else ("opaque", "not")
                elif k == "discr":
                    v = self.operand(env, s["o"][0])
                    if v[0] == "ordering":
                        env[d[0]] = ("int", {-1: 255, 0: 0, 1: 1}[v[1]])
                    else:
                        env[d[0]] = ("discr", v)
                elif k == "agg" and not s.get("o"):
                    env[d[0]] = ("variant", last_seg(s.get("adt")), s.get("variant"))
                else:
                    env[d[0]] = ("opaque", "stmt:%s" % k)
            t = blk["t"]
            k = t["k"]
            if k == "return":
                return env.get(0)
            if k in ("goto", "drop"):
                bb = t["to"]
            elif k == "assert":
                bb = t["to"]
            elif k == "switch":
                v = self.operand(env, t["discr"])
                if v[0] == "int":
                    nxt = None
                    for val, tb in t["targets"]:
                        if val == v[1]:
                            nxt = tb
                    bb = nxt if nxt is not None else t["otherwise"]
                else:
                    nxt = self.opaque_switch(bb, v, t)
                    if nxt is None:
                        raise Undecided("branch on opaque value %r at bb%d" % (v, bb))
                    bb = nxt
            elif k == "call":
                cal = t["callee"]
                name = cal.get("name")
                args = [self.operand(env, a) for a in t["args"]]
                dst = t["dst"]
                res = ("opaque", "call:%s" % name, tuple(args[:1]))
                if name in CMP_CALLS and len(args) == 2 and last_seg(cal.get("trait")) in ("PartialOrd", "PartialEq"):
                    res = self.compare(CMP_CALLS[name], args[0], args[1])
                elif name == "cmp" and len(args) == 2 and last_seg(cal.get("trait")) == "Ord":
                    ca, cb = self.classify(args[0]), self.classify(args[1])
                    if ca is None or cb is None:
                        raise Undecided("cmp of unclassified values")
                    rel = self.relation(ca, cb)
                    if rel is None:
                        raise Undecided("no ordering for (%s,%s)" % (ca, cb))
                    self.trace.append("%s cmp %s" % (ca, cb))
                    res = ("ordering", rel)
                elif name in TRANSPARENT and args:
                    res = args[0]
                if len(dst) == 1:
                    env[dst[0]] = res
                if "to" not in t:
                    raise Undecided("diverging call %s" % name)
                bb = t["to"]
            else:
                raise Undecided("terminator %s" % k)
