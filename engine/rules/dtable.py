"""DecisionTable: abstract evaluation of a comparison-only function over a finite set of orderings.
No solver, nothing executed: the MIR CFG is walked with symbolic atoms; every branch must be decided by
the scenario's ordering of atom classes (or by the caller's policy for opaque Options)."""
from ir import last_seg


class Undecided(Exception):
    pass


_FORKED = object()


CMP_BINOPS = {"Lt", "Gt", "Le", "Ge", "Eq", "Ne"}
CMP_CALLS = {"lt": "Lt", "gt": "Gt", "le": "Le", "ge": "Ge", "eq": "Eq", "ne": "Ne"}
TRANSPARENT = {"to_hex", "clone", "deref", "as_ref", "borrow", "as_str", "as_bytes", "as_slice", "to_bytes", "to_string",
               "as_u64", "as_secs", "into", "from", "to_owned", "to_vec"}


def _cmp(op, rel):
    # rel in {-1,0,1}: ordering of a relative to b
    return {"Lt": rel < 0, "Gt": rel > 0, "Le": rel <= 0, "Ge": rel >= 0, "Eq": rel == 0, "Ne": rel != 0}[op]


class Evaluator:
    def __init__(self, f, classify, relation, opaque_switch, max_steps=2000, call_hook=None, prog=None, inline=None, depth=0):
        """classify(value) -> class name or None; relation(class_a, class_b) -> -1/0/1 or None;
        opaque_switch(bb, value, targets) -> successor block or None"""
        self.f = f
        self.classify = classify
        self.relation = relation
        self.opaque_switch = opaque_switch
        self.max_steps = max_steps
        self.call_hook = call_hook
        self.prog = prog
        self.stop_hook = None     # stop_hook(callee dict, args) -> label: the path ends there with result ("stopped", label)
        self.log_pred = None      # log_pred(callee dict) -> name to record on the path's call log
        self.path_logs = []       # (result, tuple of logged names) per finished path (run_all)
        self.inline = inline      # predicate on target Fn: inline it?
        self.depth = depth
        self.trace = []
        self.proj_hook = None     # proj_hook(value, ".field") -> value or None: named-field projection of a symbolic struct

    def place_value(self, env, pl):
        v = env.get(pl[0], ("opaque", "local%d" % pl[0]))
        for e in pl[1:]:
            if e == "*":
                continue
            if e.startswith("as ") and v[0] == "variant":
                continue
            if e.startswith(".") and e[1:].isdigit() and v[0] in ("variant", "tuple"):
                items = v[3] if v[0] == "variant" else v[1]
                i = int(e[1:])
                if i < len(items):
                    v = items[i]
                    continue
            if self.proj_hook is not None:
                r = self.proj_hook(v, e)
                if r is not None:
                    v = r
                    continue
            v = ("proj", v, e)
        return v

    def operand(self, env, o):
        if "p" in o:
            return self.place_value(env, o["p"])
        c = o["c"]
        if "int" in c:
            return ("int", c["int"])
        if "str" in c:
            return ("str", c["str"])
        if "promoted" in c and c["promoted"] < len(self.f.promoted):
            items = self.f.promoted[c["promoted"]]
            vs = [it for it in items if "variant" in it]
            if len(vs) >= 2 and len(vs) == len(items):
                # a nested constant such as `&Some(GroupState::Active)`: the promoted body builds the payload first, the wrapper last
                v = ("variant", last_seg(vs[0]["agg"]), vs[0]["variant"], ())
                for it in vs[1:]:
                    v = ("variant", last_seg(it["agg"]), it["variant"], (v,))
                return v
            for it in items:
                if "variant" in it:
                    return ("variant", last_seg(it["agg"]), it["variant"], ())
                if "int" in it:
                    return ("int", it["int"])
                if "str" in it:
                    return ("str", it["str"])
        return ("opaque", "const:" + str(c.get("ty")))

    def compare(self, op, a, b):
        if a[0] == "str" and b[0] == "str" and op in ("Eq", "Ne"):
            return ("int", int((a[1] == b[1]) == (op == "Eq")))
        if a[0] == "int" and b[0] == "int":
            rel = (a[1] > b[1]) - (a[1] < b[1])
            return ("int", int(_cmp(op, rel)))
        ca = self.classify(a) if a[0] != "int" else ("#%d" % a[1])
        cb = self.classify(b) if b[0] != "int" else ("#%d" % b[1])
        if ca is None or cb is None:
            return ("opaque", "cmp-unclassified")
        rel = self.relation(ca, cb)
        if rel is None:
            return ("opaque", "cmp-unordered:%s,%s" % (ca, cb))
        self.trace.append("%s %s %s" % (ca, op, cb))
        return ("int", int(_cmp(op, rel)))

    def _variant_discr(self, v):
        """discriminant of a known fieldless-or-not enum variant of a workspace ADT"""
        if self.prog is None:
            return None
        c = [a for p, a in self.prog.adts.items() if last_seg(p) == v[1] and a.get("kind") == "enum"]
        if len(c) != 1:
            return None
        for vr in c[0]["variants"]:
            if vr["name"] == v[2]:
                return vr.get("discr")
        return None

    def _inline_target(self, cal, args=None):
        if self.prog is None:
            return None
        if "indirect" in cal and getattr(self, "indirect_target", None) is not None:
            # a call through a function pointer whose value the caller of the evaluation has resolved (`order_cmp(b, a)`)
            return self.prog.fns.get(self.indirect_target)
        if self.inline is None:
            return None
        t = self.prog.fns.get(cal.get("resolved") or cal.get("path"))
        if t is None:
            return None
        try:
            ok = self.inline(t, args)
        except TypeError:
            ok = self.inline(t)
        return t if ok else None

    def _call_closure(self, clos, args):
        if clos[0] != "closure" or self.prog is None or clos[1] not in self.prog.fns:
            raise Undecided("cannot evaluate closure %r" % (clos,))
        cl = self.prog.fns[clos[1]]
        sub = Evaluator(cl, self.classify, self.relation, self.opaque_switch, self.max_steps, self.call_hook, self.prog, self.inline, self.depth + 1)
        sub.trace = self.trace
        sub.proj_hook = self.proj_hook
        env = {1: ("tuple", clos[2])}
        for i, a in enumerate(args):
            env[2 + i] = a
        return sub.run(env)

    def run(self, env):
        """deterministic evaluation: every branch must be decided"""
        res = self.run_all(env, fork=False)
        return res[0] if res else None

    def run_all(self, env, fork=True, max_paths=256):
        """explore all paths; an undecidable switch forks over its successors when fork=True"""
        results = []
        work = [(0, dict(env), 0)]
        paths = 0
        while work:
            bb, env, steps = work.pop()
            paths += 1
            if paths > max_paths:
                raise Undecided("too many paths")
            out = self._run_from(bb, env, steps, fork, work)
            if out is not _FORKED:
                results.append(out)
        return results

    def _run_from(self, bb, env, steps, fork, work):
        f = self.f
        if bb == -1:     # a path that ended inside an inlined callee (stop hook)
            self.path_logs.append((env["__ret"], env["__log"]))
            return env["__ret"]
        while True:
            steps += 1
            if steps > self.max_steps:
                raise Undecided("step limit (loop?)")
            blk = f.blocks[bb]
            for s in blk["s"]:
                d = s["d"]
                k = s.get("k")
                if len(d) != 1:
                    continue
                if k in ("use", "ref"):
                    env[d[0]] = self.operand(env, s["o"][0])
                elif k == "cast":
                    env[d[0]] = self.operand(env, s["o"][0])
                elif k == "binop" and s["op"] in CMP_BINOPS:
                    env[d[0]] = self.compare(s["op"], self.operand(env, s["o"][0]), self.operand(env, s["o"][1]))
                elif k == "binop" and s["op"] in ("BitAnd", "BitOr", "BitXor"):
                    a, b = self.operand(env, s["o"][0]), self.operand(env, s["o"][1])
                    if a[0] == "int" and b[0] == "int":
                        env[d[0]] = ("int", {"BitAnd": a[1] & b[1], "BitOr": a[1] | b[1], "BitXor": a[1] ^ b[1]}[s["op"]])
                    else:
                        env[d[0]] = ("opaque", "bitop")
                elif k == "unop" and s.get("op") == "Not":
                    a = self.operand(env, s["o"][0])
                    env[d[0]] = ("int", 1 - a[1]) if a[0] == "int" and a[1] in (0, 1) else ("opaque", "not")
                elif k == "discr":
                    v = self.operand(env, s["o"][0])
                    if v[0] == "ordering":
                        env[d[0]] = ("int", {-1: 255, 0: 0, 1: 1}[v[1]])
                    elif v[0] == "variant" and v[1] in ("Result", "Option", "ControlFlow"):
                        env[d[0]] = ("int", {"Ok": 0, "Err": 1, "None": 0, "Some": 1, "Continue": 0, "Break": 1}[v[2]])
                    elif v[0] == "variant" and self._variant_discr(v) is not None:
                        env[d[0]] = ("int", self._variant_discr(v))
                    else:
                        env[d[0]] = ("discr", v)
                elif k == "agg":
                    env[d[0]] = ("variant", last_seg(s.get("adt")), s.get("variant"), tuple(self.operand(env, o) for o in s.get("o", [])))
                elif k == "tuple":
                    env[d[0]] = ("tuple", tuple(self.operand(env, o) for o in s.get("o", [])))
                elif k == "closure":
                    env[d[0]] = ("closure", s.get("closure"), tuple(self.operand(env, o) for o in s.get("o", [])))
                else:
                    env[d[0]] = ("opaque", "stmt:%s" % k)
            t = blk["t"]
            k = t["k"]
            if k == "return":
                self.path_logs.append((env.get(0), env.get("__log", ())))
                return env.get(0)
            if k in ("goto", "drop"):
                bb = t["to"]
            elif k == "assert":
                bb = t["to"]
            elif k == "switch":
                v = self.operand(env, t["discr"])
                if v[0] == "int":
                    nxt = None
                    for val, tb in t["targets"]:
                        if val == v[1]:
                            nxt = tb
                    bb = nxt if nxt is not None else t["otherwise"]
                else:
                    nxt = self.opaque_switch(bb, v, t)
                    if nxt is None:
                        if not fork:
                            raise Undecided("branch on opaque value %r at bb%d" % (v, bb))
                        succs = []
                        for val, tb in t["targets"]:
                            if tb not in succs:
                                succs.append(tb)
                        if t["otherwise"] not in succs:
                            succs.append(t["otherwise"])
                        for sb in succs:
                            if f.blocks[sb]["t"]["k"] == "unreachable" and not f.blocks[sb]["s"]:
                                continue
                            work.append((sb, dict(env), steps))
                        return _FORKED
                    bb = nxt
            elif k == "call":
                cal = t["callee"]
                name = cal.get("name")
                args = [self.operand(env, a) for a in t["args"]]
                dst = t["dst"]
                res = ("opaque", "call:%s" % name, tuple(args[:1]))
                if self.log_pred is not None:
                    tag = self.log_pred(cal)
                    if tag:
                        env["__log"] = env.get("__log", ()) + (tag,)
                if self.stop_hook is not None:
                    lab = self.stop_hook(cal, args)
                    if lab:
                        self.path_logs.append((("stopped", lab), env.get("__log", ())))
                        return ("stopped", lab)
                hooked = self.call_hook(cal, args) if self.call_hook else None
                if hooked is not None:
                    res = hooked
                elif name in CMP_CALLS and len(args) == 2 and last_seg(cal.get("trait")) in ("PartialOrd", "PartialEq"):
                    res = self.compare(CMP_CALLS[name], args[0], args[1])
                elif name == "cmp" and len(args) == 2 and last_seg(cal.get("trait")) == "Ord" and args[0][0] == "tuple" and args[1][0] == "tuple" \
                        and len(args[0][1]) == len(args[1][1]):
                    # tuples order lexicographically: the first component that differs decides
                    rel = 0
                    for xa, xb in zip(args[0][1], args[1][1]):
                        ca, cb = self.classify(xa), self.classify(xb)
                        if ca is None or cb is None:
                            raise Undecided("cmp of unclassified tuple components")
                        r = self.relation(ca, cb)
                        if r is None:
                            raise Undecided("cmp of unordered tuple components")
                        if r != 0:
                            rel = r
                            break
                    res = ("ordering", rel)
                elif name == "cmp" and len(args) == 2 and last_seg(cal.get("trait")) == "Ord":
                    ca, cb = self.classify(args[0]), self.classify(args[1])
                    if ca is None or cb is None:
                        raise Undecided("cmp of unclassified values")
                    rel = self.relation(ca, cb)
                    if rel is None:
                        raise Undecided("no ordering for (%s,%s)" % (ca, cb))
                    self.trace.append("%s cmp %s" % (ca, cb))
                    res = ("ordering", rel)
                elif name == "branch" and last_seg(cal.get("trait")) == "Try" and args and args[0][0] == "variant" and args[0][1] in ("Result", "Option"):
                    okv = args[0][2] in ("Ok", "Some")
                    res = ("variant", "ControlFlow", "Continue" if okv else "Break", args[0][3] if len(args[0]) > 3 else ())
                elif name == "then_some" and len(args) == 2 and args[0][0] == "int" and cal.get("self_ty") == "bool":
                    # bool::then_some: Some(value) on true, None on false
                    res = ("variant", "Option", "Some", (args[1],)) if args[0][1] else ("variant", "Option", "None", ())
                elif name in ("ok_or", "ok_or_else") and len(args) == 2 and args[0][0] == "variant" and args[0][1] == "Option":
                    if args[0][2] == "Some":
                        res = ("variant", "Result", "Ok", args[0][3] if len(args[0]) > 3 else ())
                    else:
                        res = ("variant", "Result", "Err", (args[1],) if name == "ok_or" else (("opaque", "call:%s" % name),))
                elif name == "then_with" and len(args) == 2 and args[0][0] == "ordering":
                    res = args[0] if args[0][1] != 0 else self._call_closure(args[1], [])
                elif name == "then" and len(args) == 2 and args[0][0] == "ordering" and args[1][0] == "ordering":
                    res = args[0] if args[0][1] != 0 else args[1]
                elif name == "reverse" and args and args[0][0] == "ordering":
                    res = ("ordering", -args[0][1])
                elif name in ("is_gt", "is_lt", "is_eq", "is_ne", "is_ge", "is_le") and args and args[0][0] == "ordering":
                    r = args[0][1]
                    res = ("int", int({"is_gt": r > 0, "is_lt": r < 0, "is_eq": r == 0, "is_ne": r != 0, "is_ge": r >= 0, "is_le": r <= 0}[name]))
                elif self._inline_target(cal, args) is not None and self.depth < 6:
                    tgt = self._inline_target(cal, args)
                    sub = Evaluator(tgt, self.classify, self.relation, self.opaque_switch, self.max_steps, self.call_hook, self.prog, self.inline, self.depth + 1)
                    sub.trace = self.trace
                    sub.proj_hook = self.proj_hook
                    sub.indirect_target = getattr(self, "indirect_target", None)
                    subenv = {i + 1: a for i, a in enumerate(args)}
                    if fork:
                        # the callee may branch on values this evaluation cannot decide: explore its paths, continue once per distinct outcome
                        sub.log_pred = self.log_pred
                        sub.stop_hook = self.stop_hook
                        sub.run_all(subenv, fork=True, max_paths=256)
                        outs = {}
                        for r, lg in sub.path_logs:
                            outs.setdefault((repr(r), lg), (r, lg))
                        if not outs:
                            raise Undecided("inlined callee %s has no finished path" % name)
                        base = env.get("__log", ())
                        if len(outs) == 1 and not (list(outs.values())[0][0] or ("",))[0] == "stopped":
                            res, lg = list(outs.values())[0]
                            env["__log"] = base + lg
                            if res is None:
                                res = ("opaque", "call:%s" % name)
                        else:
                            for r, lg in outs.values():
                                if r and r[0] == "stopped":
                                    work.append((-1, {"__ret": r, "__log": base + lg}, steps))
                                    continue
                                env2 = dict(env)
                                env2["__log"] = base + lg
                                if len(dst) == 1:
                                    env2[dst[0]] = r if r is not None else ("opaque", "call:%s" % name)
                                if "to" in t:
                                    work.append((t["to"], env2, steps))
                            return _FORKED
                    else:
                        res = sub.run(subenv)
                        if res is None:
                            res = ("opaque", "call:%s" % name)
                elif name in TRANSPARENT and args:
                    res = args[0]
                if len(dst) == 1:
                    env[dst[0]] = res
                if "to" not in t:
                    raise Undecided("diverging call %s" % name)
                bb = t["to"]
            elif k == "unreachable" and fork:
                return _FORKED   # infeasible branch chosen by a fork: drop the path
            else:
                raise Undecided("terminator %s" % k)
