"""Path rules over the IR: success-dominance, Ok-spine post-dominance, guard sets, interprocedural
guardedness.  Everything is structural (CFG + value flow); nothing is executed."""
import collections
from ir import last_seg, Fn

RESULT_ADAPTORS = {"map_err", "as_ref", "as_mut", "map", "inspect_err", "inspect", "as_deref", "copied", "cloned"}


def _opl(o):
    p = o.get("p") if isinstance(o, dict) else None
    return p[0] if p is not None else None


def result_tests(f, seeds):
    """Given locals holding a Result/Option-like *guard result*, find switch blocks testing its success.
    Returns {switch_bb: set(success successor blocks)} for the recognised idioms:
      `?` (Try::branch -> discr -> switch 0=Continue), match/if-let on the Result (discr 0=Ok),
      .is_ok() / .is_err() / .is_some() / .is_none() booleans (and their negation)."""
    R = set(seeds)          # same-polarity carriers of the result (moves, refs, adaptors)
    CF = set()              # ControlFlow values from Try::branch(R)
    DS = {}                 # discr local -> success value(s) {0}
    BO = {}                 # bool local -> value meaning success (1 or 0)
    changed = True
    calls = f.calls()
    while changed:
        changed = False
        for bb, s in f.stmts():
            dl = s["d"]
            k = s.get("k")
            if k in ("use", "ref") and len(dl) == 1:
                src = s["o"][0].get("p") if s["o"] else None
                if src is not None and src[0] in R and all(e == "*" for e in src[1:]) and dl[0] not in R:
                    R.add(dl[0]); changed = True
                if src is not None and src[0] in CF and all(e == "*" for e in src[1:]) and dl[0] not in CF:
                    CF.add(dl[0]); changed = True
                if src is not None and len(src) == 1 and src[0] in BO and dl[0] not in BO and k == "use":
                    BO[dl[0]] = BO[src[0]]; changed = True
            elif k == "discr" and len(dl) == 1:
                src = s["o"][0]["p"]
                if src[0] in R | CF and all(e == "*" for e in src[1:]) and dl[0] not in DS:
                    DS[dl[0]] = 0; changed = True
            elif k == "unop" and s.get("op") == "Not" and len(dl) == 1:
                src = _opl(s["o"][0])
                if src in BO and dl[0] not in BO:
                    BO[dl[0]] = 1 - BO[src]; changed = True
        for c in calls:
            if not c.dst or len(c.dst) != 1:
                continue
            d = c.dst[0]
            a0 = _opl(c.args[0]) if c.args else None
            if a0 is None:
                continue
            if c.name == "branch" and last_seg(c.trait) == "Try" and a0 in R and d not in CF:
                CF.add(d); changed = True
            elif c.name in RESULT_ADAPTORS and last_seg(c.self_adt) in ("Result", "Option") and a0 in R and d not in R:
                R.add(d); changed = True
            elif c.name in ("is_ok", "is_some") and a0 in R and d not in BO:
                BO[d] = 1; changed = True
            elif c.name in ("is_err", "is_none") and a0 in R and d not in BO:
                BO[d] = 0; changed = True
            elif c.name == "deref" and a0 in R and d not in R:
                R.add(d); changed = True
    out = {}
    for bb in range(f.nblocks()):
        t = f.term(bb)
        if t["k"] != "switch":
            continue
        dl = _opl(t["discr"])
        if dl is None:
            continue
        if dl in DS:
            succ_val = DS[dl]
        elif dl in BO:
            succ_val = BO[dl]
        else:
            continue
        tg = dict((v, b) for v, b in t["targets"])
        if succ_val in tg:
            ok = {tg[succ_val]}
        else:
            ok = {t["otherwise"]}
        # if success value 1 on a bool switch written as [0 -> x, otherwise -> y]
        out[bb] = ok
    return out, R


def success_edges(f, guard_calls):
    """edges (switch_bb, succ_bb) taken only when one of the guard calls succeeded"""
    edges = set()
    for c in guard_calls:
        if not c.dst:
            continue
        tests, _ = result_tests(f, {c.dst[0]})
        for w, oks in tests.items():
            for s in oks:
                edges.add((w, s))
    return edges


def reach_without_edges(f, start, cut_edges, avoid_blocks=frozenset()):
    succ = f.succs()
    seen = {start}
    st = [start]
    while st:
        b = st.pop()
        for s in succ[b]:
            if (b, s) in cut_edges or s in avoid_blocks or s in seen:
                continue
            seen.add(s)
            st.append(s)
    return seen


def succ_dominated(f, sink_bb, guard_calls):
    """True iff every entry->sink path takes a success edge of some guard call (so the guard ran,
    its result was inspected, and the failure side cannot reach the sink)."""
    edges = success_edges(f, guard_calls)
    if not edges:
        return False
    r = reach_without_edges(f, 0, edges)
    return sink_bb not in r


def plain_dominated(f, sink_bb, guard_calls):
    """every entry->sink path passes through the block of one of the guard calls (result not inspected)"""
    blocks = frozenset(c.bb for c in guard_calls)
    if not blocks:
        return False
    if 0 in blocks:
        return True
    r = reach_without_edges(f, 0, set(), blocks)
    return sink_bb not in r


# ---------------------------------------------------------------------------------------------
# Err / Ok exits

def err_exit_blocks(f):
    """blocks on which the function's return value is made an error: `?` residual conversion or an explicit
    `_0 = Err(..)` aggregate"""
    out = set()
    # the return place, and the return places of inlined helpers whose result *is* the function's result (tail position)
    rets = {0}
    changed = True
    while changed:
        changed = False
        for bb, s in f.stmts():
            if s.get("inl") == "ret" and len(s["d"]) == 1 and s["d"][0] in rets and s["o"] and "p" in s["o"][0] and len(s["o"][0]["p"]) == 1:
                l = s["o"][0]["p"][0]
                if l not in rets:
                    rets.add(l)
                    changed = True
    for c in f.calls():
        if c.name == "from_residual" and c.dst and len(c.dst) == 1 and c.dst[0] in rets:
            out.add(c.bb)
    for bb, s in f.stmts():
        if s.get("k") == "agg" and len(s["d"]) == 1 and s["d"][0] in rets and last_seg(s["adt"]) == "Result" and s.get("variant") == "Err":
            out.add(bb)
    return out


def ok_return_reachable(f, start, avoid_blocks):
    """can a `return` be reached from `start` without passing an Err exit or an avoided block?"""
    avoid = set(avoid_blocks) | err_exit_blocks(f)
    if start in avoid_blocks:
        return False
    r = reach_without_edges(f, start, set(), frozenset(avoid - {start}))
    return any(f.term(b)["k"] == "return" for b in r)


# ---------------------------------------------------------------------------------------------
# Guard sets by public error variant

def constructs_variant(f, adt_last, variant):
    for bb, s in f.aggregates(adt_last, variant):
        return True
    return False


def variant_guard_fns(prog, adt_last, variant, crates=("mdk_core",)):
    """functions that may fail with the public error variant: construct it, or call (checked) such a function"""
    direct = set()
    for f in prog.nontest_fns(crates):
        if constructs_variant(f, adt_last, variant):
            # closures constructing the variant make their root function a guard
            direct.add(f.root if f.is_closure() else f.path)
            direct.add(f.path)
    guards = set(direct)
    changed = True
    red = prog.redges()
    while changed:
        changed = False
        for g in list(guards):
            for caller in red.get(g, ()):
                if caller in guards:
                    continue
                cf = prog.fns[caller]
                if cf.is_test_like() or cf.crate not in crates:
                    continue
                # the caller is a guard if it propagates the callee's failure: checked call
                sites = [c for c in cf.live_calls() if any(t.path == g for t in prog.call_targets(c))]
                if any(call_is_checked(cf, c) for c in sites):
                    guards.add(caller)
                    changed = True
    return guards


def call_is_checked(f, c):
    """the call's result is inspected by a recognised success test, or is returned as the function's result"""
    if not c.dst:
        return False
    tests, R = result_tests(f, {c.dst[0]})
    if tests:
        return True
    return 0 in R or c.dst[0] == 0


# ---------------------------------------------------------------------------------------------
# Interprocedural guardedness

class GuardAnalysis:
    """Decides, for sink call sites, whether a guard success-dominates them in every calling context.
    is_guard(call) / is_sink(call) are predicates on ir.Call; `roots` bound the contexts considered
    (functions reachable from the roots); a function is an API boundary (cannot rely on its callers)
    when is_boundary(fn) holds."""

    def __init__(self, prog, is_guard, is_boundary, scope_paths, mode="success"):
        self.prog = prog
        self.is_guard = is_guard
        self.is_boundary = is_boundary
        self.scope = scope_paths
        self.mode = mode
        self._fn_state = {}

    def local_ok(self, f, bb):
        gc = [c for c in f.live_calls() if self.is_guard(c)]
        if not gc:
            return False
        if self.mode == "success":
            return succ_dominated(f, bb, gc)
        return plain_dominated(f, bb, gc)

    def site_ok(self, f, bb, trail=None):
        """returns (ok, witness_chain) ; witness chain = unguarded context path when not ok"""
        if self.local_ok(f, bb):
            return True, None
        return self.fn_ok(f, trail or [])

    def fn_ok(self, f, trail):
        key = f.path
        st = self._fn_state.get(key)
        if st == "inprogress":
            return True, None  # a cycle adds no entry path by itself
        if isinstance(st, tuple):
            return st
        if self.is_boundary(f):
            res = (False, [f.label()])
            self._fn_state[key] = res
            return res
        self._fn_state[key] = "inprogress"
        callers = []
        for cp in self.prog.redges().get(f.path, ()):
            if cp not in self.scope:
                continue
            cf = self.prog.fns[cp]
            if cf.is_test_like():
                continue
            callers.append(cf)
        result = (True, None)
        if not callers:
            # unreferenced in scope: nothing can reach it
            result = (True, None)
        for cf in callers:
            # call sites of f in cf (calls, closure creations, fn-item uses)
            sites = set()
            for c in cf.live_calls():
                if any(t.path == f.path for t in self.prog.call_targets(c)):
                    sites.add(c.bb)
                for a in c.args:
                    cc = a.get("c")
                    if cc and cc.get("fn") == f.path:
                        sites.add(c.bb)
            for bb, s in cf.stmts():
                if s.get("k") == "closure" and s.get("closure") == f.path:
                    # where the closure *runs*: if its value is invoked in this very function (`body()` of a bracket helper that was
                    # inlined here), the invocation is the site; otherwise (handed to an adaptor) the creation point stands for it
                    fl = cf.flows_from({s["d"][0]}, through_calls=False)
                    inv = [c for c in cf.live_calls() if c.name in ("call_once", "call_mut", "call") and c.args and "p" in c.args[0] and c.args[0]["p"][0] in fl]
                    if inv:
                        sites |= set(c.bb for c in inv)
                    else:
                        sites.add(bb)
                for o in s.get("o", []):
                    cc = o.get("c") if isinstance(o, dict) else None
                    if cc and cc.get("fn") == f.path:
                        sites.add(bb)
            reach = cf.reachable_from(0)
            for bb in sites:
                if bb not in reach or cf.is_cleanup(bb):
                    continue
                ok, chain = self.site_ok(cf, bb, trail + [f.label()])
                if not ok:
                    result = (False, (chain or []) + [f.label()])
                    break
            if not result[0]:
                break
        self._fn_state[key] = result
        return result


def sink_sites(prog, is_sink, scope_paths):
    out = []
    for p in sorted(scope_paths):
        f = prog.fns.get(p)
        if f is None or f.is_test_like():
            continue
        for c in f.live_calls():
            if is_sink(c):
                out.append(c)
    return out


# ---------------------------------------------------------------------------------------------
# Ok-spine post-dominance (interprocedural in the caller direction)

class FollowAnalysis:
    """PostDomOk: after a site, every path to an Ok return passes a `follow` call; if the function returns
    first, the obligation moves to every caller's continuation."""

    def __init__(self, prog, is_follow, is_boundary, scope_paths):
        self.prog = prog
        self.is_follow = is_follow
        self.is_boundary = is_boundary
        self.scope = scope_paths
        self._state = {}

    def local_follow_blocks(self, f):
        return frozenset(c.bb for c in f.live_calls() if self.is_follow(c))

    def site_ok(self, f, bb, after_call=True):
        """bb: block whose terminator is the site (obligation starts at its success successor)"""
        fb = self.local_follow_blocks(f)
        t = f.term(bb)
        starts = [t["to"]] if (t["k"] == "call" and "to" in t) else f.succs()[bb]
        escapes = False
        for s in starts:
            if ok_return_reachable(f, s, fb):
                escapes = True
        if not escapes:
            return True, None
        return self.fn_ok(f)

    def fn_ok(self, f):
        key = f.path
        st = self._state.get(key)
        if st == "inprogress":
            return True, None
        if isinstance(st, tuple):
            return st
        if self.is_boundary(f):
            res = (False, [f.label()])
            self._state[key] = res
            return res
        self._state[key] = "inprogress"
        result = (True, None)
        for cp in self.prog.redges().get(f.path, ()):
            if cp not in self.scope:
                continue
            cf = self.prog.fns[cp]
            if cf.is_test_like():
                continue
            for c in cf.live_calls():
                if any(t.path == f.path for t in self.prog.call_targets(c)):
                    ok, chain = self.site_ok(cf, c.bb)
                    if not ok:
                        result = (False, (chain or []) + [f.label()])
                        break
            # closures: the closure body returns into an adaptor inside the parent; treat the creation
            # block as the site
            if result[0] and f.is_closure() and cf.path == f.parent:
                for bb, s in cf.stmts():
                    if s.get("k") == "closure" and s.get("closure") == f.path:
                        ok, chain = self.site_ok(cf, bb)
                        if not ok:
                            result = (False, (chain or []) + [f.label()])
                            break
            if not result[0]:
                break
        self._state[key] = result
        return result


def reaches_fn(prog, c, target_pred, _memo={}):
    """does the call (through the workspace call graph) reach a function/callee satisfying target_pred(call)?"""
    for t in prog.call_targets(c):
        if fn_reaches_call(prog, t, target_pred):
            return True
    return False


def fn_reaches_call(prog, f, pred, memo=None):
    if memo is None:
        memo = {}
    key = (f.path, id(pred))
    seen = set()
    st = [f.path]
    while st:
        p = st.pop()
        if p in seen:
            continue
        seen.add(p)
        g = prog.fns.get(p)
        if g is None:
            continue
        for c in g.live_calls():
            if pred(c):
                return True
        st.extend(prog.edges().get(p, ()))
    return False


class ReachCache:
    """memoised 'function transitively performs a call satisfying pred'"""

    def __init__(self, prog, pred):
        self.prog = prog
        self.pred = pred
        self.direct = {}
        self.memo = {}

    def fn(self, path):
        if path in self.memo:
            return self.memo[path]
        seen = set()
        st = [path]
        hit = False
        while st and not hit:
            p = st.pop()
            if p in seen:
                continue
            seen.add(p)
            if self.memo.get(p) is True:
                hit = True
                break
            g = self.prog.fns.get(p)
            if g is None:
                continue
            d = self.direct.get(p)
            if d is None:
                d = any(self.pred(c) for c in g.live_calls())
                self.direct[p] = d
            if d:
                hit = True
                break
            st.extend(self.prog.edges().get(p, ()))
        self.memo[path] = hit
        if not hit:
            for p in seen:
                self.memo[p] = False
        return hit

    def call(self, c):
        if self.pred(c):
            return True
        return any(self.fn(t.path) for t in self.prog.call_targets(c))


# ---------------------------------------------------------------------------------------------
# enum-variant match arms, control dependence, copy provenance

def variant_arms(prog, f, adt_last, variant):
    """[(switch_bb, arm_entry_bb)] for `match x { Adt::Variant.. => }` switches on a discriminant of the ADT"""
    out = []
    dl = {}
    for bb, s in f.stmts():
        if s.get("k") == "discr" and last_seg(s.get("adt")) == adt_last and len(s["d"]) == 1:
            dl[s["d"][0]] = s["adt"]
    for bb in range(f.nblocks()):
        t = f.term(bb)
        if t["k"] != "switch":
            continue
        l = _opl(t["discr"])
        if l not in dl:
            continue
        adt = prog.adts.get(dl[l])
        if not adt:
            continue
        dv = None
        for v in adt["variants"]:
            if v["name"] == variant:
                dv = v.get("discr")
        if dv is None:
            continue
        for val, tb in t["targets"]:
            if val == dv:
                out.append((bb, tb))
    # the same decision written as a comparison with the constant (`if outcome != Outcome::AlreadyExisted { .. return }`):
    # the "arm" is the side of the test on which the value equals the variant
    import predicates as _P
    for c in f.live_calls():
        if c.name not in ("eq", "ne") or len(c.args) != 2 or c.expn:
            continue
        if adt_last not in " ".join([c.self_ty or ""] + [str(x) for x in (c.gen or [])]):
            continue
        ds = [_P.describe(f, a) for a in c.args]
        if ("const", variant) not in ds:
            continue
        true_edges = bool_true_edges(f, c)
        for (w, tb) in true_edges:
            if c.name == "eq":
                out.append((w, tb))
            else:
                for sx in f.succs()[w]:
                    if sx != tb:
                        out.append((w, sx))
    # ... or through a predicate method of the enum (`if outcome.permits_key_generation() { .. } else { <arm> }`): a workspace function
    # from the enum to bool whose answer for this variant is a constant; the "arm" is the side of its test with that answer
    import dtable as _D
    for c in f.live_calls():
        for t in prog.call_targets(c):
            if t.ret != "bool" or t.nargs != 1 or t.is_closure() or last_seg((t.locals[1] or "").replace("&", "")) != adt_last:
                continue
            try:
                ev = _D.Evaluator(t, lambda v: None, lambda a, b: None, lambda bb, v, tt: None, prog=prog)
                res = ev.run({1: ("variant", adt_last, variant, ())})
            except _D.Undecided:
                continue
            if not res or res[0] != "int":
                continue
            for (w, tb) in bool_true_edges(f, c):
                if res[1]:
                    out.append((w, tb))
                else:
                    out += [(w, sx) for sx in f.succs()[w] if sx != tb]
    return out


def region_from(f, start, stop_blocks=frozenset()):
    return reach_without_edges(f, start, set(), frozenset(stop_blocks))


def creators(prog, g):
    """the non-closure functions in which the closure body g is created (directly or inside another closure); after a helper was
    folded into its callers that is no longer the function the closure is named after"""
    out, seen, st = [], set(), [g]
    while st:
        x = st.pop()
        if x.path in seen:
            continue
        seen.add(x.path)
        if not x.is_closure():
            out.append(x)
            continue
        ups = []
        for p in sorted(prog.redges().get(x.path, ())):
            h = prog.fns.get(p)
            if h is not None and any(st_.get("k") == "closure" and st_.get("closure") == x.path for _, st_ in h.stmts()):
                ups.append(h)
        if not ups and x.root in prog.fns:
            ups = [prog.fns[x.root]]
        st.extend(ups)
    return out


def closure_args(prog, c):
    """workspace closures handed to a call (`opt.map(|g| ..)`): the bodies that run as part of it"""
    out = []
    f = c.fn
    for a in c.args:
        if "p" not in a or len(a["p"]) != 1:
            continue
        for x in copy_sources(f, a["p"][0]):
            if not isinstance(x, int):
                continue
            for bb, kind, d in f.defs().get(x, []):
                if kind == "stmt" and d.get("k") == "closure" and d.get("closure") in prog.fns:
                    out.append(prog.fns[d["closure"]])
    return out


def control_dependent_switches(f, target_bb, within=None):
    """switch blocks w (reaching target) having at least one successor from which target is unreachable"""
    out = []
    for bb in range(f.nblocks()):
        if within is not None and bb not in within:
            continue
        t = f.term(bb)
        if t["k"] != "switch":
            continue
        ss = f.succs()[bb]
        # reachability without coming back through the switch itself: in a loop the "other" side reaches the target only by
        # re-evaluating the condition on a later iteration, which still makes the target control-dependent on it
        reach = [target_bb in f.reachable_from(s, frozenset([bb])) for s in ss]
        if any(reach) and not all(reach):
            out.append(bb)
    return out


def decision_switches(f, target_bb, depth=2):
    """the switches deciding whether target runs, including those that decide the value of a flag it is switched on
    (`let go = a == X && cond(); if go { target }`: the flag is assigned on both sides of the first test, so the target is
    control-dependent on the flag only, and the flag's *value* on the first test)"""
    out = list(control_dependent_switches(f, target_bb))
    seen = set(out)
    frontier = list(out)
    for _ in range(depth):
        nxt = []
        for w in frontier:
            l = _opl(f.term(w)["discr"])
            if l is None:
                continue
            # the flag itself, or the value it is a plain copy of
            flags = set(x for x in copy_sources(f, l) if isinstance(x, int))
            blocks = set()
            for x in flags:
                ds = f.defs().get(x, [])
                if len(ds) >= 2:
                    blocks |= set(b for b, kind, d in ds)
            for b in blocks:
                for w2 in control_dependent_switches(f, b):
                    if w2 not in seen:
                        seen.add(w2)
                        out.append(w2)
                        nxt.append(w2)
        frontier = nxt
    return out


def copy_sources(f, local, depth=0, seen=None):
    """locals/places a value is a *pure copy* of (use/ref/deref chains and Clone/Copy/Deref/Into-style calls only)"""
    if seen is None:
        seen = set()
    if local in seen:
        return set()
    seen.add(local)
    out = {local}
    for bb, kind, x in f.defs().get(local, []):
        if kind == "stmt" and x.get("k") in ("use", "ref") and len(x["d"]) == 1:
            o = x["o"][0]
            if "p" in o:
                out |= {tuple(o["p"])} if len(o["p"]) > 1 and any(isinstance(e, str) and e.startswith(".") or (isinstance(e, str) and e.startswith("as ")) for e in o["p"][1:]) else set()
                out |= copy_sources(f, o["p"][0], depth + 1, seen)
        elif kind == "stmt" and x.get("k") == "cast" and len(x["d"]) == 1:
            o = x["o"][0]
            if "p" in o:
                out |= copy_sources(f, o["p"][0], depth + 1, seen)
        elif kind == "call" and x.name in ("clone", "deref", "borrow", "as_ref", "into", "from", "to_owned", "as_u64", "as_secs", "as_slice"):
            for a in x.args[:1]:
                if "p" in a:
                    out |= copy_sources(f, a["p"][0], depth + 1, seen)
    return out


def receiver_fields(f, local):
    """the named fields on the *copy chain* of a receiver (`&mut (*inner).groups_cache` -> {"groups_cache"}): what the receiver is a
    reference to — not everything it data-depends on (flow-insensitive dependence through a shared `&mut self` reaches every field)"""
    out = set()
    todo, seen = [local], set()
    while todo:
        l = todo.pop()
        if l in seen:
            continue
        seen.add(l)
        for bb, kind, x in f.defs().get(l, []):
            src = None
            if kind == "stmt" and x.get("k") in ("use", "ref", "cast") and len(x["d"]) == 1 and x["o"] and "p" in x["o"][0]:
                src = x["o"][0]["p"]
            elif kind == "call" and x.dst and x.dst[0] == l and x.args and "p" in x.args[0] and x.name in (
                    "deref", "deref_mut", "borrow", "borrow_mut", "as_ref", "as_mut", "write", "read", "lock", "unwrap", "expect", "get_mut", "clone"):
                # through the guard: `self.group_snapshots.write()` -> guard -> deref_mut -> the map
                src = x.args[0]["p"]
            if src is None:
                continue
            out |= set(e[1:] for e in src[1:] if isinstance(e, str) and e.startswith(".") and not e[1:].isdigit())
            todo.append(src[0])
    return out


def switch_depends_on(f, w, locals_set):
    """does the discriminant of switch block w data-depend on any of the locals (backward closure)?"""
    t = f.term(w)
    l = _opl(t["discr"])
    if l is None:
        return False
    dep, _, _ = f.depends_on(l)
    return bool(dep & set(locals_set))


# ---------------------------------------------------------------------------------------------
# interprocedural provenance (backward): which calls / constants / field reads may feed a value

class Origins:
    def __init__(self):
        self.calls = []      # ir.Call
        self.consts = []     # (fn, bb, const dict)
        self.fields = set()  # field names read on the way (".x" without the dot)
        self.places = []     # (fn, place) with projections
        self.params = []     # (fn, local) parameters of boundary functions that were reached

    def call_names(self):
        return set(c.name for c in self.calls)

    def has_call(self, pred):
        return any(pred(c) for c in self.calls)


def origins(prog, f, local, scope=None, call_filter=None, max_frames=6, _seen=None, _out=None, _follow_callers=True):
    """Backward data-dependence of `local` in f; parameters are followed into every caller's argument
    (within `scope` paths if given). Closure upvars (`_1.N`) are followed to the creation site."""
    out = _out if _out is not None else Origins()
    seen = _seen if _seen is not None else {}
    key = (f.path, local)
    # budget-aware memo: a node reached again with a larger remaining budget is explored again, so the result does
    # not depend on the (hash-dependent) order in which callers / callees are visited
    if max_frames < 0 or seen.get(key, -1) >= max_frames:
        return out
    seen[key] = max_frames
    user_filter = call_filter
    # the `?` residual conversion carries the *error* value, not the Ok payload: never follow it
    cf = (lambda c: c.name != "from_residual" and (user_filter is None or user_filter(c)))
    dep, calls, consts = f.depends_on(local, call_filter=cf, skip_context_args=True)
    calls = [c for c in calls if c.name != "from_residual"]
    out.calls.extend(calls)
    # closures passed along (e.g. `.and_then(|r| r.field)`): the value also depends on what the closure returns
    for bb, c in consts:
        if isinstance(c, dict) and c.get("closure") and c["closure"] in prog.fns:
            origins(prog, prog.fns[c["closure"]], 0, scope, call_filter, max_frames - 1, seen, out, _follow_callers=False)
        # ... and on what a workspace function handed along as a function item returns (`.and_then(decode_hex)`)
        if isinstance(c, dict) and c.get("fn") and c["fn"] in prog.fns and (scope is None or c["fn"] in scope) and not prog.fns[c["fn"]].is_test_like():
            origins(prog, prog.fns[c["fn"]], 0, scope, call_filter, max_frames - 1, seen, out, _follow_callers=False)
    # return-value summaries: a workspace callee's result depends on what its body returns
    for c in calls:
        if call_filter is not None and not call_filter(c):
            continue
        for t in prog.call_targets(c):
            if t.is_test_like() or (scope is not None and t.path not in scope):
                continue
            # the callee's parameters are this call's arguments, which the caller frame already follows
            origins(prog, t, 0, scope, call_filter, max_frames - 1, seen, out, _follow_callers=False)
    out.consts.extend((f, bb, c) for bb, c in consts)
    for bb, c in consts:
        if isinstance(c, dict) and "promoted" in c and c["promoted"] < len(f.promoted):
            out.consts.extend((f, bb, it) for it in f.promoted[c["promoted"]])
    # field reads
    for l in dep:
        for bb, kind, x in f.defs().get(l, []):
            if kind == "stmt":
                for o in x.get("o", []):
                    pl = o.get("p")
                    if pl and len(pl) > 1:
                        out.places.append((f, pl))
                        for e in pl[1:]:
                            if isinstance(e, str) and e.startswith("."):
                                out.fields.add(e[1:])
            else:
                for a in x.args:
                    pl = a.get("p")
                    if pl and len(pl) > 1:
                        for e in pl[1:]:
                            if isinstance(e, str) and e.startswith("."):
                                out.fields.add(e[1:])
    # parameters -> callers
    for l in sorted(dep):
        if 1 <= l <= f.nargs:
            if f.is_context_local(l):
                continue
            if not _follow_callers and not (f.is_closure() and l == 1):
                continue
            callers = []
            for cp in sorted(prog.redges().get(f.path, ())):
                if scope is not None and cp not in scope:
                    continue
                cf = prog.fns[cp]
                if cf.is_test_like():
                    continue
                callers.append(cf)
            if not callers:
                out.params.append((f, l))
            for cf in callers:
                if f.is_closure():
                    # upvars: closure creation operands (param 1 is the closure env)
                    if l == 1:
                        # which captured variables (env fields `.N`) feed the dependent locals?
                        used = set()
                        whole = False
                        for dl in dep:
                            for bb0, kind0, x0 in f.defs().get(dl, []):
                                pls = [o["p"] for o in x0.get("o", []) if "p" in o] if kind0 == "stmt" else [a["p"] for a in x0.args if "p" in a]
                                for pl in pls:
                                    if pl[0] == 1:
                                        idx = [e for e in pl[1:] if isinstance(e, str) and e.startswith(".") and e[1:].isdigit()]
                                        if idx:
                                            used.add(int(idx[0][1:]))
                                        else:
                                            whole = True
                        for bb, s in cf.stmts():
                            if s.get("k") == "closure" and s.get("closure") == f.path:
                                for oi, o in enumerate(s.get("o", [])):
                                    if used and not whole and oi not in used:
                                        continue
                                    if "p" in o:
                                        origins(prog, cf, o["p"][0], scope, call_filter, max_frames - 1, seen, out)
                                    elif "c" in o:
                                        out.consts.append((cf, bb, o["c"]))
                    else:
                        # closure arguments come from the adaptor that calls it: depend on the adaptor's receiver
                        for c in cf.live_calls():
                            for a in c.args:
                                if "p" in a:
                                    d2, _, _ = cf.depends_on(a["p"][0])
                                    # the closure value flows into this call?
                                    for bb, s in cf.stmts():
                                        if s.get("k") == "closure" and s.get("closure") == f.path and s["d"][0] in d2:
                                            for a2 in c.args:
                                                if "p" in a2 and a2 is not a:
                                                    origins(prog, cf, a2["p"][0], scope, call_filter, max_frames - 1, seen, out)
                    continue
                for c in cf.live_calls():
                    # handed to an adaptor as a function item (`.and_then(decode_hex)`): its argument is what the adaptor's receiver carries
                    if any(isinstance(a.get("c"), dict) and a["c"].get("fn") == f.path for a in c.args):
                        for a2 in c.args:
                            if "p" in a2:
                                origins(prog, cf, a2["p"][0], scope, call_filter, max_frames - 1, seen, out)
                    if any(t.path == f.path for t in prog.call_targets(c)):
                        if l - 1 < len(c.args):
                            a = c.args[l - 1]
                            if "p" in a:
                                origins(prog, cf, a["p"][0], scope, call_filter, max_frames - 1, seen, out)
                                for e in a["p"][1:]:
                                    if isinstance(e, str) and e.startswith("."):
                                        out.fields.add(e[1:])
                            elif "c" in a:
                                out.consts.append((cf, c.bb, a["c"]))
    return out


def agg_field_operand(s, field):
    """operand of an ADT aggregate statement for the named field"""
    names = s.get("fields") or []
    for n, o in zip(names, s.get("o", [])):
        if n == field:
            return o
    return None


# ---------------------------------------------------------------------------------------------
# "this function guarantees a successful call to X before returning Ok"

class Guarantee:
    """fn_guarantees(F): every path from F's entry to a non-error return takes the success edge of a checked call
    that is pred() itself or whose every workspace target guarantees it (recursively)."""

    def __init__(self, prog, pred):
        self.prog = prog
        self.pred = pred
        self.memo = {}

    def call(self, c):
        if self.pred(c):
            return True
        ts = self.prog.call_targets(c)
        return bool(ts) and all(self.fn(t) for t in ts)

    def fn(self, f):
        st = self.memo.get(f.path)
        if st is not None:
            return st if st != "inprogress" else False
        self.memo[f.path] = "inprogress"
        gc = [c for c in f.live_calls() if self.call(c)]
        res = False
        if gc:
            edges = success_edges(f, gc)
            # a tail call whose result *is* the return value also guarantees
            tail = frozenset(c.bb for c in gc if c.dst and (c.dst[0] == 0 or 0 in result_tests(f, {c.dst[0]})[1]))
            if edges or tail:
                r = reach_without_edges(f, 0, edges, err_exit_blocks(f) | tail)
                res = not any(f.term(b)["k"] == "return" for b in r)
        self.memo[f.path] = res
        return res


# ---------------------------------------------------------------------------------------------
# boolean guards (value polarity), arm restriction

def bool_true_edges(f, call):
    """For a call returning bool / Result<bool> / Option<bool>: the switch edges taken only when the
    boolean is TRUE (through `?`, copies and `!`)."""
    if not call.dst:
        return set()
    same = {call.dst[0]}      # carriers of the (wrapped) value
    bools = {}                # local -> polarity (True: local==1 means guard true)
    if f.locals[call.dst[0]] == "bool":
        bools[call.dst[0]] = True
    changed = True
    while changed:
        changed = False
        for bb, s in f.stmts():
            d = s["d"]
            if len(d) != 1:
                continue
            k = s.get("k")
            if k in ("use", "ref") and s["o"] and "p" in s["o"][0]:
                src = s["o"][0]["p"]
                if src[0] in same and d[0] not in same and d[0] not in bools:
                    if f.locals[d[0]] == "bool":
                        # payload extraction (as Continue/.0, as Ok/.0, as Some/.0)
                        if not any(isinstance(e, str) and e in ("as Break", "as Err", "as None") for e in src[1:]):
                            bools[d[0]] = True
                            changed = True
                    else:
                        same.add(d[0]); changed = True
                elif len(src) == 1 and src[0] in bools and d[0] not in bools and f.locals[d[0]] == "bool":
                    bools[d[0]] = bools[src[0]]; changed = True
            elif k == "unop" and s.get("op") == "Not":
                src = _opl(s["o"][0])
                if src in bools and d[0] not in bools:
                    bools[d[0]] = not bools[src]; changed = True
        for c in f.calls():
            if c.dst and len(c.dst) == 1 and c.args and _opl(c.args[0]) in same and c.dst[0] not in same:
                if c.name == "branch" or (c.name in RESULT_ADAPTORS and c.name != "map"):
                    same.add(c.dst[0]); changed = True
    edges = set()
    for bb in range(f.nblocks()):
        t = f.term(bb)
        if t["k"] != "switch":
            continue
        l = _opl(t["discr"])
        if l not in bools:
            continue
        tg = dict((v, b) for v, b in t["targets"])
        want = 1 if bools[l] else 0
        if want in tg:
            edges.add((bb, tg[want]))
        elif want == 1 and 0 in tg:
            edges.add((bb, t["otherwise"]))
        elif want == 0:
            # switch written [1 -> x] otherwise y
            edges.add((bb, t["otherwise"]))
    return edges


def arm_only(prog, f, bb, adt_last, allowed):
    """True iff block bb is reachable only through match arms of `adt_last` variants in `allowed`
    (some discriminant switch of that ADT separates it from the entry)."""
    dl = {}
    for b, s in f.stmts():
        if s.get("k") == "discr" and last_seg(s.get("adt")) == adt_last and len(s["d"]) == 1:
            dl[s["d"][0]] = s["adt"]
    cut = set()
    for w in range(f.nblocks()):
        t = f.term(w)
        if t["k"] != "switch" or _opl(t["discr"]) not in dl:
            continue
        adt = prog.adts.get(dl[_opl(t["discr"])])
        if not adt:
            continue
        dv = {v["discr"]: v["name"] for v in adt["variants"]}
        listed = set()
        by_target = {}
        for val, tb in t["targets"]:
            listed.add(val)
            by_target.setdefault(tb, []).append(dv.get(val))
        # `otherwise` covers the unlisted variants
        rest = [n for d, n in dv.items() if d not in listed]
        if rest:
            by_target.setdefault(t["otherwise"], []).extend(rest)
        # an edge counts as an allowed arm only if *every* variant routed over it is allowed (or-patterns share one target block)
        for tb, names in by_target.items():
            if names and all(n in allowed for n in names):
                cut.add((w, tb))
    if not cut:
        return False
    return bb not in reach_without_edges(f, 0, cut)


# ---------------------------------------------------------------------------------------------
# must-pass-through: every non-error return of F is preceded by a call satisfying pred (directly or in a callee)

class MustPass:
    def __init__(self, prog, pred):
        self.prog = prog
        self.pred = pred
        self.memo = {}

    def call(self, c):
        if self.pred(c):
            return True
        ts = self.prog.call_targets(c)
        return bool(ts) and all(self.fn(t) for t in ts)

    def fn(self, f):
        st = self.memo.get(f.path)
        if st is not None:
            return st if st != "inprogress" else False
        self.memo[f.path] = "inprogress"
        blocks = frozenset(c.bb for c in f.live_calls() if self.call(c))
        res = False
        if blocks:
            if 0 in blocks:
                res = True
            else:
                r = reach_without_edges(f, 0, set(), blocks | err_exit_blocks(f))
                res = not any(f.term(b)["k"] == "return" for b in r)
        self.memo[f.path] = res
        return res


# ---------------------------------------------------------------------------------------------
# copy-provenance: the *producers* of a value, following only copies / wrappers / transparent conversions
# (and parameters into every caller's argument). Unlike origins() this does not follow data dependence
# through arbitrary calls, so it answers "which call's result IS this value".

TRANSPARENT_CALLS = {"clone", "deref", "deref_mut", "borrow", "as_ref", "as_mut", "into", "from", "to_owned", "as_u64", "as_secs", "as_slice",
                     "to_vec", "to_string", "as_str", "as_bytes", "branch", "unwrap", "expect", "map_err", "ok_or", "ok_or_else", "unwrap_or_default",
                     "copied", "cloned", "new"}


def producers(prog, f, local, scope=None, max_frames=5, _seen=None, _out=None, _pend=()):
    """copy provenance of a value.  Field-sensitive through records: reading `.x` of a value that was built as `S { x: a, y: b }`
    (also across a call: a parameter struct filled by the caller, destructured by the callee) follows `a` only"""
    out = _out if _out is not None else {"calls": [], "consts": [], "fields": set(), "params": []}
    seen = _seen if _seen is not None else {}
    key = (f.path, local, _pend)
    if max_frames < 0 or seen.get(key, -1) >= max_frames:
        return out
    seen[key] = max_frames

    def named(pl):
        return tuple(e[1:] for e in pl[1:] if isinstance(e, str) and e.startswith(".") and not e[1:].isdigit())
    st = [(local, _pend)]
    visited = set()
    while st:
        l, pend = st.pop()
        if (l, pend) in visited:
            continue
        visited.add((l, pend))
        defs = f.defs().get(l, [])
        if not defs and 1 <= l <= f.nargs:
            pass
        for bb, kind, x in defs:
            if kind == "stmt":
                k = x.get("k")
                if k in ("use", "ref", "cast", "agg", "tuple") and len(x["d"]) == 1:
                    if k == "agg" and not x.get("o"):
                        out["consts"].append((f, bb, {"agg": x.get("adt"), "variant": x.get("variant")}))
                    ops = list(x.get("o", []))
                    npend = pend
                    if k == "agg" and pend and x.get("fields") and pend[0] in x["fields"] and len(x["fields"]) == len(ops):
                        # the record the pending field is read from: only that field's value flows on
                        ops = [ops[x["fields"].index(pend[0])]]
                        npend = pend[1:]
                    elif k in ("agg", "tuple"):
                        npend = ()
                    for o in ops:
                        if "p" in o:
                            fl = named(o["p"])
                            out["fields"] |= set(fl)
                            st.append((o["p"][0], fl + npend if k in ("use", "ref", "cast") else npend))
                        elif "c" in o:
                            out["consts"].append((f, bb, o["c"]))
                elif len(x["d"]) == 1:
                    out["consts"].append((f, bb, {"op": k}))
            else:
                c = x
                if c.dst and c.dst[0] != l:
                    continue     # &mut side effect, not the producer
                if c.name in TRANSPARENT_CALLS and c.args and "p" in c.args[0] and (
                        c.krate in ("core", "alloc", "std") or c.name in ("as_u64", "as_secs", "as_slice")
                        or last_seg(c.trait) in ("Clone", "Deref", "DerefMut", "AsRef", "Borrow", "Into", "From", "ToOwned", "ToString")):
                    if c.name == "new" and last_seg(c.self_adt) not in ("Secret",):
                        out["calls"].append(c)
                        continue
                    fl = named(c.args[0]["p"])
                    out["fields"] |= set(fl)
                    st.append((c.args[0]["p"][0], fl + pend))
                else:
                    out["calls"].append(c)
        if 1 <= l <= f.nargs and not any(k2 == "stmt" for _, k2, _ in defs):
            callers = [prog.fns[p] for p in sorted(prog.redges().get(f.path, ())) if (scope is None or p in scope) and not prog.fns[p].is_test_like()]
            if not callers or f.is_closure():
                out["params"].append((f, l))
            for cf in callers:
                if f.is_closure():
                    continue
                for c in cf.live_calls():
                    if any(t.path == f.path for t in prog.call_targets(c)) and l - 1 < len(c.args):
                        a = c.args[l - 1]
                        if "p" in a:
                            fl = named(a["p"])
                            out["fields"] |= set(fl)
                            producers(prog, cf, a["p"][0], scope, max_frames - 1, seen, out, fl + pend)
                        elif "c" in a:
                            out["consts"].append((cf, c.bb, a["c"]))
    return out
    seen[key] = max_frames
    st = [local]
    visited = set()
    while st:
        l = st.pop()
        if l in visited:
            continue
        visited.add(l)
        defs = f.defs().get(l, [])
        if not defs and 1 <= l <= f.nargs:
            pass
        for bb, kind, x in defs:
            if kind == "stmt":
                k = x.get("k")
                if k in ("use", "ref", "cast", "agg", "tuple") and len(x["d"]) == 1:
                    if k == "agg" and not x.get("o"):
                        out["consts"].append((f, bb, {"agg": x.get("adt"), "variant": x.get("variant")}))
                    for o in x.get("o", []):
                        if "p" in o:
                            out["fields"] |= set(e[1:] for e in o["p"][1:] if isinstance(e, str) and e.startswith(".") and not e[1:].isdigit())
                            st.append(o["p"][0])
                        elif "c" in o:
                            out["consts"].append((f, bb, o["c"]))
                elif len(x["d"]) == 1:
                    out["consts"].append((f, bb, {"op": k}))
            else:
                c = x
                if c.dst and c.dst[0] != l:
                    continue     # &mut side effect, not the producer
                if c.name in TRANSPARENT_CALLS and c.args and "p" in c.args[0] and (
                        c.krate in ("core", "alloc", "std") or c.name in ("as_u64", "as_secs", "as_slice")
                        or last_seg(c.trait) in ("Clone", "Deref", "DerefMut", "AsRef", "Borrow", "Into", "From", "ToOwned", "ToString")):
                    if c.name == "new" and last_seg(c.self_adt) not in ("Secret",):
                        out["calls"].append(c)
                        continue
                    out["fields"] |= set(e[1:] for e in c.args[0]["p"][1:] if isinstance(e, str) and e.startswith(".") and not e[1:].isdigit())
                    st.append(c.args[0]["p"][0])
                else:
                    out["calls"].append(c)
        if 1 <= l <= f.nargs and not any(k2 == "stmt" for _, k2, _ in defs):
            callers = [prog.fns[p] for p in sorted(prog.redges().get(f.path, ())) if (scope is None or p in scope) and not prog.fns[p].is_test_like()]
            if not callers or f.is_closure():
                out["params"].append((f, l))
            for cf in callers:
                if f.is_closure():
                    continue
                for c in cf.live_calls():
                    if any(t.path == f.path for t in prog.call_targets(c)) and l - 1 < len(c.args):
                        a = c.args[l - 1]
                        if "p" in a:
                            out["fields"] |= set(e[1:] for e in a["p"][1:] if isinstance(e, str) and e.startswith(".") and not e[1:].isdigit())
                            producers(prog, cf, a["p"][0], scope, max_frames - 1, seen, out)
                        elif "c" in a:
                            out["consts"].append((cf, c.bb, a["c"]))
    return out
