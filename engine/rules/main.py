#!/usr/bin/env python3
"""check dispatcher: ./check <ID> [quick|thorough]"""
import importlib
import os
import sys
import traceback

HERE = os.path.dirname(os.path.abspath(__file__))
sys.path.insert(0, HERE)
import extract  # noqa: E402
import ir       # noqa: E402
import report   # noqa: E402


class Ctx:
    def __init__(self, tier, seed):
        self.tier = tier
        self.seed = seed
        self.active = "mip04"
        self._progs = {}

    def prog(self, config=None):
        config = config or self.active
        if config not in self._progs:
            self._progs[config] = ir.Program(extract.load(config))
        return self._progs[config]

    def witness(self):
        """compile the witness programs against the current tree (cached per tree hash)"""
        if not hasattr(self, "_wit"):
            import witness
            self._wit = witness.build()
        return self._wit

    def prog_with_witness(self, config=None):
        """the program facts plus the witness crate's positive-control functions"""
        config = config or self.active
        key = config + "+witness"
        if key not in self._progs:
            import witness
            facts = dict(extract.load(config))
            wf = witness.load_facts(self.witness())
            if wf is not None:
                facts["mdk_verif_witness"] = wf
            self._progs[key] = ir.Program(facts)
        return self._progs[key]

    def configs(self):
        return ["mip04"] if self.tier == "quick" else ["mip04", "default", "all"]


def selftest(pid, rep):
    """thorough tier: every self-test mutant (hand-written + confirmed seeded changes) assigned to this property must make the check fire
    on a scratch copy of /repo.  A survivor is a checker-quality signal recorded in the evidence, never a VIOLATION of mdk."""
    import subprocess
    import json as _json
    import tempfile
    out = tempfile.mktemp(prefix="selftest-", suffix=".json")
    env = dict(os.environ)
    env.pop("MDK_REPO", None)
    r = subprocess.run([sys.executable, os.path.join(extract.VERIF, "engine", "selftest", "suite.py"), "--only", pid, "-j", "10", "--json", out],
                       capture_output=True, text=True, env=env)
    res = []
    if os.path.exists(out):
        res = _json.load(open(out))
        os.remove(out)
    summ = {}
    for x in res:
        summ[x["status"]] = summ.get(x["status"], 0) + 1
    rep.extra["selftest"] = {"mutants": len(res), "summary": summ, "survivors": [x["name"] for x in res if x["status"] in ("SURVIVED", "partly")],
                             "skipped": [x["name"] for x in res if x["status"] == "skipped"], "killed": [x["name"] for x in res if x["status"] == "killed"],
                             "behaviour_preserving_refactors_silent": [x["name"] for x in res if x["status"] == "silent"],
                             "false_alarms": [x["name"] for x in res if x["status"] == "FALSE-ALARM"]}
    print("   self-test: %d mutants %s" % (len(res), summ))
    for x in res:
        if x["status"] in ("SURVIVED", "partly", "error"):
            print("   SELFTEST-SURVIVOR %s: %s" % (x["name"], x["detail"]))
        if x["status"] == "FALSE-ALARM":
            print("   SELFTEST-FALSE-ALARM %s: %s" % (x["name"], x["detail"]))


def main():
    if len(sys.argv) < 2:
        print("usage: check <ID> [quick|thorough]")
        return 2
    pid = sys.argv[1].upper()
    tier = sys.argv[2] if len(sys.argv) > 2 else os.environ.get("VERIF_TIER", "quick")
    if tier not in ("quick", "thorough"):
        tier = "quick"
    try:
        seed = int(os.environ.get("VERIF_SEED", "0"))
    except ValueError:
        seed = 0
    try:
        mod = importlib.import_module("props." + pid.lower())
    except ModuleNotFoundError as e:
        print("no check for %s (%s)" % (pid, e))
        return 2
    ctx = Ctx(tier, seed)
    rep = report.Report(pid, tier, seed)
    try:
        for cfg in ctx.configs():
            ctx.active = cfg
            rep.begin_config(cfg)
            mod.run(ctx, rep)
        if tier == "thorough":
            selftest(pid, rep)
    except extract.BuildFailed as e:
        print("BUILD FAILED: %s — no verdict" % e)
        return 2
    except Exception:
        traceback.print_exc()
        print("CHECKER ERROR in %s — no verdict" % pid)
        return 3
    return rep.finish()


if __name__ == "__main__":
    sys.exit(main())
