#!/usr/bin/env python3
"""check dispatcher: ./check <ID> [quick|thorough]"""
import importlib
import os
import sys
import traceback

HERE = os.path.dirname(os.path.abspath(__file__))
sys.path.insert(0, HERE)
import extract  # noqa: E402
import ir       # noqa: E402
import report   # noqa: E402


class Ctx:
    def __init__(self, tier, seed):
        self.tier = tier
        self.seed = seed
        self._progs = {}

    def prog(self, config="mip04"):
        if config not in self._progs:
            self._progs[config] = ir.Program(extract.load(config))
        return self._progs[config]

    def witness(self):
        """compile the witness programs against the current tree (cached per tree hash)"""
        if not hasattr(self, "_wit"):
            import witness
            self._wit = witness.build()
        return self._wit

    def prog_with_witness(self, config="mip04"):
        """the program facts plus the witness crate's positive-control functions"""
        key = config + "+witness"
        if key not in self._progs:
            import witness
            facts = dict(extract.load(config))
            wf = witness.load_facts(self.witness())
            if wf is not None:
                facts["mdk_verif_witness"] = wf
            self._progs[key] = ir.Program(facts)
        return self._progs[key]

    def configs(self):
        return ["mip04"] if self.tier == "quick" else ["mip04", "default", "all"]


def main():
    if len(sys.argv) < 2:
        print("usage: check <ID> [quick|thorough]")
        return 2
    pid = sys.argv[1].upper()
    tier = sys.argv[2] if len(sys.argv) > 2 else os.environ.get("VERIF_TIER", "quick")
    if tier not in ("quick", "thorough"):
        tier = "quick"
    try:
        seed = int(os.environ.get("VERIF_SEED", "0"))
    except ValueError:
        seed = 0
    try:
        mod = importlib.import_module("props." + pid.lower())
    except ModuleNotFoundError as e:
        print("no check for %s (%s)" % (pid, e))
        return 2
    ctx = Ctx(tier, seed)
    rep = report.Report(pid, tier, seed)
    try:
        mod.run(ctx, rep)
    except extract.BuildFailed as e:
        print("BUILD FAILED: %s — no verdict" % e)
        return 2
    except Exception:
        traceback.print_exc()
        print("CHECKER ERROR in %s — no verdict" % pid)
        return 3
    return rep.finish()


if __name__ == "__main__":
    sys.exit(main())
