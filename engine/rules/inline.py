"""Helper inlining on the facts IR.

A rule anchored on the body of one function ("the guard dominates the write in process_welcome") must not depend on whether a
maintainer keeps that body in one piece or moves part of it into a private helper.  Before the rules run, every call to a *private
helper of the same crate* is replaced by the helper's body (recursively), so that the analysed function is the same whether or not the
helper exists.  Not inlined: public functions and trait methods (they are API / dispatch points), closures, recursive calls, every function a rule
refers to by name (those are anchors: `ensure_hydrated`, `rollback_to_epoch`, ... stay calls) — and every function that already
exists at the pinned tree (known_fns.txt): the rules were written against that structure, so only helpers introduced by a later
change are transparent.  On the unchanged tree nothing is inlined.

The standalone helper stays in the program as well (other rules enumerate all functions)."""
import copy
import glob
import os
import re

IDX = re.compile(r"^\[_(\d+)\]$")
HERE = os.path.dirname(os.path.abspath(__file__))
MAX_BLOCKS = 1500
# names too generic to identify an anchor (a *new* `FileBinding::new` is a helper like any other)
COMMON_NAMES = {"new", "default", "from", "try_from", "into", "build", "get", "set", "parse", "from_str", "as_str", "with", "of", "create", "open", "load", "save", "run", "apply", "check", "validate"}


def rule_names():
    """identifiers quoted in the rule sources: functions the rules anchor on by name are never inlined"""
    names = set()
    for p in glob.glob(os.path.join(HERE, "*.py")) + glob.glob(os.path.join(HERE, "props", "*.py")):
        if os.path.basename(p) == "inline.py":
            continue
        src = open(p).read()
        names |= set(re.findall(r"[\"']([A-Za-z_][A-Za-z0-9_]*)[\"']", src))
    return names


def _rp(pl, base):
    out = [pl[0] + base]
    for e in pl[1:]:
        if isinstance(e, str):
            m = IDX.match(e)
            out.append("[_%d]" % (int(m.group(1)) + base) if m else e)
        else:
            out.append(e)
    return out


def _ro(o, base, poff):
    if not isinstance(o, dict):
        return o
    o = dict(o)
    if "p" in o:
        o["p"] = _rp(o["p"], base)
    c = o.get("c")
    if isinstance(c, dict) and "promoted" in c:
        c = dict(c)
        c["promoted"] += poff
        o["c"] = c
    return o


def _rs(s, base, poff):
    s = dict(s)
    if "d" in s and s["d"]:
        s["d"] = _rp(s["d"], base)
    if "o" in s:
        s["o"] = [_ro(o, base, poff) for o in s["o"]]
    return s


def _rt(t, base, boff, poff):
    t = dict(t)
    for k in ("to", "u", "otherwise"):
        if k in t:
            t[k] = t[k] + boff
    if "targets" in t:
        t["targets"] = [[v, b + boff] for v, b in t["targets"]]
    if "succ" in t:
        t["succ"] = [b + boff for b in t["succ"]]
    for k in ("discr", "cond"):
        if k in t:
            t[k] = _ro(t[k], base, poff)
    for k in ("args", "ops"):
        if k in t:
            t[k] = [_ro(o, base, poff) for o in t[k]]
    for k in ("dst", "place"):
        if k in t and t[k]:
            t[k] = _rp(t[k], base)
    return t


def _calls(fd, *names):
    return any(b["t"].get("k") == "call" and b["t"].get("callee", {}).get("name") in names for b in fd["blocks"])


# helpers the rules look for by what they are, not by what they are called: a rule evaluates such a function as a unit (its decision
# table), so it stays a function wherever it is moved or however it is renamed
KEEP = [
    # C05: the non-admin whitelist predicate — a boolean function over the staged commit's queued proposals
    lambda fd: fd.get("ret") == "bool" and _calls(fd, "queued_proposals"),
]


class Inliner:
    def __init__(self, facts, deny=None):
        self.facts = facts
        self.deny = deny if deny is not None else rule_names()
        self.by_path = {}
        for crate, d in facts.items():
            for fd in d["fns"]:
                self.by_path[fd["path"]] = (crate, fd)
        self.memo = {}
        self.stack = []
        self.count = 0
        # only helpers that did not exist at the pinned tree are transparent (see gen_known_fns.py): on the unchanged tree nothing is inlined
        inv = os.path.join(HERE, "known_fns.txt")
        self.known = set(open(inv).read().split("\n")) if os.path.exists(inv) else None

    def eligible(self, crate, fd, caller_crate):
        if crate != caller_crate or fd.get("kind") == "Closure" or crate == "mdk_verif_witness":
            return False
        if fd.get("vis") == "pub" or fd.get("impl_trait") or fd.get("in_trait") or fd.get("trait_item"):
            return False
        p = fd["path"]
        if "::test_util" in p or "::tests::" in p or "::test_utils" in p:
            return False
        if fd.get("name") in self.deny and fd.get("name") not in COMMON_NAMES:
            return False
        if self.known is None or p in self.known:
            return False
        if any(k(fd) for k in KEEP):
            return False
        if len(fd["blocks"]) > 400:
            return False
        return True

    def inlined(self, path):
        if path in self.memo:
            return self.memo[path]
        crate, fd = self.by_path[path]
        if path in self.stack:
            return fd
        self.stack.append(path)
        d = fd
        changed = False
        blocks = None
        locals_ = None
        promoted = None
        debug = None
        inl_from = []
        bi = 0
        nblocks0 = len(fd["blocks"])
        while True:
            src_blocks = blocks if blocks is not None else fd["blocks"]
            if bi >= len(src_blocks) or bi >= nblocks0:
                break            # only the caller's own blocks are scanned: callee bodies arrive already inlined
            b = src_blocks[bi]
            t = b["t"]
            tgt = None
            if t.get("k") == "call" and not t.get("tail"):
                cal = t.get("callee", {})
                r = cal.get("resolved") or cal.get("path")
                if r in self.by_path and r != path and r not in self.stack:
                    gc, gd = self.by_path[r]
                    if self.eligible(gc, gd, crate):
                        g = self.inlined(r)
                        if len(src_blocks) + len(g["blocks"]) <= MAX_BLOCKS and len(t.get("args", [])) == g["nargs"]:
                            tgt = g
            if tgt is None:
                bi += 1
                continue
            if blocks is None:
                blocks = [dict(x, s=list(x["s"])) for x in fd["blocks"]]
                locals_ = list(fd["locals"])
                promoted = list(fd.get("promoted") or [])
                debug = list(fd.get("debug") or [])
                b = blocks[bi]
                t = b["t"]
            base = len(locals_)
            boff = len(blocks)
            poff = len(promoted)
            locals_.extend(tgt["locals"])
            promoted.extend(tgt.get("promoted") or [])
            for name, pl in (tgt.get("debug") or []):
                debug.append([name, _rp(pl, base)])
            # parameters := arguments
            for i, a in enumerate(t.get("args", [])):
                b["s"].append({"d": [base + i + 1], "k": "use", "o": [a], "inl": "arg"})
            cont = t.get("to")
            unw = t.get("u")
            dst = t.get("dst")
            b["t"] = {"k": "goto", "to": boff, "inl_call": {"callee": t.get("callee"), "file": t.get("file"), "line": t.get("line")}}
            for gb in tgt["blocks"]:
                nb = {"s": [_rs(s_, base, poff) for s_ in gb["s"]], "t": _rt(gb["t"], base, boff, poff)}
                if gb.get("cl"):
                    nb["cl"] = gb["cl"]
                k = nb["t"]["k"]
                if k == "return":
                    if dst:
                        nb["s"].append({"d": list(dst), "k": "use", "o": [{"p": [base], "m": 1}], "inl": "ret"})
                    nb["t"] = {"k": "goto", "to": cont} if cont is not None else {"k": "unreachable"}
                elif k == "resume" and unw is not None:
                    nb["t"] = {"k": "goto", "to": unw}
                blocks.append(nb)
            if cont is not None and dst:
                _CALLER_PROMOTED[0] = promoted
                _thread_polarity(blocks, tgt, boff, base, cont, dst)
            inl_from.append(tgt["path"])
            inl_from.extend(tgt.get("inlined_from") or [])
            changed = True
            self.count += 1
            bi += 1
        self.stack.pop()
        if changed:
            d = dict(fd)
            d["blocks"] = blocks
            d["locals"] = locals_
            d["promoted"] = promoted
            d["debug"] = debug
            d["inlined_from"] = sorted(set(inl_from))
        self.memo[path] = d
        return d


def _succ_idx(t):
    out = []
    k = t.get("k")
    if k in ("goto", "drop", "assert", "call"):
        if "to" in t:
            out.append(("to", None))
    elif k == "switch":
        for i, _ in enumerate(t["targets"]):
            out.append(("targets", i))
        out.append(("otherwise", None))
    elif k == "otherterm":
        for i, _ in enumerate(t.get("succ", [])):
            out.append(("succ", i))
    return out


def _get_succ(t, key):
    k, i = key
    if k == "targets":
        return t["targets"][i][1]
    if k == "succ":
        return t["succ"][i]
    return t[k]


def _set_succ(t, key, v):
    k, i = key
    if k == "targets":
        t["targets"] = [list(x) for x in t["targets"]]
        t["targets"][i][1] = v
    elif k == "succ":
        t["succ"] = list(t["succ"])
        t["succ"][i] = v
    else:
        t[k] = v


def _continuation_pattern(blocks, cont, dst):
    """how the caller tests the helper's result: ('q', B1, B2, ok_target, err_target) for `helper(..)?`, ('m', B, ok_target, err_target)
    for `match helper(..)` / `if let Err(..) = helper(..)`; None otherwise.  ok/err mean Ok|Some / Err|None."""
    b1 = blocks[cont]
    t1 = b1["t"]
    dl = dst[0]
    if len(dst) != 1:
        return None

    def two_way(t, zero_is_ok):
        if t.get("k") != "switch":
            return None
        tg = dict((v, b) for v, b in t["targets"])
        t0 = tg.get(0, t["otherwise"])
        t1_ = tg.get(1, t["otherwise"])
        return (t0, t1_) if zero_is_ok else (t1_, t0)
    if t1.get("k") == "call" and t1.get("callee", {}).get("name") == "branch" and t1.get("args") and "to" in t1:
        a = t1["args"][0].get("p")
        src_ok = bool(a) and (a[0] == dl or any(s_.get("k") == "use" and s_["d"] == [a[0]] and s_["o"] and s_["o"][0].get("p", [None])[0] == dl for s_ in b1["s"]))
        if src_ok and t1.get("dst"):
            b2 = blocks[t1["to"]]
            bd = t1["dst"][0]
            if any(s_.get("k") == "discr" and s_["o"] and s_["o"][0].get("p", [None])[0] == bd for s_ in b2["s"]):
                tw = two_way(b2["t"], True)      # ControlFlow: Continue = 0, Break = 1
                if tw:
                    return ("q", cont, t1["to"], tw[0], tw[1])
    for s_ in b1["s"]:
        if s_.get("k") == "discr" and s_["o"] and s_["o"][0].get("p", [None]) == [dl]:
            adt = s_.get("adt") or ""
            if adt.endswith("::Result"):
                tw = two_way(t1, True)           # Ok = 0, Err = 1
            elif adt.endswith("::Option"):
                tw = two_way(t1, False)          # None = 0, Some = 1
            else:
                tw = None
            if tw and t1.get("k") == "switch" and t1["discr"].get("p", [None])[0] == s_["d"][0]:
                return ("m", cont, None, tw[0], tw[1])
    return None


_CALLER_PROMOTED = [None]


def _thread_polarity(blocks, g, boff, base, cont, dst):
    """keep the correlation between *how* the inlined helper returns and what the caller's test of its result does next: returns that
    assign Ok / Some go on to the Continue side only, returns that assign Err / None (or propagate a residual) to the Break side only.
    Without this the helper's return paths would merge before the caller's `?`, and every dominance argument through the helper
    (a guard inside it protects what follows the call) would see an infeasible path from the refusal to the protected code."""
    ret = g.get("ret") or ""
    if not (ret.startswith("core::result::Result") or ret.startswith("core::option::Option")):
        return
    pat = _continuation_pattern(blocks, cont, dst)
    if pat is None:
        return
    n = len(g["blocks"])
    # polarity of the blocks that define the return place (callee-local indices)
    pol = {}
    defs0 = set()
    for i, gb in enumerate(g["blocks"]):
        for s_ in gb["s"]:
            if s_.get("d") and s_["d"][0] == 0:
                defs0.add(i)
                if s_["d"] == [0] and s_.get("k") == "agg" and (s_.get("adt") or "").endswith(("::Result", "::Option")):
                    pol[i] = "ok" if s_.get("variant") in ("Ok", "Some") else "err"
        t = gb["t"]
        if t.get("k") == "call" and t.get("dst") and t["dst"][0] == 0:
            defs0.add(i)
            if t["dst"] == [0] and t.get("callee", {}).get("name") == "from_residual":
                pol[i] = "err"
    if not pol:
        return
    succ = {}
    for i, gb in enumerate(g["blocks"]):
        succ[i] = [_get_succ(gb["t"], k) for k in _succ_idx(gb["t"])]

    def reach(starts):
        seen, st = set(), list(starts)
        while st:
            x = st.pop()
            if x in seen:
                continue
            seen.add(x)
            st.extend(succ.get(x, []))
        return seen
    # the payload of an Ok / Some return, when it is a constant fieldless variant of a workspace enum (`Ok(Outcome::Evicted)`): the
    # caller's test of that value (`== Outcome::Evicted`) is decided per return site as well, one level below the Ok / Err polarity
    var = {}
    for i, q in pol.items():
        if q != "ok":
            continue
        blk = g["blocks"][i]["s"]
        for s_ in blk:
            if s_.get("d") == [0] and s_.get("k") == "agg" and s_.get("variant") in ("Ok", "Some") and len(s_.get("o", [])) == 1 and "p" in s_["o"][0] and len(s_["o"][0]["p"]) == 1:
                src = s_["o"][0]["p"][0]
                for s2 in blk:
                    if s2.get("d") == [src] and s2.get("k") == "agg" and not s2.get("o") and s2.get("adt") and not s2["adt"].startswith(("core::", "alloc::", "std::")):
                        var[i] = (s2["adt"], s2["variant"])
    promoted = g.get("promoted") or []

    def decided_target(tgt, adt_variant):
        """tgt: block index in `blocks` reached on the Ok side.  If it compares the payload with a constant variant of the same enum
        (`eq` / `ne` on a promoted constant) and switches on the outcome, a specialised copy that goes straight to the decided side."""
        tb = blocks[tgt]
        t = tb["t"]
        if t.get("k") != "call" or t.get("callee", {}).get("name") not in ("eq", "ne") or "to" not in t or len(t.get("args", [])) != 2:
            return None
        # the constant operand: a local assigned from a promoted constant in this very block
        const_variant = None
        caller_promoted = _CALLER_PROMOTED[0] or []
        for a_ in t["args"]:
            if "p" not in a_:
                continue
            # the argument, or what it is a reference to / copy of within this block
            names, grew = {a_["p"][0]}, True
            while grew:
                grew = False
                for s_ in tb["s"]:
                    if s_.get("d") and s_["d"][0] in names and s_.get("k") in ("use", "ref", "cast") and s_.get("o") and "p" in s_["o"][0] and s_["o"][0]["p"][0] not in names:
                        names.add(s_["o"][0]["p"][0])
                        grew = True
            for s_ in tb["s"]:
                c_ = s_.get("o", [{}])[0].get("c") if s_.get("o") and isinstance(s_["o"][0], dict) else None
                if s_.get("d") and s_["d"][0] in names and isinstance(c_, dict) and "promoted" in c_ and c_["promoted"] < len(caller_promoted):
                    items = caller_promoted[c_["promoted"]]
                    if len(items) == 1 and isinstance(items[0], dict) and items[0].get("agg") == adt_variant[0]:
                        const_variant = items[0].get("variant")
        if const_variant is None:
            return None
        nb = blocks[t["to"]]
        nt = nb["t"]
        if nt.get("k") != "switch" or "p" not in nt.get("discr", {}) or nt["discr"]["p"] != [t["dst"][0]] if t.get("dst") else True:
            return None
        same = adt_variant[1] == const_variant
        val = int(same if t["callee"]["name"] == "eq" else not same)
        nxt = None
        for v_, b_ in nt["targets"]:
            if v_ == val:
                nxt = b_
        if nxt is None:
            nxt = nt["otherwise"]
        c1 = copy.deepcopy(tb)
        c1["s"] = c1["s"] + [{"d": [t["dst"][0]], "k": "use", "o": [{"c": {"ty": "bool", "int": val}}], "inl": "decided"}] + copy.deepcopy(nb["s"])
        c1["t"] = {"k": "goto", "to": nxt, "inl": "threaded"}
        blocks.append(c1)
        return len(blocks) - 1

    def thread_group(good, target):
        epi = set()
        for x in good:
            epi |= reach(succ[x])
        # specialised continuation
        if pat[0] == "q":
            c1 = copy.deepcopy(blocks[pat[1]])
            c2 = copy.deepcopy(blocks[pat[2]])
            i1 = len(blocks)
            blocks.append(c1)
            i2 = len(blocks)
            blocks.append(c2)
            c1["t"]["to"] = i2
            c2["t"] = {"k": "goto", "to": target, "inl": "threaded"}
            entry = i1
        else:
            c1 = copy.deepcopy(blocks[pat[1]])
            entry = len(blocks)
            blocks.append(c1)
            c1["t"] = {"k": "goto", "to": target, "inl": "threaded"}
        # clone the epilogue
        cmap = {}
        for y in sorted(epi):
            cmap[y] = len(blocks)
            blocks.append(copy.deepcopy(blocks[boff + y]))
        for y, ny in cmap.items():
            nb = blocks[ny]
            t = nb["t"]
            if g["blocks"][y]["t"].get("k") == "return":
                # the copied block already ends with `dst = ret; goto cont`: send it to the specialised continuation
                nb["t"] = {"k": "goto", "to": entry}
                continue
            for k in _succ_idx(t):
                tv = _get_succ(t, k)
                if tv - boff in cmap and boff <= tv < boff + n:
                    _set_succ(t, k, cmap[tv - boff])
        for x in good:
            t = blocks[boff + x]["t"]
            for k in _succ_idx(t):
                tv = _get_succ(t, k)
                if boff <= tv < boff + n and (tv - boff) in cmap:
                    _set_succ(t, k, cmap[tv - boff])

    # epilogue of a defining block: what follows it, provided the return place is not written again on the way
    for p_ in ("ok", "err"):
        xs = [i for i, q in pol.items() if q == p_]
        if not xs:
            continue
        good = []
        for x in xs:
            e = reach(succ[x])
            if e & defs0 or not any(g["blocks"][y]["t"].get("k") == "return" for y in e):
                continue
            good.append(x)
        if not good:
            continue
        target = pat[3] if p_ == "ok" else pat[4]
        if p_ == "ok" and any(x in var for x in good):
            # one continuation per constant payload (its test decided), one for the rest
            groups = {}
            for x in good:
                groups.setdefault(var.get(x), []).append(x)
            # (each group gets its own copy of its epilogue, so a return block shared by several sites is no obstacle)
            for k, v in groups.items():
                tgt = decided_target(target, k) if k is not None else None
                thread_group(v, tgt if tgt is not None else target)
            continue
        thread_group(good, target)


def apply(facts, deny=None):
    """facts with every eligible helper call inlined (the input is not modified)"""
    inl = Inliner(facts, deny)
    out = {}
    for crate, d in facts.items():
        nd = dict(d)
        nd["fns"] = [inl.inlined(fd["path"]) for fd in d["fns"]]
        out[crate] = nd
    if inl.count:
        # a helper whose every call site was replaced by its body lives on in its callers only: the standalone copy would be analysed
        # out of context (its guard, lock or transaction is in the caller)
        still_called = set()
        for crate, d in out.items():
            for fd in d["fns"]:
                for b in fd["blocks"]:
                    t = b["t"]
                    if t.get("k") == "call":
                        cal = t.get("callee", {})
                        still_called.add(cal.get("resolved") or cal.get("path"))
                    for s_ in b["s"]:
                        for o in s_.get("o", []):
                            c = o.get("c") if isinstance(o, dict) else None
                            if isinstance(c, dict) and c.get("fn"):
                                still_called.add(c["fn"])
                    for a in t.get("args", []) if t.get("k") == "call" else []:
                        c = a.get("c") if isinstance(a, dict) else None
                        if isinstance(c, dict) and c.get("fn"):
                            still_called.add(c["fn"])
        inlined_somewhere = set()
        for crate, d in out.items():
            for fd in d["fns"]:
                inlined_somewhere |= set(fd.get("inlined_from") or [])
        dropped = set()
        for crate, d in out.items():
            keep = []
            for fd in d["fns"]:
                if fd["path"] in inlined_somewhere and fd["path"] not in still_called and inl.eligible(crate, inl.by_path[fd["path"]][1], crate):
                    dropped.add(fd["path"])
                else:
                    keep.append(fd)
            d["fns"] = keep
        if dropped:
            # the closures of a folded helper now belong to the function it was folded into (first host in path order; a helper folded
            # into several callers has one closure body shared by all of them)
            host_of = {}
            for crate, d in out.items():
                for fd in sorted(d["fns"], key=lambda x: (x.get("kind") == "Closure", x["path"])):
                    for h in fd.get("inlined_from") or []:
                        if h in dropped and h not in host_of:
                            host_of[h] = fd
            for crate, d in out.items():
                fns = []
                for fd in d["fns"]:
                    if fd.get("kind") == "Closure" and (fd.get("root") in host_of or fd.get("parent") in host_of):
                        fd = dict(fd)
                        for _ in range(4):
                            if fd.get("parent") in host_of:
                                fd["parent"] = host_of[fd["parent"]]["path"]
                            if fd.get("root") in host_of:
                                h = host_of[fd["root"]]
                                fd["root"] = h.get("root") if h.get("kind") == "Closure" and h.get("root") else h["path"]
                    fns.append(fd)
                d["fns"] = fns
    return out, inl.count
