"""Helper inlining on the facts IR.

A rule anchored on the body of one function ("the guard dominates the write in process_welcome") must not depend on whether a
maintainer keeps that body in one piece or moves part of it into a private helper.  Before the rules run, every call to a *private
helper of the same crate* is replaced by the helper's body (recursively), so that the analysed function is the same whether or not the
helper exists.  Not inlined: public functions and trait methods (they are API / dispatch points), closures, recursive calls, every function a rule
refers to by name (those are anchors: `ensure_hydrated`, `rollback_to_epoch`, ... stay calls) — and every function that already
exists at the pinned tree (known_fns.txt): the rules were written against that structure, so only helpers introduced by a later
change are transparent.  On the unchanged tree nothing is inlined.

The standalone helper stays in the program as well (other rules enumerate all functions)."""
import copy
import glob
import os
import re

IDX = re.compile(r"^\[_(\d+)\]$")
HERE = os.path.dirname(os.path.abspath(__file__))
MAX_BLOCKS = 1500


def rule_names():
    """identifiers quoted in the rule sources: functions the rules anchor on by name are never inlined"""
    names = set()
    for p in glob.glob(os.path.join(HERE, "*.py")) + glob.glob(os.path.join(HERE, "props", "*.py")):
        if os.path.basename(p) == "inline.py":
            continue
        src = open(p).read()
        names |= set(re.findall(r"[\"']([A-Za-z_][A-Za-z0-9_]*)[\"']", src))
    return names


def _rp(pl, base):
    out = [pl[0] + base]
    for e in pl[1:]:
        if isinstance(e, str):
            m = IDX.match(e)
            out.append("[_%d]" % (int(m.group(1)) + base) if m else e)
        else:
            out.append(e)
    return out


def _ro(o, base, poff):
    if not isinstance(o, dict):
        return o
    o = dict(o)
    if "p" in o:
        o["p"] = _rp(o["p"], base)
    c = o.get("c")
    if isinstance(c, dict) and "promoted" in c:
        c = dict(c)
        c["promoted"] += poff
        o["c"] = c
    return o


def _rs(s, base, poff):
    s = dict(s)
    if "d" in s and s["d"]:
        s["d"] = _rp(s["d"], base)
    if "o" in s:
        s["o"] = [_ro(o, base, poff) for o in s["o"]]
    return s


def _rt(t, base, boff, poff):
    t = dict(t)
    for k in ("to", "u", "otherwise"):
        if k in t:
            t[k] = t[k] + boff
    if "targets" in t:
        t["targets"] = [[v, b + boff] for v, b in t["targets"]]
    if "succ" in t:
        t["succ"] = [b + boff for b in t["succ"]]
    for k in ("discr", "cond"):
        if k in t:
            t[k] = _ro(t[k], base, poff)
    for k in ("args", "ops"):
        if k in t:
            t[k] = [_ro(o, base, poff) for o in t[k]]
    for k in ("dst", "place"):
        if k in t and t[k]:
            t[k] = _rp(t[k], base)
    return t


class Inliner:
    def __init__(self, facts, deny=None):
        self.facts = facts
        self.deny = deny if deny is not None else rule_names()
        self.by_path = {}
        for crate, d in facts.items():
            for fd in d["fns"]:
                self.by_path[fd["path"]] = (crate, fd)
        self.memo = {}
        self.stack = []
        self.count = 0
        # only helpers that did not exist at the pinned tree are transparent (see gen_known_fns.py): on the unchanged tree nothing is inlined
        inv = os.path.join(HERE, "known_fns.txt")
        self.known = set(open(inv).read().split("\n")) if os.path.exists(inv) else None

    def eligible(self, crate, fd, caller_crate):
        if crate != caller_crate or fd.get("kind") == "Closure" or crate == "mdk_verif_witness":
            return False
        if fd.get("vis") == "pub" or fd.get("impl_trait") or fd.get("in_trait") or fd.get("trait_item"):
            return False
        p = fd["path"]
        if "::test_util" in p or "::tests::" in p or "::test_utils" in p:
            return False
        if fd.get("name") in self.deny:
            return False
        if self.known is None or p in self.known:
            return False
        if len(fd["blocks"]) > 400:
            return False
        return True

    def inlined(self, path):
        if path in self.memo:
            return self.memo[path]
        crate, fd = self.by_path[path]
        if path in self.stack:
            return fd
        self.stack.append(path)
        d = fd
        changed = False
        blocks = None
        locals_ = None
        promoted = None
        debug = None
        inl_from = []
        bi = 0
        nblocks0 = len(fd["blocks"])
        while True:
            src_blocks = blocks if blocks is not None else fd["blocks"]
            if bi >= len(src_blocks) or bi >= nblocks0:
                break            # only the caller's own blocks are scanned: callee bodies arrive already inlined
            b = src_blocks[bi]
            t = b["t"]
            tgt = None
            if t.get("k") == "call" and not t.get("tail"):
                cal = t.get("callee", {})
                r = cal.get("resolved") or cal.get("path")
                if r in self.by_path and r != path and r not in self.stack:
                    gc, gd = self.by_path[r]
                    if self.eligible(gc, gd, crate):
                        g = self.inlined(r)
                        if len(src_blocks) + len(g["blocks"]) <= MAX_BLOCKS and len(t.get("args", [])) == g["nargs"]:
                            tgt = g
            if tgt is None:
                bi += 1
                continue
            if blocks is None:
                blocks = [dict(x, s=list(x["s"])) for x in fd["blocks"]]
                locals_ = list(fd["locals"])
                promoted = list(fd.get("promoted") or [])
                debug = list(fd.get("debug") or [])
                b = blocks[bi]
                t = b["t"]
            base = len(locals_)
            boff = len(blocks)
            poff = len(promoted)
            locals_.extend(tgt["locals"])
            promoted.extend(tgt.get("promoted") or [])
            for name, pl in (tgt.get("debug") or []):
                debug.append([name, _rp(pl, base)])
            # parameters := arguments
            for i, a in enumerate(t.get("args", [])):
                b["s"].append({"d": [base + i + 1], "k": "use", "o": [a], "inl": "arg"})
            cont = t.get("to")
            unw = t.get("u")
            dst = t.get("dst")
            b["t"] = {"k": "goto", "to": boff, "inl_call": {"callee": t.get("callee"), "file": t.get("file"), "line": t.get("line")}}
            for gb in tgt["blocks"]:
                nb = {"s": [_rs(s_, base, poff) for s_ in gb["s"]], "t": _rt(gb["t"], base, boff, poff)}
                if gb.get("cl"):
                    nb["cl"] = gb["cl"]
                k = nb["t"]["k"]
                if k == "return":
                    if dst:
                        nb["s"].append({"d": list(dst), "k": "use", "o": [{"p": [base], "m": 1}], "inl": "ret"})
                    nb["t"] = {"k": "goto", "to": cont} if cont is not None else {"k": "unreachable"}
                elif k == "resume" and unw is not None:
                    nb["t"] = {"k": "goto", "to": unw}
                blocks.append(nb)
            inl_from.append(tgt["path"])
            inl_from.extend(tgt.get("inlined_from") or [])
            changed = True
            self.count += 1
            bi += 1
        self.stack.pop()
        if changed:
            d = dict(fd)
            d["blocks"] = blocks
            d["locals"] = locals_
            d["promoted"] = promoted
            d["debug"] = debug
            d["inlined_from"] = sorted(set(inl_from))
        self.memo[path] = d
        return d


def apply(facts, deny=None):
    """facts with every eligible helper call inlined (the input is not modified)"""
    inl = Inliner(facts, deny)
    out = {}
    for crate, d in facts.items():
        nd = dict(d)
        nd["fns"] = [inl.inlined(fd["path"]) for fd in d["fns"]]
        out[crate] = nd
    if inl.count:
        # a helper whose every call site was replaced by its body lives on in its callers only: the standalone copy would be analysed
        # out of context (its guard, lock or transaction is in the caller)
        still_called = set()
        for crate, d in out.items():
            for fd in d["fns"]:
                for b in fd["blocks"]:
                    t = b["t"]
                    if t.get("k") == "call":
                        cal = t.get("callee", {})
                        still_called.add(cal.get("resolved") or cal.get("path"))
                    for s_ in b["s"]:
                        for o in s_.get("o", []):
                            c = o.get("c") if isinstance(o, dict) else None
                            if isinstance(c, dict) and c.get("fn"):
                                still_called.add(c["fn"])
                    for a in t.get("args", []) if t.get("k") == "call" else []:
                        c = a.get("c") if isinstance(a, dict) else None
                        if isinstance(c, dict) and c.get("fn"):
                            still_called.add(c["fn"])
        inlined_somewhere = set()
        for crate, d in out.items():
            for fd in d["fns"]:
                inlined_somewhere |= set(fd.get("inlined_from") or [])
        for crate, d in out.items():
            d["fns"] = [fd for fd in d["fns"] if not (fd["path"] in inlined_somewhere and fd["path"] not in still_called
                                                      and inl.eligible(crate, inl.by_path[fd["path"]][1], crate))]
    return out, inl.count
