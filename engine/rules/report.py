"""Obligation bookkeeping, KNOWN-FINDING matching, evidence and VIOLATION output."""
import json
import os
import sys
import time

VERIF = os.path.dirname(os.path.dirname(os.path.dirname(os.path.abspath(__file__))))
KNOWN_FILE = os.path.join(VERIF, "KNOWN_FINDINGS.txt")


def load_known():
    known = {}
    if os.path.exists(KNOWN_FILE):
        for line in open(KNOWN_FILE):
            line = line.strip()
            if not line.startswith("known:"):
                continue
            parts = line[len("known:"):].split()
            kv = dict(p.split("=", 1) for p in parts[:2] if "=" in p)
            if "property" in kv and "key" in kv:
                known[(kv["property"], kv["key"])] = " ".join(parts[2:])
    return known


class Report:
    def __init__(self, prop, tier="quick", seed=0):
        self.prop = prop
        self.tier = tier
        self.seed = seed
        self.t0 = time.time()
        self.obligations = []   # dicts: rule, key, status, detail, loc
        self.floors = {}        # anchor -> minimum number of instances the rule needs (counts holds what was found)
        self.notes = []
        self.counts = {}
        self.clauses = []
        self.not_decided = ""
        self.assumptions = []
        self.extra = {}
        self.fns_analysed = 0
        self.config = "mip04"
        self.configs_run = []

    # ---- recording ----
    def begin_config(self, cfg):
        self.config = cfg
        self.configs_run.append(cfg)
        self._clauses_seen = set(self.clauses)

    def clause(self, text):
        if text not in self.clauses:
            self.clauses.append(text)

    def ok(self, rule, instance, detail="", loc=None):
        self.obligations.append({"rule": rule, "key": "%s/%s/%s" % (self.prop, rule, instance), "status": "ok",
                                 "detail": detail, "loc": loc, "config": self.config})

    def violation(self, rule, instance, what, loc=None, path=None):
        self.obligations.append({"rule": rule, "key": "%s/%s/%s" % (self.prop, rule, instance), "status": "violation",
                                 "detail": what, "loc": loc, "path": path, "config": self.config})

    def check(self, cond, rule, instance, ok_detail, bad_detail, loc=None, path=None):
        if cond:
            self.ok(rule, instance, ok_detail, loc)
        else:
            self.violation(rule, instance, bad_detail, loc, path)
        return cond

    def floor(self, rule, what, n, minimum):
        """non-vacuity: a rule that matched fewer instances than the floor fails closed"""
        self.counts["%s:%s" % (rule, what)] = n
        self.floors["%s:%s" % (rule, what)] = minimum
        if n < minimum:
            self.violation(rule, "anchor-missing:%s" % what,
                           "rule anchor '%s' matched %d instance(s), needs >= %d: the mechanism this clause is anchored on "
                           "is gone, so the clause cannot be established" % (what, n, minimum))

    def note(self, text):
        self.notes.append(text)

    # ---- finish ----
    def finish(self):
        known = load_known()
        viol = []
        knownf = []
        for o in self.obligations:
            if o["status"] != "violation":
                continue
            k = (self.prop, o["key"])
            if k in known:
                o["status"] = "known"
                knownf.append(o)
            else:
                viol.append(o)
        wall = time.time() - self.t0
        n_ob = len(self.obligations)
        n_ok = sum(1 for o in self.obligations if o["status"] == "ok")
        samples = []
        seen_rules = set()
        for o in self.obligations:
            if o["rule"] not in seen_rules or o["status"] != "ok":
                seen_rules.add(o["rule"])
                samples.append({k: v for k, v in o.items() if v is not None})
            if len(samples) >= 40:
                break
        rules = {}
        for o in self.obligations:
            r = rules.setdefault(o["rule"], {"ok": 0, "violation": 0, "known": 0})
            r[o["status"]] += 1
        ev = {
            "property_id": self.prop,
            "tier": self.tier,
            "seed": self.seed,
            "level": "other",
            "coverage": {
                "explanation": ("STATIC ANALYSIS of /repo's current tree (MIR facts via rustc_private driver + rule engine). "
                                "Decides the named structural clauses, each a necessary condition of the property, on every CFG "
                                "path / call site — NOT the behavioural whole. Clauses decided: " + " | ".join(self.clauses)
                                + " || Not decided: " + self.not_decided),
                "obligations": n_ob,
                "discharged": n_ok,
                "known_findings": len(knownf),
                "functions_analysed": self.fns_analysed,
                "rule_instances": rules,
                "counts": self.counts,
                "anchor_floors": self.floors,
                "samples": samples,
                "notes": self.notes[:50],
                "exhaustive": True,
                "configs": self.configs_run,
            },
            "assumptions": self.assumptions + [
                "rustc's MIR construction and callee resolution are correct",
                "dependencies (openmls, nostr, rusqlite/SQLCipher, tls_codec, chacha20poly1305, hkdf) behave as documented",
                "frozen classification tables in the rule files (one reason per entry)",
            ],
            "wall_s": round(wall, 3),
            "violations": len(viol),
        }
        ev["coverage"].update(self.extra)
        evdir = os.environ.get("MDK_EVIDENCE_DIR") or os.path.join(VERIF, "evidence")
        os.makedirs(evdir, exist_ok=True)
        evp = os.path.join(evdir, "%s.json" % self.prop)
        with open(evp + ".tmp", "w") as fh:
            json.dump(ev, fh, indent=1, sort_keys=True)
        os.replace(evp + ".tmp", evp)
        # the complete list of obligations of this run (the evidence file carries counts and samples only)
        obd = os.path.join(evdir, "obligations")
        os.makedirs(obd, exist_ok=True)
        with open(os.path.join(obd, "%s.json" % self.prop), "w") as fh:
            json.dump([{k: v for k, v in o.items() if v is not None} for o in self.obligations], fh, indent=0, sort_keys=True)
        print("== %s (%s): %d obligations, %d discharged, %d known finding(s), %d violation(s), %.1fs" % (
            self.prop, self.tier, n_ob, n_ok, len(knownf), len(viol), wall))
        for r, c in sorted(rules.items()):
            print("   rule %-34s ok=%-4d known=%-2d violation=%d" % (r, c["ok"], c["known"], c["violation"]))
        for n in self.notes[:30]:
            print("   note: " + n)
        shown_k = set()
        for o in knownf:
            if o["key"] in shown_k:
                continue
            shown_k.add(o["key"])
            print("KNOWN-FINDING: property=%s %s — %s [%s]" % (self.prop, o["key"], o["detail"], o.get("loc") or ""))
        if viol:
            rp = os.path.join(evdir, "replay")
            os.makedirs(rp, exist_ok=True)
            path = os.path.join(rp, "%s.json" % self.prop)
            with open(path, "w") as fh:
                json.dump({"property": self.prop, "violations": viol}, fh, indent=1)
            shown = set()
            for o in viol:
                if o["key"] in shown:
                    continue
                shown.add(o["key"])
                print("  VIOLATED %s [%s]: %s [%s]%s" % (o["key"], o.get("config"), o["detail"], o.get("loc") or "",
                                                    (" path=" + " -> ".join(o["path"])) if o.get("path") else ""))
            print("VIOLATION property=%s replay=%s" % (self.prop, path))
            return 1
        return 0
