"""Facts extraction: runs the mdkfacts driver over /repo's *current working tree* (cargo +nightly
check with RUSTC_WORKSPACE_WRAPPER), caches the JSON facts by tree hash, and loads them."""
import fcntl
import glob
import hashlib
import json
import os
import shutil
import subprocess
import sys
import time

VERIF = os.path.dirname(os.path.dirname(os.path.dirname(os.path.abspath(__file__))))
REPO = os.environ.get("MDK_REPO", "/repo")
CACHE = os.path.join(VERIF, ".cache")
DRIVER_DIR = os.path.join(VERIF, "engine", "mdkfacts")
DRIVER = os.path.join(DRIVER_DIR, "target", "release", "mdkfacts")
CRATES = ["mdk_core", "mdk_memory_storage", "mdk_sqlite_storage", "mdk_storage_traits", "mdk_uniffi"]

CONFIGS = {
    # name -> cargo feature args
    "mip04": ["--features", "mdk-core/mip04,mdk-uniffi/mip04"],
    "default": [],
    "all": ["--features", "mdk-core/mip04,mdk-uniffi/mip04,mdk-core/debug-examples,mdk-storage-traits/test-utils"],
}


class BuildFailed(Exception):
    pass


def tree_hash(repo=None):
    repo = repo or REPO
    h = hashlib.sha256()
    files = []
    for root, dirs, fs in os.walk(os.path.join(repo, "crates")):
        dirs[:] = [d for d in dirs if d not in ("target", ".git")]
        for f in fs:
            if f.endswith((".rs", ".toml", ".sql", ".udl")):
                files.append(os.path.join(root, f))
    for f in ("Cargo.toml", "Cargo.lock", "rust-toolchain.toml"):
        p = os.path.join(repo, f)
        if os.path.exists(p):
            files.append(p)
    for p in sorted(files):
        h.update(os.path.relpath(p, repo).encode())
        h.update(b"\0")
        with open(p, "rb") as fh:
            h.update(fh.read())
        h.update(b"\0")
    # the driver's own source is part of the key (facts format changes)
    for p in sorted(glob.glob(os.path.join(DRIVER_DIR, "src", "*.rs"))):
        with open(p, "rb") as fh:
            h.update(fh.read())
    return h.hexdigest()[:24]


def sysroot_lib():
    out = subprocess.run(["rustc", "+nightly", "--print", "sysroot"], capture_output=True, text=True, check=True)
    return os.path.join(out.stdout.strip(), "lib")


def ensure_driver():
    src_m = max(os.path.getmtime(p) for p in glob.glob(os.path.join(DRIVER_DIR, "src", "*.rs")))
    if os.path.exists(DRIVER) and os.path.getmtime(DRIVER) >= src_m:
        return
    r = subprocess.run(["cargo", "build", "--release", "--offline"], cwd=DRIVER_DIR, capture_output=True, text=True,
                       env=dict(os.environ, CARGO_NET_OFFLINE="true"))
    if r.returncode != 0:
        sys.stderr.write(r.stderr[-4000:])
        raise BuildFailed("mdkfacts driver failed to build")


def driver_hash():
    """facts depend on the driver that produced them: a changed driver must not reuse cached facts"""
    h = hashlib.sha256()
    for p in sorted(glob.glob(os.path.join(DRIVER_DIR, "src", "*.rs"))):
        h.update(open(p, "rb").read())
    return h.hexdigest()[:8]


def facts_dir(config="mip04", repo=None):
    return os.path.join(CACHE, "facts", tree_hash(repo) + "-" + driver_hash(), config)


def extract(config="mip04", repo=None, quiet=False):
    """Return the directory holding one facts JSON per workspace crate for the current tree."""
    repo = repo or REPO
    os.makedirs(CACHE, exist_ok=True)
    # a complete entry (directories are renamed into place atomically) needs no lock
    out = facts_dir(config, repo)
    if all(os.path.exists(os.path.join(out, c + ".json")) for c in CRATES):
        try:
            os.utime(os.path.dirname(out))
        except OSError:
            pass
        return out
    lock = open(os.path.join(CACHE, "extract.lock"), "w")
    fcntl.flock(lock, fcntl.LOCK_EX)
    try:
        out = facts_dir(config, repo)
        if all(os.path.exists(os.path.join(out, c + ".json")) for c in CRATES):
            os.utime(os.path.dirname(out))
            return out
        ensure_driver()
        t0 = time.time()
        tmp = out + ".tmp"
        shutil.rmtree(tmp, ignore_errors=True)
        os.makedirs(tmp)
        target = os.path.join(CACHE, "target")
        # cargo's freshness cache would skip the wrapper: drop members' fingerprints
        for fp in glob.glob(os.path.join(target, "debug", ".fingerprint", "mdk-*")):
            shutil.rmtree(fp, ignore_errors=True)
        env = dict(os.environ)
        env.update({
            "LD_LIBRARY_PATH": sysroot_lib() + ":" + env.get("LD_LIBRARY_PATH", ""),
            "CARGO_NET_OFFLINE": "true",
            "RUSTFLAGS": "-Zmir-opt-level=0 -Awarnings",
            "RUSTC_WORKSPACE_WRAPPER": DRIVER,
            "CARGO_TARGET_DIR": target,
            "MDKFACTS_OUT": tmp,
        })
        env.pop("RUSTC_WRAPPER", None)
        cmd = ["cargo", "+nightly", "check", "--offline", "--workspace"] + CONFIGS[config]
        r = subprocess.run(cmd, cwd=repo, env=env, capture_output=True, text=True)
        if r.returncode != 0:
            sys.stderr.write(r.stderr[-6000:])
            raise BuildFailed("cargo check failed on %s (config %s)" % (repo, config))
        # one file per rustc process; keep the lib one per crate (largest if several)
        for c in CRATES:
            cands = [p for p in glob.glob(os.path.join(tmp, c + ".*.json")) if ".test." not in os.path.basename(p)]
            if not cands:
                raise BuildFailed("no facts written for crate %s (wrapper skipped?)" % c)
            best = max(cands, key=os.path.getsize)
            os.rename(best, os.path.join(tmp, c + ".json"))
            for p in cands:
                if p != best and os.path.exists(p):
                    os.remove(p)
        shutil.rmtree(out, ignore_errors=True)
        os.makedirs(os.path.dirname(out), exist_ok=True)
        os.rename(tmp, out)
        if not quiet:
            sys.stderr.write("[facts] extracted %s in %.1fs -> %s\n" % (config, time.time() - t0, out))
        # keep the cache bounded (15 MB per tree); enough entries that parallel self-test workers do not evict each other
        roots = sorted(glob.glob(os.path.join(CACHE, "facts", "*")), key=os.path.getmtime)
        for old in roots[:-64]:
            shutil.rmtree(old, ignore_errors=True)
        return out
    finally:
        fcntl.flock(lock, fcntl.LOCK_UN)
        lock.close()


def load(config="mip04", repo=None):
    d = extract(config, repo)
    facts = {}
    for c in CRATES:
        with open(os.path.join(d, c + ".json")) as fh:
            facts[c] = json.load(fh)
    return facts


if __name__ == "__main__":
    cfg = sys.argv[1] if len(sys.argv) > 1 else "mip04"
    try:
        print(extract(cfg))
    except BuildFailed as e:
        print("BUILD FAILED:", e)
        sys.exit(2)
