"""enum <-> string tables extracted by evaluating as_str / from_str symbolically for every variant"""
import dtable
from ir import last_seg


def variant_switch_policy(prog, f, variant_of):
    """opaque_switch that resolves a discriminant switch of an enum value tagged ("enumval", adt_last, variant)"""
    adt_of = {}
    for bb, s in f.stmts():
        if s.get("k") == "discr":
            adt_of[bb] = s.get("adt")

    def pol(bb, v, t):
        if v[0] != "discr":
            return None
        inner = v[1]
        while inner[0] == "proj":
            inner = inner[1]
        if inner[0] == "enumval":
            adt = prog.adts.get(adt_of.get(bb))
            if adt is None:
                return None
            dv = [x["discr"] for x in adt["variants"] if x["name"] == inner[2]]
            if not dv:
                return None
            for val, tb in t["targets"]:
                if val == dv[0]:
                    return tb
            return t["otherwise"]
        return None
    return pol


def as_str_table(prog, adt_last, crate="mdk_storage_traits", method="as_str"):
    """{variant: string} or raises LookupError / Undecided"""
    adt = prog.adt(adt_last, crate=crate)
    f = prog.one(adt=adt_last, name=method, crate=crate)
    out = {}
    for v in adt["variants"]:
        ev = dtable.Evaluator(f, lambda x: None, lambda a, b: None, variant_switch_policy(prog, f, None))
        res = ev.run({1: ("enumval", adt_last, v["name"])})
        if not res or res[0] != "str":
            raise dtable.Undecided("%s::%s(%s) returned %r" % (adt_last, method, v["name"], res))
        out[v["name"]] = res[1]
    return out, f


def from_str_table(prog, adt_last, strings, crate="mdk_storage_traits"):
    """{string: variant or None} by evaluating <Adt as FromStr>::from_str on each string"""
    fs = [f for f in prog.find(adt=adt_last, name="from_str", crate=crate)]
    if len(fs) != 1:
        raise LookupError("from_str for %s: %d candidates" % (adt_last, len(fs)))
    f = fs[0]
    out = {}
    for s in strings:
        ev = dtable.Evaluator(f, lambda x: None, lambda a, b: None, lambda bb, v, t: None)
        try:
            res = ev.run_all({1: ("str", s)})
        except dtable.Undecided:
            res = []
        vs = set()
        for r in res:
            if r and r[0] == "variant" and r[1] == "Result" and r[2] == "Ok" and r[3] and r[3][0][0] == "variant":
                vs.add(r[3][0][2])
            else:
                vs.add(None)
        out[s] = vs.pop() if len(vs) == 1 else None
    return out, f
