"""SQL/sibling rules shared by several properties (C02, C04, C10, C18)."""
from ir import last_seg
import predicates as P

STATE_ENUM = {"messages": "MessageState", "processed_messages": "ProcessedMessageState", "welcomes": "WelcomeState",
              "processed_welcomes": "ProcessedWelcomeState", "groups": "GroupState"}
KEYS = {("mls_group_id", "=", "?"), ("wrapper_event_id", "=", "?"), ("id", "=", "?"), ("group_id", "=", "?")}
SELECTORS = [  # (trait, method, table)
    ("MessageStorage", "invalidate_messages_after_epoch", "messages"),
    ("MessageStorage", "invalidate_processed_messages_after_epoch", "processed_messages"),
    ("MessageStorage", "find_invalidated_messages", "messages"),
    ("MessageStorage", "find_invalidated_processed_messages", "processed_messages"),
    ("MessageStorage", "find_failed_messages_for_retry", "processed_messages"),
    ("MessageStorage", "mark_processed_message_retryable", "processed_messages"),
    ("WelcomeStorage", "pending_welcomes", "welcomes"),
]
# the storage contract's selection predicates (what the trait documentation names), used as the oracle
CONTRACT = {
    "invalidate_messages_after_epoch": {("epoch", ">", "?")},
    "invalidate_processed_messages_after_epoch": {("epoch", ">", "?")},
    "find_invalidated_messages": {("state", "=", "'epoch_invalidated'")},
    "find_invalidated_processed_messages": {("state", "=", "'epoch_invalidated'")},
    "find_failed_messages_for_retry": {("state", "=", "'failed'"), ("epoch", "IS", "NULL")},
    "mark_processed_message_retryable": {("state", "=", "'failed'")},
    "pending_welcomes": {("state", "=", "'pending'")},
}


def sql_family(prog, sites, f):
    fam = set(g.path for g in prog.family(f)) if prog is not None else {f.path}
    return [s for s in sites if s.fn.path in fam or s.fn.root == f.path]


def clause_selectors(prog, rep, sites, as_strs, only=None):
    for trait, m, table in SELECTORS:
        if only is not None and m not in only:
            continue
        mem = prog.find(adt="MdkMemoryStorage", name=m, trait=trait)
        sq = prog.find(adt="MdkSqliteStorage", name=m, trait=trait)
        rep.floor("selector-siblings", "%s::%s in both backends" % (trait, m), min(len(mem), len(sq)), 1)
        if not mem or not sq:
            continue
        enum = STATE_ENUM[table]
        mp = set()
        for tr in P.preds(prog, mem[0]):
            nrm = P.normalise(tr, as_strs.get(enum, {}))
            if nrm:
                mp.add(nrm)
        mp -= KEYS
        ss = [s for s in sql_family(prog, sites, sq[0]) if s.stmt.table == table and s.stmt.kind in ("SELECT", "UPDATE", "DELETE")]
        rep.floor("selector-siblings", "%s SQL statements on %s" % (m, table), len(ss), 1)
        for s in ss:
            sp = set((c, o, r) for c, o, r in s.stmt.where if c) - KEYS
            # `epoch > ?` implies NOT NULL; memory's `if let Some(e)` has no explicit triple
            rep.check(sp == CONTRACT[m], "selector-siblings", "%s/%s %s/contract" % (m, s.stmt.kind, table),
                      "SQL predicate is the one the storage contract names: %s" % sorted(sp),
                      "SQLite %s selects by %s but the contract names %s" % (m, sorted(sp), sorted(CONTRACT[m])), s.loc())
            rep.check(sp == mp, "selector-siblings", "%s/%s %s" % (m, s.stmt.kind, table),
                      "SQL predicate %s = memory predicate" % sorted(sp),
                      "backends select different records: SQLite %s vs memory %s" % (sorted(sp), sorted(mp)), s.loc())
        rep.check(mp == CONTRACT[m], "selector-siblings", "%s/memory/contract" % m,
                  "memory predicate is the one the storage contract names: %s" % sorted(mp),
                  "memory %s selects by %s but the contract names %s" % (m, sorted(mp), sorted(CONTRACT[m])), mem[0].loc())
        # written state constants
        mw = P.state_writes(prog, mem[0])
        sw = set()
        for s in ss:
            if "state" in s.stmt.set_literals:
                inv = {v: k for k, v in as_strs.get(enum, {}).items()}
                sw.add(inv.get(s.stmt.set_literals["state"], "?" + s.stmt.set_literals["state"]))
        rep.check(mw == sw, "selector-siblings", "%s/state-written" % m, "both backends write state %s" % sorted(mw),
                  "backends write different states: SQLite %s vs memory %s" % (sorted(sw), sorted(mw)), sq[0].loc())




def clause_upserts(prog, rep, sch, sites, only_tables=None):
    n = 0
    for s in sites:
        st = s.stmt
        if st.kind != "INSERT" or not st.table or st.table not in sch.tables:
            continue
        if s.fn.root and "snapshot" in s.fn.root:
            continue
        if only_tables is not None and st.table not in only_tables:
            continue
        if st.conflict_any:
            n += 1
            rep.violation("upsert-complete", "%s/%s/conflict-target" % (last_seg(s.fn.root), st.table),
                          "ON CONFLICT DO UPDATE on %s names no conflict target: the update also fires on a collision with *another row's* unique "
                          "key (e.g. a different group holding the same nostr_group_id), overwriting that row instead of failing" % st.table, s.loc())
            continue
        if st.conflict_cols:
            n += 1
            nonkey = set(st.columns) - set(st.conflict_cols)
            rep.check(nonkey <= set(st.update_set), "upsert-complete", "%s/%s" % (last_seg(s.fn.root), st.table),
                      "ON CONFLICT DO UPDATE assigns every non-key column (lookup returns the last value saved)",
                      "upsert on %s does not update column(s) %s: a re-save keeps stale values" % (st.table, sorted(nonkey - set(st.update_set))), s.loc())
            rep.check(not getattr(st, "update_where", None), "upsert-complete", "%s/%s/unconditional" % (last_seg(s.fn.root), st.table),
                      "the update side of the upsert is unconditional", "the upsert on %s only updates rows satisfying `%s`: saving over any other row "
                      "is silently dropped (the memory backend overwrites; a lookup no longer returns the last value saved)" % (st.table, (getattr(st, "update_where", "") or "")[:80]), s.loc())
            pk = set(sch.pk(st.table))
            uniq = [set(u) for u in sch.tables[st.table]["unique"]] + [pk]
            rep.check(set(st.conflict_cols) in uniq, "upsert-complete", "%s/%s/conflict-target" % (last_seg(s.fn.root), st.table),
                      "conflict target %s is the table's key" % st.conflict_cols, "conflict target %s is not a key of %s" % (st.conflict_cols, st.table), s.loc())
            # the record's identity is its primary key: an upsert keyed by a secondary unique column would rewrite another record
            rep.check(set(st.conflict_cols) == pk, "upsert-complete", "%s/%s/conflict-target-is-pk" % (last_seg(s.fn.root), st.table),
                      "the upsert replaces only the row with the same primary key %s" % sorted(pk),
                      "upsert on %s is keyed by %s, not by the primary key %s: saving one record can overwrite a different one" % (st.table, st.conflict_cols, sorted(pk)), s.loc())
    rep.floor("upsert-complete", "ON CONFLICT upserts", n, 2 if only_tables is None else 1)
    # message key (C04.3): (mls_group_id, id)
    for s in sites:
        if s.stmt.kind == "INSERT" and s.stmt.table == "messages":
            rep.check(s.stmt.conflict_cols == ["mls_group_id", "id"] and sch.pk("messages") == ["mls_group_id", "id"], "upsert-complete", "messages/key",
                      "messages are keyed by (mls_group_id, id): id reuse across groups cannot overwrite",
                      "messages upsert key is %s / pk %s" % (s.stmt.conflict_cols, sch.pk("messages")), s.loc())




def sibling_snapshot_copy(prog, rep, sites, rule, prefix, snap_table="group_state_snapshots"):
    """the other snapshots of a group that restore reads and writes back are copied verbatim: the re-insert binds every column it
    writes from what was read (no column recomputed in SQL, e.g. created_at = now), otherwise a rollback changes the age / content
    of the snapshots that survive it"""
    import sqlmod as _sq
    rb = [s for s in sites if s.fn.root and "restore_group_from_snapshot" in s.fn.root or "restore_group_from_snapshot" in s.fn.path]
    reads = [s for s in rb if s.stmt.kind == "SELECT" and s.stmt.table == snap_table and any(c == "snapshot_name" and o in ("!=", "<>") for c, o, r in s.stmt.where)]
    writes = [s for s in rb if s.stmt.kind == "INSERT" and s.stmt.table == snap_table]
    rep.floor(rule, "%ssibling snapshot read / write-back in restore" % prefix, min(len(reads), len(writes)), 1)
    for w in writes:
        computed = [(c, v) for c, v in zip(w.stmt.columns, w.stmt.values) if v != "?"]
        read_cols = set(c for r in reads for c in r.stmt.select_cols)
        unread = [c for c in w.stmt.columns if c not in read_cols and c not in ("group_id",)]
        rep.check(not computed and not unread and len(w.stmt.values) == len(w.stmt.columns), rule, "%ssibling-snapshots-copied-verbatim" % prefix,
                  "the surviving snapshots are written back with every column as read (%s)" % w.stmt.columns,
                  "restore writes the surviving snapshots back with %s: their %s no longer is what it was before the rollback"
                  % ("; ".join(["%s = %s" % cv for cv in computed] + ["%s not read" % c for c in unread]),
                     ", ".join([c for c, v in computed] + unread)), w.loc())


CONTENT_CHANGERS = ("dedup", "dedup_by", "dedup_by_key", "sort", "sort_by", "sort_by_key", "sort_unstable", "sort_unstable_by", "sort_unstable_by_key",
                    "retain", "retain_mut", "truncate", "reverse", "trim", "trim_start", "trim_end", "trim_matches", "to_lowercase", "to_uppercase",
                    "to_ascii_lowercase", "to_ascii_uppercase", "make_ascii_lowercase", "make_ascii_uppercase", "replace", "replacen", "filter",
                    "filter_map", "take", "skip", "take_while", "skip_while", "step_by", "rev", "drain", "swap_remove", "split_off", "pop", "clear",
                    "normalize", "nfc", "nfkc", "unique")


def clause_stored_verbatim(prog, rep, sites, rule, only_tables, floor=1):
    """a save stores the record it was given: no value bound to the INSERT was produced by an operation that changes content (dedup, sort,
    retain, trim, case folding, filter ...).  The record's other columns (the id that is the hash of these fields, the embedded event
    JSON) and the memory backend keep the original, so a normalised column makes the stored row disagree with itself and with the
    other backend."""
    import analysis as A
    import os
    import sys
    sys.path.insert(0, os.path.join(os.path.dirname(os.path.abspath(__file__)), "props"))
    import c09
    n = 0
    for s in sites:
        st = s.stmt
        if st.kind != "INSERT" or st.table not in only_tables:
            continue
        if s.fn.root and ("snapshot" in s.fn.root or "restore" in s.fn.root):
            continue
        root = prog.fns.get(s.fn.root, s.fn)
        scope = set(g.path for g in prog.family(root))
        for l in c09.bound_param_locals(s.fn, s):
            n += 1
            og = A.origins(prog, s.fn, l, scope=scope, max_frames=2)
            bad = sorted(set(x.name for x in og.calls if x.name in CONTENT_CHANGERS and x.krate in ("core", "alloc", "std", "nostr", "itertools")))
            # in-place changes (`let mut t = record.tags.clone(); t.dedup();`): a content-changing call on a `&mut` borrow of a value that
            # derives from the record argument, anywhere in the save method
            for q in sorted(scope):
                g = prog.fns[q]
                for c in g.live_calls():
                    if c.name not in CONTENT_CHANGERS or c.krate not in ("core", "alloc", "std", "nostr", "itertools") or not c.args or "p" not in c.args[0]:
                        continue
                    r = c.args[0]["p"][0]
                    borrowed = [x["o"][0]["p"][0] for bb, kind, x in g.defs().get(r, []) if kind == "stmt" and x.get("k") == "ref" and x.get("mutb") == 1 and x["o"] and "p" in x["o"][0]]
                    for b in borrowed:
                        dep, _, _ = g.depends_on(b)
                        if any(2 <= d <= g.nargs for d in dep) and not g.is_closure():
                            bad.append("%s (in place)" % c.name)
            bad = sorted(set(bad))
            rep.check(not bad, rule, "stored-verbatim/%s/%s" % (last_seg(root.path), st.table),
                      "every value bound to the INSERT into %s is the record's own (serialised as is)" % st.table,
                      "%s changes the record before storing it (%s on the way to the bound values): the stored %s row no longer carries what it "
                      "was given — it disagrees with the id / embedded event stored next to it and with the memory backend" % (root.label(), ", ".join(bad), st.table), s.loc())
    rep.floor(rule, "bound parameter lists of save statements (%s)" % ", ".join(sorted(only_tables)), n, floor)

