"""Shared predicates and anchors used by several property rule files."""
from ir import last_seg

LIB_CRATES = ("mdk_core", "mdk_memory_storage", "mdk_sqlite_storage", "mdk_storage_traits")


def api_boundary(f):
    """a function the application can call directly: public, not a closure"""
    return (not f.is_closure()) and f.is_pub()


def core_scope(prog):
    return set(f.path for f in prog.nontest_fns(("mdk_core",)))


def is_storage_trait_call(c, *names):
    """call to an mdk-storage-traits trait method (by name), regardless of which backend resolves it"""
    if c.name not in names:
        return False
    t = c.trait or ""
    if t.startswith("mdk_storage_traits::"):
        return True
    # resolved impl in a backend
    return False


def is_mls_call(c, *names):
    return c.name in names and last_seg(c.self_adt) == "MlsGroup" and (c.krate or "").startswith("openmls")


def entry_label(chain, fallback):
    return chain[0] if chain else fallback


def pure_lookup_calls(prog, f, lookup_name):
    """calls in f that perform the named storage lookup — directly, or through a helper that does nothing but look up
    (reaches the lookup, reaches no storage write and no MLS group call)"""
    import analysis as A
    look = A.ReachCache(prog, lambda c: is_storage_trait_call(c, lookup_name))
    effect = A.ReachCache(prog, lambda c: ((c.trait or "").startswith("mdk_storage_traits::") and c.name.startswith(("save_", "replace_", "invalidate_", "mark_", "delete_", "create_", "rollback_", "release_")))
                          or (last_seg(c.self_adt) == "MlsGroup"))
    return [c for c in f.live_calls() if look.call(c) and not effect.call(c)]
