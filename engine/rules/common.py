"""Shared predicates and anchors used by several property rule files."""
from ir import last_seg

LIB_CRATES = ("mdk_core", "mdk_memory_storage", "mdk_sqlite_storage", "mdk_storage_traits")


def api_boundary(f):
    """a function the application can call directly: public, not a closure"""
    return (not f.is_closure()) and f.is_pub()


def core_scope(prog):
    return set(f.path for f in prog.nontest_fns(("mdk_core",)))


def is_storage_trait_call(c, *names):
    """call to an mdk-storage-traits trait method (by name), regardless of which backend resolves it"""
    if c.name not in names:
        return False
    t = c.trait or ""
    if t.startswith("mdk_storage_traits::"):
        return True
    # resolved impl in a backend
    return False


def is_mls_call(c, *names):
    return c.name in names and last_seg(c.self_adt) == "MlsGroup" and (c.krate or "").startswith("openmls")


def entry_label(chain, fallback):
    return chain[0] if chain else fallback


def pure_lookup_calls(prog, f, lookup_name):
    """calls in f that perform the named storage lookup — directly, or through a helper that does nothing but look up
    (reaches the lookup, reaches no storage write and no MLS group call)"""
    import analysis as A
    look = A.ReachCache(prog, lambda c: is_storage_trait_call(c, lookup_name))
    effect = A.ReachCache(prog, lambda c: ((c.trait or "").startswith("mdk_storage_traits::") and c.name.startswith(("save_", "replace_", "invalidate_", "mark_", "delete_", "create_", "rollback_", "release_")))
                          or (last_seg(c.self_adt) == "MlsGroup"))
    return [c for c in f.live_calls() if look.call(c) and not effect.call(c)]


def _param_names(f):
    names = {}
    for name, pl in f.debug:
        if len(pl) == 1 and 1 <= pl[0] <= f.nargs:
            names[pl[0]] = name
    return names


def _arg_name(prog, f, a):
    """the name under which the caller knows an argument: the last named field of the place, the single field it is a copy of, or
    the debug name of the local"""
    import analysis as A
    if "p" not in a:
        return None
    flds = [e[1:] for e in a["p"][1:] if isinstance(e, str) and e.startswith(".") and not e[1:].isdigit()]
    if flds:
        return flds[-1]
    pr = A.producers(prog, f, a["p"][0], scope=set(), max_frames=0)
    if len(pr["fields"]) == 1 and not pr["calls"]:
        return list(pr["fields"])[0]
    for l in A.copy_sources(f, a["p"][0]):
        if isinstance(l, int):
            for name, pl in f.debug:
                if pl == [l]:
                    return name
    return None


def clause_swapped_args(prog, rep, rule, file_pred, floor):
    """calls to workspace functions in the given files: two arguments of the same type whose names are each other's parameter names
    (callee(mime_type, filename) called with (filename, mime_type)) are a swap.  Counted as examined: call sites where at least two
    same-typed arguments are named exactly like their own parameters (the sites where a swap would be visible)."""
    n = 0
    for f in prog.nontest_fns(("mdk_core", "mdk_memory_storage", "mdk_sqlite_storage", "mdk_storage_traits", "mdk_uniffi")):
        if not file_pred(f.file or ""):
            continue
        for c in f.live_calls():
            ts = [t for t in prog.call_targets(c) if t.crate.startswith("mdk_") and not t.is_closure()]
            if len(ts) != 1:
                continue
            t = ts[0]
            pn = _param_names(t)
            if len(pn) < 2:
                continue
            an = {i + 1: _arg_name(prog, f, a) for i, a in enumerate(c.args)}
            if any(i < j and an[i] and an[j] and an[i] == pn.get(i) and an[j] == pn.get(j) and t.locals[i] == t.locals[j] for i in an for j in an):
                n += 1
            for i in an:
                for j in an:
                    if i < j and an[i] and an[j] and pn.get(i) and pn.get(j) and an[i] == pn[j] and an[j] == pn[i] and an[i] != an[j] and t.locals[i] == t.locals[j]:
                        rep.violation(rule, "swapped-arguments/%s->%s/%s,%s" % (prog.fns.get(f.root, f).label(), t.label(), pn[i], pn[j]),
                                      "%s passes `%s` as the `%s` parameter and `%s` as the `%s` parameter of %s (both %s): the two values are swapped"
                                      % (f.label(), an[i], pn[i], an[j], pn[j], t.label(), t.locals[i]), c.loc())
    rep.floor(rule, "call sites with two same-typed arguments named like their parameters", n, floor)
    if n:
        rep.ok(rule, "swapped-arguments", "%d call sites: every argument named like a parameter is passed in that parameter's position" % n)
