"""C20 — rollback snapshots stay bounded in number and age (structural clauses)."""
from ir import last_seg
import analysis as A
import common as K
import sqlmod
import sqlrules
import predicates as P


def mgr_fns(prog):
    return [f for f in prog.nontest_fns(("mdk_core",)) if last_seg(f.self_adt) == "EpochSnapshotManager" or
            (f.is_closure() and "EpochSnapshotManager" in f.root)]


def clause_who_creates(prog, rep):
    sites = prog.all_calls(lambda c: K.is_storage_trait_call(c, "create_group_snapshot"), crates=("mdk_core", "mdk_uniffi"))
    rep.floor("only-manager-creates", "create_group_snapshot call sites", len(sites), 1)
    for c in sites:
        root = prog.fns.get(c.fn.root, c.fn)
        rep.check(last_seg(root.self_adt) == "EpochSnapshotManager", "only-manager-creates", root.label(),
                  "storage snapshots are created only by the snapshot manager (which tracks and prunes them)",
                  "a storage snapshot is created outside EpochSnapshotManager (%s): it is never counted against the retention bound" % root.label(), c.loc())


def retention_compare_blocks(f):
    """blocks comparing VecDeque::len() with the retention_count field"""
    out = set()
    for bb, s in f.stmts():
        if s.get("k") == "binop" and s["op"] in ("Gt", "Lt", "Ge", "Le"):
            descs = []
            for o in s["o"]:
                if "p" not in o:
                    descs.append("lit")
                    continue
                locs, places = P.chain_locals(f, o["p"][0])
                flds = [e for pl in [o["p"]] + places for e in pl[1:] if isinstance(e, str)]
                dep, calls, _ = f.depends_on(o["p"][0], call_filter=lambda c: c.name in ("deref", "deref_mut"))
                if ".retention_count" in flds:
                    descs.append("retention")
                elif any(c.name == "len" and last_seg(c.self_adt) == "VecDeque" for c in calls):
                    descs.append("len")
                else:
                    descs.append("other")
            if sorted(descs) == ["len", "retention"]:
                # len > retention  (or retention < len)
                # len > / >= retention (or mirrored): both keep at most `retention` entries
                strict = (s["op"] in ("Gt", "Ge") and descs == ["len", "retention"]) or (s["op"] in ("Lt", "Le") and descs == ["retention", "len"])
                if not strict:
                    continue
                out.add((bb, strict))
    return out


def excess_drains(prog, f):
    """the other spelling of the prune step: `let excess = queue.len().saturating_sub(self.retention_count); for s in queue.drain(..excess) { release }`
    — drain calls on the queue whose range end is len - retention_count"""
    out = []
    for c in f.live_calls():
        if c.name != "drain" or last_seg(c.self_adt) != "VecDeque" or len(c.args) < 2 or "p" not in c.args[1]:
            continue
        og = A.origins(prog, f, c.args[1]["p"][0], scope=None, max_frames=0)
        subs = [x for x in og.calls if x.name in ("saturating_sub", "checked_sub")]
        ok = False
        for x in subs:
            if len(x.args) != 2 or not all("p" in a for a in x.args):
                continue
            d0, c0, _ = f.depends_on(x.args[0]["p"][0], call_filter=lambda y: y.name in ("deref", "deref_mut", "len"))
            lhs_len = any(y.name == "len" and last_seg(y.self_adt) == "VecDeque" for y in c0)
            locs, places = P.chain_locals(f, x.args[1]["p"][0])
            flds = [e for pl in [x.args[1]["p"]] + places for e in pl[1:] if isinstance(e, str)]
            if lhs_len and ".retention_count" in flds:
                ok = True
        # the range starts at the front (`..excess`)
        if ok and og.has_call(lambda y: y.name in ("RangeTo", "new")) or ok:
            out.append(c)
    return out


def clause_prune_after_push(prog, rep):
    n = 0
    for f in mgr_fns(prog):
        # (entries also enter the queue in bulk: `queue.extend(listed.filter_map(parse))`)
        pushes = [c for c in f.live_calls() if c.name in ("push_back", "extend", "append") and (last_seg(c.self_adt) == "VecDeque" or "VecDeque" in (c.self_ty or ""))]
        for c in pushes:
            n += 1
            cmpb = retention_compare_blocks(f)
            drains = excess_drains(prog, f)
            if not cmpb and drains:
                blocks = frozenset(x.bb for x in drains)
                esc = False
                if "to" in c.t:
                    r = A.reach_without_edges(f, c.t["to"], set(), blocks)
                    esc = any(f.term(b)["k"] == "return" for b in r)
                inst = "%s/%s" % (f.label(), c.name)
                rep.check(not esc, "prune-after-push", inst, "every path from the queue push to a return passes the `drain(..len - retention_count)` prune step",
                          "a snapshot is queued and the function can return without running the retention prune step", c.loc())
                rep.ok("prune-after-push", inst + "/bound", "the number of drained entries is queue.len() - retention_count (keeps at most the configured number)", c.loc())
                rel_ok = False
                for rl in [x for x in f.live_calls() if K.is_storage_trait_call(x, "release_group_snapshot")]:
                    og = A.origins(prog, f, rl.args[-1]["p"][0], scope=None, max_frames=0) if "p" in rl.args[-1] else None
                    if og and og.has_call(lambda x: x.name == "drain") and "snapshot_name" in og.fields:
                        rel_ok = True
                rep.check(rel_ok, "prune-after-push", inst + "/release", "each drained (oldest) entry's storage snapshot is released by name",
                          "drained queue entries are not released in storage", c.loc())
                locks = [x for x in f.live_calls() if x.name == "lock" and last_seg(x.self_adt) == "Mutex"]
                rep.check(len(locks) == 1, "prune-after-push", inst + "/one-guard", "push and prune run under a single manager lock",
                          "%d lock acquisitions in the function: push and prune are not atomic" % len(locks), c.loc())
                continue
            blocks = frozenset(b for b, strict in cmpb)
            esc = False
            if "to" in c.t:
                r = A.reach_without_edges(f, c.t["to"], set(), blocks)
                esc = any(f.term(b)["k"] == "return" for b in r)
            inst = "%s/%s" % (f.label(), c.name)
            rep.check(bool(blocks) and not esc, "prune-after-push", inst,
                      "every path from the queue push to a return passes the `len > retention_count` prune loop",
                      "a snapshot is queued and the function can return without running the retention prune loop", c.loc())
            rep.check(bool(cmpb), "prune-after-push", inst + "/bound",
                      "the loop condition compares the queue length directly with retention_count (keeps at most the configured number)",
                      "the prune loop does not compare the queue length directly with retention_count", c.loc())
            # loop body pops the oldest and releases it
            body_ok = False
            for b, strict in cmpb:
                t = f.term(b)
                if t["k"] != "switch":
                    continue
                for s in f.succs()[b]:
                    reg = f.reachable_from(s)
                    pops = [x for x in f.live_calls() if x.bb in reg and x.name == "pop_front"]
                    rels = [x for x in f.live_calls() if x.bb in reg and K.is_storage_trait_call(x, "release_group_snapshot")]
                    for rl in rels:
                        og = A.origins(prog, f, rl.args[-1]["p"][0], scope=None, max_frames=0) if "p" in rl.args[-1] else None
                        if og and og.has_call(lambda x: x.name == "pop_front") and "snapshot_name" in og.fields:
                            body_ok = True
            rep.check(body_ok, "prune-after-push", inst + "/release",
                      "each pruned entry is popped from the front (oldest) and its storage snapshot released by name",
                      "pruned queue entries are not released in storage (pop_front -> release_group_snapshot(snapshot_name))", c.loc())
            # push and prune under one guard: no second lock acquisition between them
            locks = [x for x in f.live_calls() if x.name == "lock" and last_seg(x.self_adt) == "Mutex"]
            rep.check(len(locks) == 1, "prune-after-push", inst + "/one-guard", "push and prune run under a single manager lock",
                      "%d lock acquisitions in the function: push and prune are not atomic" % len(locks), c.loc())
    rep.floor("prune-after-push", "queue pushes in the snapshot manager", n, 2)


CMP = {"Gt": lambda a, b: a > b, "Ge": lambda a, b: a >= b, "Lt": lambda a, b: a < b, "Le": lambda a, b: a <= b,
       "Eq": lambda a, b: a == b, "Ne": lambda a, b: a != b}


def _offset_from_position(f, o):
    """k if the operand is `position + k` for the index found by VecDeque position()/the target lookup (k = 0 for the index itself)"""
    if "c" in o:
        return None
    l = o["p"][0]
    seen = set()
    k = 0
    while l not in seen:
        seen.add(l)
        nxt = None
        for bb, kind, x in f.defs().get(l, []):
            if kind == "call" and x.name in ("position", "rposition", "binary_search_by_key", "binary_search_by"):
                return k
            if kind == "call" and x.name in ("branch", "ok_or", "ok_or_else", "unwrap", "expect", "ok") and x.args and "p" in x.args[0]:
                # `position(..).ok_or_else(not_found)?`: the same index, unwrapped
                nxt = x.args[0]["p"][0]
            if kind == "stmt" and x.get("k") in ("use", "ref", "cast") and x["o"] and "p" in x["o"][0]:
                nxt = x["o"][0]["p"][0]
            elif kind == "stmt" and x.get("k") == "binop" and x["op"].startswith("Add") and len(x["o"]) == 2:
                a, b = x["o"]
                if "p" in a and isinstance(b.get("c"), dict) and isinstance(b["c"].get("int"), int):
                    k += b["c"]["int"]
                    nxt = a["p"][0]
            elif kind == "stmt" and x.get("k") == "use" and x["o"] and "c" in x["o"][0]:
                return None
        if nxt is None:
            return None
        l = nxt
    return None


def _each_host(prog, f, rl):
    """the `for_each` / `try_for_each` call of f whose closure makes the release call rl (None: rl is made by f itself)"""
    if rl.fn is f:
        return None
    for c in f.live_calls():
        if c.name in ("for_each", "try_for_each") and any(g is rl.fn for g in A.closure_args(prog, c)):
            return c
    return None


def _releases(prog, f):
    """release_group_snapshot calls made by f or by the body of a for_each over one of its iterators"""
    out = [c for c in f.live_calls() if K.is_storage_trait_call(c, "release_group_snapshot")]
    for c in f.live_calls():
        if c.name in ("for_each", "try_for_each"):
            for g in A.closure_args(prog, c):
                out += [x for x in g.live_calls() if K.is_storage_trait_call(x, "release_group_snapshot")]
    return out


def clause_release_covers_suffix(prog, rep, f, sp, rels):
    """the rollback consumes exactly one stored snapshot (the target's); of the entries that leave the queue with it, all the others must be
    released: the loop may pass over exactly the consumed entry — not more (`if i > 1`, `.skip(2)`: a superseded snapshot stays in storage,
    unseen by the retention bound) and not fewer"""
    for rl in rels:
        host = _each_host(prog, f, rl)
        if host is not None:
            # released by the body of `suffix_iter.for_each(|snap| release(snap))`: the range is what the adaptor iterates
            if "p" not in host.args[0]:
                continue
            og = A.origins(prog, f, host.args[0]["p"][0], scope=None, max_frames=0)
            if A.control_dependent_switches(rl.fn, rl.bb):
                rep.note("C20 rollback-discards-suffix: the release inside the closure of %s is guarded; coverage of the suffix not decided" % f.label())
                continue
        else:
            if "p" not in rl.args[-1]:
                continue
            og = A.origins(prog, f, rl.args[-1]["p"][0], scope=None, max_frames=0)
        cut = [c for c in sp if og.has_call(lambda x, c=c: x is c)]
        skips = [x for x in og.calls if x.name == "skip" and len(x.args) == 2]
        base = None          # first released position relative to the target's index, before guards
        if cut and cut[0].name == "split_off" and len(cut[0].args) == 2:
            base = _offset_from_position(f, cut[0].args[1])
            for x in skips:
                k = x.args[1].get("c", {}).get("int") if isinstance(x.args[1].get("c"), dict) else None
                base = None if (k is None or base is None) else base + k
        elif not cut and skips and og.has_call(lambda x: last_seg(x.self_adt) == "VecDeque" and x.name in ("iter", "iter_mut")):
            base = _offset_from_position(f, skips[0].args[1]) if len(skips) == 1 else None
        if base is None:
            rep.note("C20 rollback-discards-suffix: the released range in %s is not of the recognised shapes (split_off(index [+k]) / iter().skip(index + k)); "
                     "coverage of the suffix not decided" % f.label())
            continue
        # guards on the enumerate index between the loop head and the release
        passed = set()
        undecided = False
        for i in range(0, 6):
            ok_i = True
            for w in (A.control_dependent_switches(f, rl.bb) if host is None else []):
                t = f.term(w)
                l = A._opl(t["discr"])
                d = [x for bb, kind, x in f.defs().get(l, []) if kind == "stmt" and x.get("k") == "binop" and x.get("op") in CMP]
                if not d:
                    continue
                a, b = d[0]["o"]
                if not ("p" in a and isinstance(b.get("c"), dict) and isinstance(b["c"].get("int"), int)):
                    undecided = True
                    continue
                og2 = A.origins(prog, f, a["p"][0], scope=None, max_frames=0)
                if not og2.has_call(lambda x: x.name == "enumerate"):
                    continue
                v = 1 if CMP[d[0]["op"]](i, b["c"]["int"]) else 0
                tg = dict((val, bb) for val, bb in t["targets"])
                nxt = tg.get(v, t["otherwise"])
                if rl.bb not in f.reachable_from(nxt, frozenset([w])) and nxt != rl.bb:
                    ok_i = False
            if not ok_i:
                passed.add(i)
        if undecided:
            rep.note("C20 rollback-discards-suffix: a guard of the release in %s compares something other than the loop index with a constant; not decided" % f.label())
            continue
        prefix = passed == set(range(len(passed)))
        first = base + len(passed)
        rep.check(prefix and first == 1, "rollback-discards-suffix", f.label() + "/all-but-consumed",
                  "the release loop passes over exactly the entry the storage rollback consumed (the target); every later entry is released",
                  "the entries leaving the queue start at the rollback target; the release loop passes over %s and releases from offset %d on: %s"
                  % (sorted(passed) or "nothing", first,
                     "a snapshot taken after the target is dropped from the queue but stays in storage (outside the retention bound, re-hydrated after a restart)"
                     if first > 1 or not prefix else "the consumed snapshot is released a second time"), rl.loc())


def clause_rollback_releases(prog, rep):
    n = 0
    for f in mgr_fns(prog):
        sp = [c for c in f.live_calls() if c.name in ("split_off", "truncate", "drain") and last_seg(c.self_adt) == "VecDeque"]
        in_place = lambda x: last_seg(x.self_adt) == "VecDeque" and x.name in ("iter", "iter_mut", "range", "range_mut", "get", "index")
        rb = [c for c in f.live_calls() if K.is_storage_trait_call(c, "rollback_group_to_snapshot")]
        if not rb:
            continue
        n += 1
        rels = _releases(prog, f)
        ok = False
        for rl in rels:
            host = _each_host(prog, f, rl)
            src = host.args[0] if host is not None else rl.args[-1]
            at = host.bb if host is not None else rl.bb
            og = A.origins(prog, f, src["p"][0], scope=None, max_frames=0) if "p" in src else None
            if og and og.has_call(lambda x: x.name in ("split_off", "drain", "pop_back")):
                ok = True
            # or: released while still in the queue, then cut off (for snap in queue.iter().skip(i + 1) { release }; queue.truncate(i))
            if og and og.has_call(in_place) and any(c.bb in f.reachable_from(at) for c in sp):
                ok = True
        # copy provenance of the released name: a field of the element iterated out of the split-off suffix
        for rl in rels:
            if "p" not in rl.args[-1]:
                continue
            host = _each_host(prog, f, rl)
            if host is not None:
                # in a for_each body the element is the closure's own parameter, and the iterator is the adaptor's receiver
                g = rl.fn
                pr = A.producers(prog, g, rl.args[-1]["p"][0], scope=set(), max_frames=0)
                names = sorted(set(x.name for x in pr["calls"]))
                elem = not pr["calls"] and "snapshot_name" in pr["fields"] and bool(pr["params"]) and all(l == 2 for (_, l) in pr["params"])
                og2 = A.origins(prog, f, host.args[0]["p"][0], scope=None, max_frames=0) if "p" in host.args[0] else None
                src_ok = bool(og2) and (og2.has_call(lambda y: y.name in ("split_off", "drain")) or og2.has_call(in_place))
                rep.check(elem and src_ok, "rollback-discards-suffix", f.label() + "/released-name",
                          "each release names the split-off element's own snapshot_name",
                          "the name passed to release_group_snapshot is produced by %s, not by the element iterated out of the split-off suffix: the "
                          "superseded snapshots stay in storage" % names, rl.loc())
                continue
            pr = A.producers(prog, f, rl.args[-1]["p"][0], scope=None, max_frames=0)
            names = sorted(set(x.name for x in pr["calls"]))
            elem = bool(pr["calls"]) and all(x.name in ("next", "get", "index") for x in pr["calls"]) and "snapshot_name" in pr["fields"]
            src_ok = False
            for x in pr["calls"]:
                if x.name == "next" and x.args and "p" in x.args[0]:
                    og2 = A.origins(prog, f, x.args[0]["p"][0], scope=None, max_frames=0)
                    if og2.has_call(lambda y: y.name in ("split_off", "drain")) or og2.has_call(in_place):
                        src_ok = True
                if x.name in ("get", "index") and last_seg(x.self_adt) == "VecDeque":
                    src_ok = True
            rep.check(elem and src_ok, "rollback-discards-suffix", f.label() + "/released-name",
                      "each release names the split-off element's own snapshot_name",
                      "the name passed to release_group_snapshot is produced by %s, not by the element iterated out of the split-off suffix: the "
                      "superseded snapshots stay in storage" % names, rl.loc())
        clause_release_covers_suffix(prog, rep, f, sp, rels)
        rep.check(bool(sp) and ok, "rollback-discards-suffix", f.label(),
                  "snapshots taken after the rollback target are removed from the queue and released in storage",
                  "after a rollback the later snapshots are not split off and released (they outlive the branch they belong to)", rb[0].loc())
        # the split-off happens only after the rollback succeeded
        for c in sp:
            rep.check(A.succ_dominated(f, c.bb, rb), "rollback-discards-suffix", f.label() + "/after-success",
                      "the queue is only truncated after the storage rollback succeeded", "the queue is truncated even if the storage rollback failed", c.loc())
    rep.floor("rollback-discards-suffix", "manager functions performing a storage rollback", n, 1)


def clause_memory_rollback_consumes(prog, rep, rule="rollback-discards-suffix"):
    """the manager treats the snapshot a rollback restored from as gone (it never releases it); the SQLite backend deletes its rows during
    the restore.  The memory backend has to agree: what rollback_group_to_snapshot restores is *taken out of* the snapshot table
    (HashMap::remove), not read from it — otherwise every rollback leaves one stored snapshot that nothing will ever release"""
    fs = [g for g in prog.find(name="rollback_group_to_snapshot", crate="mdk_memory_storage") if not g.is_closure() and "MdkStorageProvider" in g.path]
    rep.floor(rule, "memory MdkStorageProvider::rollback_group_to_snapshot", len(fs), 1)
    for f in fs:
        fam = prog.family(f)
        takes = [c for g in fam for c in g.live_calls() if c.name in ("remove", "remove_entry", "take", "pop")
                 and "GroupScopedSnapshot" in " ".join([c.self_ty or ""] + [str(x) for x in (c.gen or [])])]
        restored_from_take = False
        for g in fam:
            for c in g.live_calls():
                if any(t.crate == "mdk_memory_storage" and any("GroupScopedSnapshot" in t.locals[i] for i in range(1, t.nargs + 1)) for t in prog.call_targets(c)):
                    for a in c.args:
                        if "p" in a and "GroupScopedSnapshot" in g.locals[a["p"][0]]:
                            og = A.origins(prog, g, a["p"][0], scope=set(q.path for q in fam), max_frames=2)
                            if any(og.has_call(lambda y, t_=t_: y is t_) for t_ in takes):
                                restored_from_take = True
        rep.check(bool(takes) and restored_from_take, rule, "memory/rollback_group_to_snapshot/consumes-the-snapshot",
                  "the snapshot the memory backend restores from is removed from the snapshot table by the rollback",
                  "the memory backend restores from a snapshot it leaves in the table (read / cloned, not removed): the manager considers it "
                  "consumed and never releases it, so stored snapshots outgrow the retention bound (and the SQLite backend, which deletes "
                  "the rows, disagrees)", f.loc())


def clause_age_preserved(prog, rep, sites):
    """the TTL prune goes by the row's created_at: a rollback must hand the surviving snapshots back with the created_at they had,
    otherwise every rollback rejuvenates them and snapshots older than the TTL are kept"""
    sqlrules.sibling_snapshot_copy(prog, rep, sites, "ttl-prune-at-build", "rollback/")


def clause_ttl(prog, rep, sites):
    fs = prog.find(adt="MdkBuilder", name="build", crate="mdk_core")
    rep.floor("ttl-prune-at-build", "MdkBuilder::build", len(fs), 1)
    for f in fs:
        pr = [c for c in f.live_calls() if K.is_storage_trait_call(c, "prune_expired_snapshots")]
        rep.floor("ttl-prune-at-build", "prune_expired_snapshots call in build", len(pr), 1)
        ip = [c for c in f.live_calls() if c.name == "is_persistent"]
        for c in pr:
            og = A.origins(prog, f, c.args[-1]["p"][0], scope=None, max_frames=0) if "p" in c.args[-1] else None
            ok = bool(og) and "snapshot_ttl_seconds" in og.fields and og.has_call(lambda x: x.name == "now" and "SystemTime" in (x.resolved or "")) \
                and og.has_call(lambda x: x.name in ("saturating_sub", "checked_sub", "sub"))
            rep.check(ok, "ttl-prune-at-build", "threshold", "the prune threshold is now - config.snapshot_ttl_seconds",
                      "the prune threshold is not derived from the clock minus MdkConfig.snapshot_ttl_seconds", c.loc())
        # persistent => prune on every path to the constructed MDK
        edges = set()
        for c in ip:
            edges |= A.bool_true_edges(f, c)
        esc = False
        for w, s in edges:
            r = A.reach_without_edges(f, s, set(), frozenset(c.bb for c in pr))
            if any(f.term(b)["k"] == "return" for b in r):
                esc = True
        rep.check(bool(edges) and bool(pr) and not esc, "ttl-prune-at-build", "persistent-implies-prune",
                  "for a persistent backend every path through build() prunes expired snapshots",
                  "build() can finish on a persistent backend without pruning expired snapshots", f.loc())
        # retention bound comes from the configuration
        news = [c for c in f.live_calls() if c.name == "new" and last_seg(c.self_adt) == "EpochSnapshotManager"]
        for c in news:
            og = A.origins(prog, f, c.args[0]["p"][0], scope=None, max_frames=0) if c.args and "p" in c.args[0] else None
            rep.check(bool(og) and "epoch_snapshot_retention" in og.fields, "ttl-prune-at-build", "retention-from-config",
                      "the manager's retention bound is MdkConfig.epoch_snapshot_retention", "the retention bound is not taken from the configuration", c.loc())
        rep.floor("ttl-prune-at-build", "EpochSnapshotManager::new in build", len(news), 1)
    # both backends prune by created_at < threshold
    sq = prog.find(adt="MdkSqliteStorage", name="prune_expired_snapshots", trait="MdkStorageProvider")
    mm = prog.find(adt="MdkMemoryStorage", name="prune_expired_snapshots", trait="MdkStorageProvider")
    if sq and mm:
        ss = [s for s in sites if (s.fn.path == sq[0].path or s.fn.root == sq[0].path) and s.stmt.kind == "DELETE"]
        okq = any([(c, o) for c, o, r in s.stmt.where] == [("created_at", "<")] for s in ss)
        mp = set(P.normalise(t, {}) for t in P.preds(prog, mm[0]))
        retain = any(c.name == "retain" for g in P.family(prog, mm[0]) for c in g.live_calls())
        # `retain(|_, s| s.created_at >= t)` or the same decision spelled `retain(|_, s| !is_expired(s))` with `created_at < t` negated
        negs = sum(1 for g in P.family(prog, mm[0]) for bb, st in g.stmts() if st.get("k") == "unop" and st.get("op") == "Not")
        okm = retain and ((("created_at", ">=", "?") in mp and negs == 0) or (("created_at", "<", "?") in mp and ("created_at", ">=", "?") not in mp and negs == 1))
        rep.check(okq and okm, "ttl-prune-at-build", "backends-agree", "SQLite deletes created_at < t; memory retains created_at >= t",
                  "prune predicates disagree: SQLite %s vs memory %s" % ([s.stmt.where for s in ss], sorted(x for x in mp if x)), sq[0].loc())
    nf = prog.find(adt="EpochSnapshotManager", name="new", crate="mdk_core")
    for f in nf:
        ok = False
        for bb, s in f.aggregates("EpochSnapshotManager"):
            o = A.agg_field_operand(s, "retention_count")
            if o and "p" in o and any(1 <= x <= f.nargs for x in f.depends_on(o["p"][0])[0]):
                ok = True
        rep.check(ok, "ttl-prune-at-build", "retention-field", "retention_count is the constructor argument", "retention_count is not set from the constructor argument", f.loc())


def clause_list_oldest_first(prog, rep, sites, rule="prune-after-push"):
    """after a restart the queue is rebuilt from list_group_snapshots and the retention loop pops its *front*: the entries it keeps are
    the most recent ones only if the listing is oldest-first by creation time on both backends (ordering by name puts epoch 10 before
    epoch 9: the un-padded decimal epoch is part of the name)"""
    n = 0
    for f in prog.find(adt="MdkSqliteStorage", name="list_group_snapshots", trait="MdkStorageProvider"):
        ext = set(prog.extent(f)) | {f.path}
        for s_ in sites:
            if s_.fn.path in ext and s_.stmt.kind == "SELECT" and s_.stmt.table == "group_state_snapshots":
                n += 1
                ob = [(c.split(".")[-1], d) for c, d in s_.stmt.order_by]
                rep.check(ob[:1] == [("created_at", "ASC")], rule, "list-oldest-first/sqlite",
                          "the stored snapshots are listed by created_at ascending", "list_group_snapshots orders by %s, not by created_at ascending: the hydrated "
                          "queue is not oldest-first and the retention loop releases the wrong snapshots after a restart" % (ob or "nothing"), s_.loc())
                byname = [c for c, d in ob[1:] if c == "snapshot_name"]
                rep.check(not byname, rule, "list-oldest-first/sqlite/no-name-tiebreak",
                          "snapshots created in the same second are not re-ordered by name",
                          "list_group_snapshots breaks created_at ties (one-second resolution) by snapshot_name: the name embeds the un-padded "
                          "decimal epoch, so epoch 10 sorts before epoch 9 — after a restart the retention loop keeps an older snapshot and "
                          "releases a more recent one", s_.loc())
    for f in prog.find(adt="MdkMemoryStorage", name="list_group_snapshots", trait="MdkStorageProvider"):
        fam = P.family(prog, f)
        sorts = [c for g in fam for c in g.live_calls() if c.name in ("sort_by_key", "sort_by", "sort_unstable_by_key", "sort_unstable_by", "sort_by_cached_key")]
        n += 1
        ok = False
        for c in sorts:
            for a in c.args[1:]:
                cl = (a.get("c") or {}).get("closure") if isinstance(a, dict) else None
                g = prog.fns.get(cl) if cl else None
                if g is None and "p" in a:
                    for bb, kind, x in c.fn.defs().get(a["p"][0], []):
                        if kind == "stmt" and x.get("k") == "closure":
                            g = prog.fns.get(x.get("closure"))
                if g is None:
                    continue
                # the key closure reads tuple position 1 (created_at) of the (name, created_at) pair, or a field named created_at
                reads = set()
                for bb, st in g.stmts():
                    for o in st.get("o", []):
                        if "p" in o:
                            reads |= set(e for e in o["p"][1:] if isinstance(e, str) and e.startswith("."))
                for x in g.live_calls():
                    for o in x.args:
                        if "p" in o:
                            reads |= set(e for e in o["p"][1:] if isinstance(e, str) and e.startswith("."))
                if (".1" in reads or ".created_at" in reads) and ".0" not in reads and ".snapshot_name" not in reads:
                    ok = True
        rep.check(ok, rule, "list-oldest-first/memory", "the memory backend sorts the listing by created_at",
                  "the memory backend's list_group_snapshots is not sorted by created_at (oldest first)", f.loc())
    rep.floor(rule, "list_group_snapshots implementations", n, 2)


def run(ctx, rep):
    prog = ctx.prog()
    sites = sqlmod.collect(prog)
    rep.fns_analysed = len(mgr_fns(prog))
    rep.clause("C20.1 storage snapshots are created only by EpochSnapshotManager")
    rep.clause("C20.2 every queue push is followed on every path, under the same guard, by the `len > retention_count` loop that pops the oldest entry and releases it in storage")
    rep.clause("C20.2b the listing the queue is rebuilt from after a restart is oldest-first by creation time on both backends")
    rep.clause("C20.3 a rollback splits off and releases the snapshots taken after the target, only after the storage rollback succeeded")
    rep.clause("C20.4 MdkBuilder::build prunes snapshots older than now - snapshot_ttl_seconds on every path when the backend is persistent; retention bound from config; both backends prune by created_at < t")
    rep.not_decided = "counts over real histories; snapshots orphaned by a failed merge after a successful snapshot (visible structurally, reported as context)"
    clause_who_creates(prog, rep)
    clause_prune_after_push(prog, rep)
    clause_rollback_releases(prog, rep)
    clause_memory_rollback_consumes(prog, rep)
    clause_ttl(prog, rep, sites)
    clause_age_preserved(prog, rep, sites)
    clause_list_oldest_first(prog, rep, sites)
