"""C14 — logs and errors never carry group identifiers or secrets: NoTaint(sources -> tracing events / error payloads)."""
import re
from ir import last_seg
import analysis as A

LIB = ("mdk_core", "mdk_memory_storage", "mdk_sqlite_storage", "mdk_storage_traits", "mdk_uniffi", "mdk_verif_witness")
# (the OpenMLS extension containers hold the raw Marmot group-data extension: Nostr group id, image key / nonce / seed)
ID_TYPES = re.compile(r"(mdk_storage_traits::group_id::GroupId|openmls::group::GroupId|mdk_storage_traits::secret::Secret<|"
                      r"mdk_sqlite_storage::encryption::EncryptionConfig|mdk_storage_traits::groups::types::GroupExporterSecret|"
                      r"openmls::extensions::Extensions|openmls::extensions::Extension\b|openmls::extensions::UnknownExtension|"
                      r"openmls::messages::proposals::GroupContextExtensionProposal)")
EXTERNAL_LEAKY = ("openmls::extensions::Extensions", "openmls::extensions::Extension", "openmls::extensions::UnknownExtension",
                  "openmls::messages::proposals::GroupContextExtensionProposal", "openmls::group::group_context::GroupContext",
                  "openmls::messages::proposals::Proposal")
SENSITIVE_FIELDS = {"nostr_group_id", "secret", "image_key", "image_nonce", "image_upload_key", "mls_group_id", "group_id"}
# fields that are sensitive only on a given struct: (adt last segment, field)
SENSITIVE_ON = {("EncryptionConfig", "key"), ("EpochSnapshot", "snapshot_name")}
CLEAN_TY = re.compile(r"^&?(mut )?(bool|u8|u16|u32|u64|u128|usize|i8|i16|i32|i64|i128|isize|char|\(\)|core::cmp::Ordering|f32|f64)$")
SANITIZERS = {"len", "is_empty", "count", "epoch", "as_u64", "eq", "ne", "cmp", "partial_cmp", "lt", "gt", "le", "ge", "contains", "contains_key",
              "is_some", "is_none", "is_ok", "is_err", "hash", "capacity", "is_persistent", "backend"}
ERROR_ADTS = ("Error", "MdkStorageError", "GroupError", "MessageError", "WelcomeError", "MdkUniffiError", "EncryptedMediaError", "GroupImageError",
              "MediaProcessingError")
LOG_MACROS = ("tracing::",)
# results of these external calls are stored names / values that embed a group id (storage channel)
DERIVED_SOURCE_CALLS = {"list_group_snapshots"}
# manual Debug/Display impls that exist precisely to redact: they must not read the sensitive fields
REDACTING = {"EpochSnapshot": {"group_id", "snapshot_name"}, "MessageProcessingResult": {"mls_group_id"}, "Secret": {"0"},
             "EncryptionConfig": {"key"}, "EpochSnapshotManager": {"inner"}, "MdkMemoryStorage": {"inner", "group_snapshots"}}


def has_type(ty, path):
    """does the type expression mention exactly this ADT path (not a longer identifier that merely starts with it)?"""
    return re.search(re.escape(path) + r"(?![A-Za-z0-9_])", ty) is not None


def leaky_debug_adts(prog):
    """ADTs whose *derived* Debug prints an identifier or secret (transitively)"""
    derived = set()
    for im in prog.impls:
        if last_seg(im.get("trait")) == "Debug" and im.get("derived") and im.get("self_adt"):
            derived.add(im["self_adt"])
    # a signed kind-445 wrapper event carries the hex Nostr group id in its h tag
    leaky = {"mdk_storage_traits::group_id::GroupId", "openmls::group::GroupId", "nostr::event::Event"} | set(EXTERNAL_LEAKY)
    changed = True
    while changed:
        changed = False
        for p, a in prog.adts.items():
            if p in leaky or p not in derived:
                continue
            for v in a["variants"]:
                for fd in v["fields"]:
                    ty = fd["ty"]
                    if "secret::Secret<" in ty and not any(x in ty for x in ("GroupId",)):
                        continue   # Secret<T> prints a redaction
                    if any(has_type(ty, lp) for lp in leaky) or (fd["name"] in ("nostr_group_id",) and "[u8; 32]" in ty):
                        leaky.add(p)
                        changed = True
    return leaky


CARRIER = re.compile(r"(alloc::string::String|&str|\bstr\b|alloc::vec::Vec<u8>|\[u8|alloc::borrow::Cow<|core::fmt::Arguments|core::fmt::rt::Argument|Box<str>)")


def is_clean_ty(ty):
    """can a value of this type carry an identifier?  only id/secret types and string / byte carriers can"""
    if CLEAN_TY.match(ty):
        return True
    # a bare type parameter (`T`, `&T`): inside generic accessors such as Secret<T>::as_ref the payload type is not known
    if re.match(r"^&?(mut )?[A-Z]$", ty):
        return False
    if ID_TYPES.search(ty) and not re.search(r"(MdkMemoryStorage|MdkSqliteStorage|MDK<|EpochSnapshotManager|MdkProvider)", ty):
        return False
    return not CARRIER.search(ty)


class Taint:
    def __init__(self, prog):
        self.prog = prog
        self.fns = [f for f in prog.nontest_fns(LIB)]
        self.param_taint = set()   # (fn path, local)
        self.ret_taint = set()     # fn path
        self.local = {}

    def seeds(self, f):
        s = set()
        for l, ty in enumerate(f.locals):
            if ID_TYPES.search(ty) and not re.search(r"(MdkMemoryStorage|MdkSqliteStorage|MDK<|EpochSnapshotManager|MdkProvider)", ty):
                s.add(l)
        # reads of sensitive fields
        for bb, st in f.stmts():
            if len(st["d"]) != 1:
                continue
            for o in st.get("o", []):
                pl = o.get("p")
                if not pl:
                    continue
                names = [e[1:] for e in pl[1:] if isinstance(e, str) and e.startswith(".")]
                if any(n in SENSITIVE_FIELDS for n in names):
                    s.add(st["d"][0])
                base_ty = f.locals[pl[0]]
                for adt, fld in SENSITIVE_ON:
                    if fld in names and adt in base_ty:
                        s.add(st["d"][0])
        for c in f.calls():
            if c.dst and len(c.dst) == 1:
                for a in c.args:
                    pl = a.get("p")
                    if pl:
                        names = [e[1:] for e in pl[1:] if isinstance(e, str) and e.startswith(".")]
                        if any(n in SENSITIVE_FIELDS for n in names) or any(fld in names and adt in f.locals[pl[0]] for adt, fld in SENSITIVE_ON):
                            if c.name not in SANITIZERS:
                                s.add(c.dst[0])
                if c.name in DERIVED_SOURCE_CALLS:
                    s.add(c.dst[0])
            # a value used as the Nostr-group-id key of a storage lookup *is* a Nostr group id (e.g. the decoded h tag)
            if c.name == "find_group_by_nostr_group_id" and c.args and "p" in c.args[-1]:
                for x in A.copy_sources(f, c.args[-1]["p"][0]):
                    if isinstance(x, int):
                        s.add(x)
                for t in self.prog.call_targets(c):
                    if t.path in self.ret_taint:
                        s.add(c.dst[0])
        # the content of an event's `h` tag is the hex Nostr group id (before it is decoded, refused or looked up)
        if any(c.name == "content" and last_seg(c.self_adt) == "Tag" for c in f.calls()):
            root = self.prog.fns.get(f.root, f)
            if any(x.name == "h" and last_seg(x.self_adt) == "TagKind" for g in self.prog.family(root) for x in g.calls()):
                for c in f.calls():
                    if c.name == "content" and last_seg(c.self_adt) == "Tag" and c.dst and len(c.dst) == 1:
                        s.add(c.dst[0])
        # locals named like an identifier / secret (parameters such as `nostr_group_id: [u8; 32]`)
        for name, pl in f.debug:
            if len(pl) == 1 and name in SENSITIVE_FIELDS | {"exporter_secret", "snapshot_name"}:
                s.add(pl[0])
        for (p, l) in self.param_taint:
            if p == f.path:
                s.add(l)
        keep = set(x for x in s if not is_clean_ty(f.locals[x]))
        # a closure environment that captured a tainted value carries it (whatever its opaque type)
        if f.is_closure() and (f.path, 1) in self.param_taint:
            keep.add(1)
        return keep

    def propagate(self, f):
        t = self.seeds(f)
        changed = True
        while changed:
            changed = False
            for bb, st in f.stmts():
                d = st["d"][0]
                if d in t or is_clean_ty(f.locals[d]):
                    continue
                for o in st.get("o", []):
                    pl = o.get("p")
                    if pl and pl[0] in t:
                        # reading a non-sensitive scalar field out of a tainted aggregate is still filtered by the dst type
                        t.add(d)
                        changed = True
                        break
            for c in f.calls():
                if not c.dst or c.dst[0] in t or is_clean_ty(f.locals[c.dst[0]]):
                    continue
                if c.name in SANITIZERS:
                    continue
                if any("p" in a and a["p"][0] in t for a in c.args):
                    # workspace callee: only if it can return taint (summary) or is unknown
                    ts = self.prog.call_targets(c)
                    if ts and not any(x.path in self.ret_taint for x in ts) and all(x.crate in LIB for x in ts):
                        continue
                    t.add(c.dst[0])
                    changed = True
        return t

    def solve(self, rounds=6):
        for _ in range(rounds):
            before = (len(self.param_taint), len(self.ret_taint))
            for f in self.fns:
                t = self.propagate(f)
                self.local[f.path] = t
                if 0 in t:
                    self.ret_taint.add(f.path)
                for c in f.calls():
                    for tgt in self.prog.call_targets(c):
                        if tgt.crate not in LIB or tgt.is_test_like():
                            continue
                        for i, a in enumerate(c.args):
                            if "p" in a and a["p"][0] in t and i + 1 <= tgt.nargs and not is_clean_ty(tgt.locals[i + 1]):
                                self.param_taint.add((tgt.path, i + 1))
                # closures: captured upvars
                for bb, st in f.stmts():
                    if st.get("k") == "closure" and st["closure"] in self.prog.fns:
                        if any("p" in o and o["p"][0] in t for o in st.get("o", [])):
                            self.param_taint.add((st["closure"], 1))
            if (len(self.param_taint), len(self.ret_taint)) == before:
                break


def sink_calls(f):
    for c in f.live_calls():
        r = c.resolved or ""
        if r.startswith("core::fmt::rt::Argument") and c.name.startswith("new_"):
            yield c, ("log" if any(any(m in e for m in LOG_MACROS) for e in c.expn) else "fmt")
        elif r.startswith("tracing_core::field::") and c.name in ("display", "debug"):
            yield c, "log"


def run(ctx, rep):
    import witness
    prog = ctx.prog_with_witness()
    witness.check_examples(rep, ctx.witness(), ["cf_groupid_display", "ok_groupid_display", "cf_secret_display", "ok_secret_display",
                                                "cf_encconfig_display", "ok_encconfig_display", "cf_encconfig_serialize", "ok_encconfig_serialize"])
    rep.clause("C14.4 witnesses: GroupId, Secret<T> and EncryptionConfig have no Display; EncryptionConfig is not Serialize (compile-fail with compiling twins)")
    rep.clause("C14.1 type rule: no tracing event formats a value whose type prints a group id / secret (GroupId, derived-Debug structs containing one, ...)")
    rep.clause("C14.2 value rule (interprocedural taint with parameter/return summaries): no string derived from a group id, Nostr group id, exporter secret, image key/nonce/seed, database key or snapshot name reaches a tracing event or the payload of a library error")
    rep.clause("C14.3 redaction: the manual Debug impls of result/config types do not read the sensitive fields")
    rep.not_decided = "content of dependency error strings interpolated via {} (rusqlite, openmls, nostr): assumed not to contain mdk identifiers"
    leaky = leaky_debug_adts(prog)
    rep.extra["leaky_debug_types"] = sorted(last_seg(x) for x in leaky)
    ta = Taint(prog)
    ta.solve()
    rep.fns_analysed = len(ta.fns)
    nlog = nfmt = 0
    control_hit = set()
    for f in ta.fns:
        t = ta.local.get(f.path, set())
        root = prog.fns.get(f.root, f)
        is_fmt_impl = root.name == "fmt" and last_seg(root.impl_trait) in ("Debug", "Display")
        for c, kind in sink_calls(f):
            T = c.gen[-1] if c.gen else ""
            leaky_T = any(has_type(T, lp) for lp in leaky) and "secret::Secret<" not in T.split("GroupId")[0]
            val_tainted = any("p" in a and a["p"][0] in t for a in c.args)
            inst = "%s/%s<%s>" % (root.label(), c.name, last_seg(T) if "::" in T else T)
            if f.crate == "mdk_verif_witness":
                if kind == "log" and leaky_T:
                    control_hit.add("type:" + root.name)
                if kind == "log" and val_tainted and not is_clean_ty(T):
                    control_hit.add("value:" + root.name)
                continue
            if kind == "log":
                nlog += 1
                ok = not leaky_T and not (val_tainted and not is_clean_ty(T))
                rep.check(ok, "no-sensitive-log", inst,
                          "tracing argument of type %s carries no identifier/secret" % T,
                          "a tracing event formats %s: %s" % (T, "its Debug/Display prints a group id or secret" if leaky_T else
                                                              "the value is derived from a group id / Nostr group id / secret / snapshot name (taint)"), c.loc())
            else:
                nfmt += 1
                if is_fmt_impl:
                    continue
    rep.floor("no-sensitive-log", "tracing format arguments", nlog, 20)
    rep.counts["format_arguments_outside_logs"] = nfmt
    # error payloads
    nerr = 0
    for f in ta.fns:
        if f.crate == "mdk_verif_witness":
            continue
        t = ta.local.get(f.path, set())
        root = prog.fns.get(f.root, f)
        for bb, s in f.stmts():
            if s.get("k") != "agg" or last_seg(s.get("adt")) not in ERROR_ADTS or not s.get("o"):
                continue
            if not (s["adt"].startswith("mdk_")):
                continue
            nerr += 1
            bad = [o for o in s["o"] if "p" in o and o["p"][0] in t and not is_clean_ty(f.locals[o["p"][0]])]
            rep.check(not bad, "no-sensitive-error", "%s/%s::%s" % (root.label(), last_seg(s["adt"]), s.get("variant")),
                      "error payload is not derived from an identifier or secret",
                      "the payload of %s::%s is derived from a group id / Nostr group id / secret (taint): the error value returned by the API carries it"
                      % (last_seg(s["adt"]), s.get("variant")), "%s:%s" % (f.file, s.get("line")))
    rep.floor("no-sensitive-error", "error constructions with payload", nerr, 50)
    # redaction
    for adt_last, fields in sorted(REDACTING.items()):
        fs = [f for f in prog.nontest_fns(LIB) if f.name == "fmt" and last_seg(f.impl_trait) == "Debug" and last_seg(f.self_adt) == adt_last and not f.derived]
        rep.floor("redacting-debug", "manual Debug impl of %s" % adt_last, len(fs), 1)
        for f in fs:
            read = set()
            for g in prog.family(f):
                for bb, s in g.stmts():
                    for o in s.get("o", []):
                        if "p" in o and o["p"][0] == 1:
                            read |= set(e[1:] for e in o["p"][1:] if isinstance(e, str) and e.startswith("."))
                for c in g.calls():
                    for a in c.args:
                        if "p" in a and a["p"][0] == 1:
                            read |= set(e[1:] for e in a["p"][1:] if isinstance(e, str) and e.startswith("."))
            bad = read & fields
            # nor may it hand a whole identifier-carrying value (GroupId, Group, a wrapper Event with its h tag, ...) to the formatter
            import predicates as P
            for g in prog.family(f):
                for c in g.live_calls():
                    if c.name in ("field", "entry", "key", "value") or (c.name.startswith("new_") and (c.resolved or "").startswith("core::fmt::rt::Argument")):
                        for a in c.args[1:] if c.name in ("field", "entry", "key", "value") else c.args:
                            if "p" not in a:
                                continue
                            # the value itself (copies / reborrows / unsizing casts), not the struct it is a field of
                            locs = set()
                            st = [a["p"][0]]
                            while st:
                                l0 = st.pop()
                                if l0 in locs:
                                    continue
                                locs.add(l0)
                                for bb0, kind0, d0 in g.defs().get(l0, []):
                                    if kind0 == "stmt" and d0.get("k") in ("use", "ref", "cast") and len(d0["d"]) == 1 and d0["o"] and "p" in d0["o"][0]:
                                        src = d0["o"][0]["p"]
                                        if all(e == "*" for e in src[1:]):
                                            st.append(src[0])
                            for l in locs:
                                ty = g.locals[l]
                                if any(has_type(ty, lp) for lp in leaky) and "secret::Secret<" not in ty and "MessageProcessingResult" not in ty:
                                    bad = bad | {"formats a %s" % ty.lstrip("&")}
            rep.check(not bad, "redacting-debug", "%s::fmt" % adt_last, "Debug of %s reads only %s" % (adt_last, sorted(read)),
                      "the redacting Debug impl of %s reads sensitive field(s) %s" % (adt_last, sorted(bad)), f.loc())
    # derived Debug on types holding raw secrets (not wrapped in Secret<T>)
    rep.floor("positive-control", "witness functions compiled by the driver", sum(1 for f in ta.fns if f.crate == "mdk_verif_witness"), 1)
    if True:
        rep.check("type:positive_control_logs_group_id" in control_hit, "positive-control", "type-rule", "the type rule reports the witness that logs a GroupId with {:?}",
                  "the positive control (a function logging a GroupId) was NOT reported: the type rule is blind (%s)" % sorted(control_hit))
        rep.check("value:positive_control_logs_hex_of_group_id" in control_hit, "positive-control", "value-rule", "the taint rule reports the witness that logs hex(group id)",
                  "the positive control (a function logging hex::encode(group id)) was NOT reported: the taint rule is blind (%s)" % sorted(control_hit))
    rep.extra["taint_summaries"] = {"tainted_params": len(ta.param_taint), "tainted_returns": len(ta.ret_taint)}
