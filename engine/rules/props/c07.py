"""C07 — re-delivering an already handled event changes nothing (structural clauses)."""
import os
import sys
from ir import last_seg
import analysis as A
import common as K
import dtable
sys.path.insert(0, os.path.dirname(os.path.abspath(__file__)))
import c01  # noqa: E402

WRITE_PREFIXES = ("save_", "replace_", "invalidate_", "mark_", "rollback_", "release_", "create_group_snapshot", "delete_", "prune_")
BLOCKED = ("Failed", "EpochInvalidated")


def is_write(c):
    return (c.trait or "").startswith("mdk_storage_traits::") and c.name.startswith(WRITE_PREFIXES)


def clause_dedup_first(prog, rep, pm):
    dedup = K.pure_lookup_calls(prog, pm, "find_processed_message_by_event_id")
    rep.floor("dedup-first", "dedup lookup in MDK::process_message", len(dedup), 1)
    wr = A.ReachCache(prog, lambda c: is_write(c) or (last_seg(c.self_adt) == "MlsGroup" and c.name in ("load", "process_message", "merge_staged_commit", "merge_pending_commit", "store_pending_proposal")))
    n = 0
    for c in pm.live_calls():
        if c in dedup or not wr.call(c):
            continue
        n += 1
        rep.check(A.succ_dominated(pm, c.bb, dedup), "dedup-first", "MDK::process_message/%s" % c.name,
                  "the checked dedup lookup dominates this state-touching call",
                  "%s can run before (or without) the dedup lookup of the wrapper id" % c.name, c.loc())
    rep.floor("dedup-first", "state-touching calls in process_message", n, 2)
    return dedup


def clause_state_table(prog, rep, pm, dedup):
    """symbolic exploration of process_message's dedup step per stored record state"""
    adt = prog.adt("ProcessedMessageState", crate="mdk_storage_traits")
    wr = A.ReachCache(prog, lambda c: is_write(c))
    load = A.ReachCache(prog, lambda c: c.name == "load" and last_seg(c.self_adt) == "MlsGroup")
    adt_of = {}
    for bb, s in pm.stmts():
        if s.get("k") == "discr":
            adt_of[bb] = last_seg(s.get("adt"))
    by_path = {}
    for c in pm.calls():
        by_path[(c.resolved, c.bb)] = c

    table = {}
    dedup_ids = set(id(c.callee) for c in (dedup or []))
    for v in adt["variants"]:
        S = v["name"]

        def hook(cal, args, S=S):
            nm = cal.get("name")
            if any("tracing" in e for e in (cal.get("expn") or [])) and nm in ("le", "lt", "ge", "gt"):
                return ("int", 0)
            if nm in ("eq", "ne") and len(args) == 2:
                if all(a[0] == "variant" and a[1] == "ProcessedMessageState" for a in args):
                    r = int(args[0][2] == args[1][2])
                    return ("int", r if nm == "eq" else 1 - r)
                for a in args:
                    if a[0] == "variant" and a[1] == "ProcessedMessageState":
                        r = int(a[2] == S)
                        return ("int", r if nm == "eq" else 1 - r)
            if nm in ("le", "lt") and "tracing" in (cal.get("path") or ""):
                return ("int", 0)
            if (nm == "find_processed_message_by_event_id" and (cal.get("trait") or "").startswith("mdk_storage_traits::")) or id(cal) in dedup_ids:
                return ("variant", "Result", "Ok", (("variant", "Option", "Some", (("symrec", S),)),))
            if nm == "map_err" and args and args[0][0] == "variant" and args[0][1] == "Result" and args[0][2] == "Ok":
                return args[0]
            return None

        def opaque_switch(bb, val, t):
            a = adt_of.get(bb)
            r = repr(val)
            if "find_processed_message_by_event_id" in r and "extract" not in r:
                pick = {"ControlFlow": 0, "Result": 0, "Option": 1}.get(a)
                if pick is not None:
                    for x, tb in t["targets"]:
                        if x == pick:
                            return tb
                    return t["otherwise"]
            return None
        def mentions_record(v):
            return isinstance(v, tuple) and (v == ("symrec", S) or any(mentions_record(x) for x in v if isinstance(x, tuple)))

        def inline(t, args=None, S=S):
            # helpers of the dedup step: infallible mdk-core functions that are handed the stored record
            return (t.crate == "mdk_core" and not t.is_closure() and "Result<" not in (t.ret or "") and args is not None
                    and any(mentions_record(a) for a in args))
        ev = dtable.Evaluator(pm, lambda x: (x[2] if x[0] == "variant" and x[1] == "ProcessedMessageState" else None),
                              lambda a, b: (0 if a == b else (1 if a > b else -1)), opaque_switch, call_hook=hook, max_steps=6000, prog=prog, inline=inline)
        ev.proj_hook = lambda v, e, S=S: ("variant", "ProcessedMessageState", S, ()) if (v == ("symrec", S) and e == ".state") else None
        # tracing macros expand to calls carrying their macro backtrace: make it visible to the hook
        def stop(cal, args):
            # the dedup step ends at the first fallible mdk-core step (event validation / decryption / dispatch)
            if id(cal) in dedup_ids:
                return None      # the lookup itself (possibly through a pure lookup helper) is part of the dedup step
            t = prog.fns.get(cal.get("resolved") or cal.get("path"))
            if t is not None and t.crate == "mdk_core" and not t.is_closure() and "Result<" in (t.ret or ""):
                return "PROCEED"
            return None
        ev.stop_hook = stop
        ev.log_pred = lambda cal: cal.get("name") if (wr.fn(cal.get("resolved") or cal.get("path")) or ((cal.get("trait") or "").startswith("mdk_storage_traits::") and cal.get("name", "").startswith(WRITE_PREFIXES))) else None
        try:
            ev.run_all({1: ("param", "self", 1), 2: ("param", "event", 2)}, max_paths=4000)
        except dtable.Undecided as e:
            rep.violation("dedup-state-table", "state=%s" % S, "dedup step cannot be enumerated: %s" % e, pm.loc())
            continue
        outs = set()
        writes = set()
        for res, log in ev.path_logs:
            if res and res[0] == "stopped":
                outs.add("PROCEED")
            elif res and res[0] == "variant" and res[1] == "Result" and res[2] == "Ok":
                inner = res[3][0] if res[3] else None
                outs.add("Ok(%s)" % (inner[2] if inner and inner[0] == "variant" else "?"))
            elif res and res[0] == "variant" and res[1] == "Result":
                outs.add("Err")
            else:
                outs.add("Err?")
            if not (res and res[0] == "stopped"):
                writes |= set(log)
        table[S] = (sorted(outs), sorted(writes))
        if S in BLOCKED:
            ok = "PROCEED" not in outs and not writes and all(o.startswith("Ok(") for o in outs)
            rep.check(ok, "dedup-state-table", "state=%s" % S,
                      "a %s record ends the call early with %s and no write" % (S, sorted(outs)),
                      "re-delivery of an event recorded as %s can %s (outcomes %s, writes before return %s)" % (
                          S, "reach processing again" if "PROCEED" in outs else "write state or fail", sorted(outs), sorted(writes)), pm.loc())
        else:
            rep.check(outs == {"PROCEED"} and not writes, "dedup-state-table", "state=%s" % S,
                      "a %s record lets processing continue (own echo / retry), nothing written by the dedup step" % S,
                      "dedup step on a %s record: outcomes %s writes %s" % (S, sorted(outs), sorted(writes)), pm.loc())
    rep.extra["dedup_state_table"] = table


def _reaches_processing(prog, cal, load):
    return True


def clause_failure_record(prog, rep):
    """the failure recorder keeps the message_event_id of an existing record"""
    core = K.core_scope(prog)
    n = 0
    for p in sorted(core):
        f = prog.fns[p]
        for c in f.live_calls():
            ts = prog.call_targets(c)
            if not ts:
                continue
            t = ts[0]
            aggs = [(bb, s) for bb, s in t.aggregates("ProcessedMessage") if s.get("fields")]
            if not aggs or t.is_closure():
                continue
            # which parameter feeds message_event_id / state?
            bb, s = aggs[0]
            def param_of(field):
                o = A.agg_field_operand(s, field)
                if o and "p" in o:
                    dep, _, _ = t.depends_on(o["p"][0])
                    ps = [x for x in dep if 1 <= x <= t.nargs]
                    return ps[0] if len(ps) == 1 else None
                return None
            ps, pm_ = param_of("state"), param_of("message_event_id")
            if ps is None or pm_ is None or ps > len(c.args) or pm_ > len(c.args):
                continue
            st = c.args[ps - 1]
            if "p" not in st:
                continue
            _, _, consts = f.depends_on(st["p"][0])
            if not any(isinstance(k, dict) and k.get("variant") == "Failed" and last_seg(k.get("agg")) == "ProcessedMessageState" for _, k in consts):
                continue
            n += 1
            a = c.args[pm_ - 1]
            og = A.origins(prog, f, a["p"][0], scope=None, max_frames=2) if "p" in a else None
            ok = bool(og) and "message_event_id" in og.fields and og.has_call(lambda x: K.is_storage_trait_call(x, "find_processed_message_by_event_id"))
            rep.check(ok, "failure-record-keeps-link", "MDK::process_message/Failed-record",
                      "the rewritten Failed record takes message_event_id from the existing record",
                      "a failure record overwrites the existing record without preserving its message_event_id: a replay orphans a stored message", c.loc())
    rep.floor("failure-record-keeps-link", "Failed-record constructions", n, 1)


def clause_own_commit_pending(prog, rep):
    """the 'merge my pending commit' shortcut is taken only for an own *commit* echo, never for an own application message"""
    n = 0
    for f in prog.nontest_fns(("mdk_core",)):
        for bb, s in f.aggregates("Error", "OwnCommitPending"):
            n += 1
            ok_ct = ok_pc = False
            for w in A.decision_switches(f, bb):
                l = A._opl(f.term(w)["discr"])
                dep, calls, consts = f.depends_on(l)
                cs = list(consts)
                for _, k in consts:
                    if isinstance(k, dict) and "promoted" in k and k["promoted"] < len(f.promoted):
                        cs += [(0, it) for it in f.promoted[k["promoted"]]]
                # the tested values may be captured by a closure / handed to a classifying helper: follow them to where they are made
                og = A.origins(prog, f, l, scope=K.core_scope(prog), max_frames=2)
                calls = list(calls) + list(og.calls)
                if any(isinstance(k, dict) and k.get("variant") == "Commit" and last_seg(k.get("agg")) == "ContentType" for _, k in cs) \
                        and any(c.name == "content_type" for c in calls):
                    ok_ct = True
                if any(c.name == "pending_commit" and last_seg(c.self_adt) == "MlsGroup" for c in calls):
                    ok_pc = True
            rep.check(ok_ct and ok_pc, "own-commit-shortcut", "Error::OwnCommitPending/decision",
                      "OwnCommitPending is raised only when the echoed event is a Commit and a pending commit exists",
                      "OwnCommitPending no longer depends on %s: the echo of an own application message while a commit is pending merges that "
                      "commit (epoch advances on a mere re-delivery)" % ("the content type being Commit" if not ok_ct else "pending_commit()"), f.loc())
    rep.floor("own-commit-shortcut", "constructions of Error::OwnCommitPending", n, 1)


def clause_state_writes(prog, rep):
    core = K.core_scope(prog)
    n = 0
    for p in sorted(core):
        f = prog.fns[p]
        for bb, s in f.stmts():
            if s.get("k") == "agg" and last_seg(s.get("adt")) == "MessageState" and not s.get("o"):
                fl = f.flows_from({s["d"][0]}, through_calls=False)
                if any(c.name in ("eq", "ne") and any("p" in a and a["p"][0] in fl for a in c.args) for c in f.live_calls()):
                    continue
                n += 1
                rep.check(s["variant"] in ("Created", "Processed"), "message-state-writes", "%s/MessageState::%s" % (prog.fns.get(f.root, f).label(), s["variant"]),
                          "mdk-core writes only Created / Processed into a message; invalidation is done by the storage query on the rollback arm",
                          "mdk-core writes MessageState::%s directly" % s["variant"], "%s:%s" % (f.file, s.get("line")))
    rep.floor("message-state-writes", "message state constants written by mdk-core", n, 3)
    clause_only_after_rollback(prog, rep, "message-state-writes")


def clause_only_after_rollback(prog, rep, rule):
    """invalidation and retry marking belong to a rollback that happened: each such storage call is success-dominated by the manager's
    rollback call — in its own function, or, when the bookkeeping lives in a helper, at every call site of that helper"""
    rb = lambda c: c.name == "rollback_to_epoch" and last_seg(c.self_adt) == "EpochSnapshotManager"

    def guarded(f, bb, depth=0):
        gcs = [x for x in f.live_calls() if rb(x)]
        if gcs:
            return A.succ_dominated(f, bb, gcs)
        if depth >= 2:
            return False
        sites = []
        for q in sorted(prog.redges().get(f.path, ())):
            cf = prog.fns.get(q)
            if not cf or cf.is_test_like():
                continue
            sites += [(cf, x.bb) for x in cf.live_calls() if any(t.path == f.path for t in prog.call_targets(x))]
            # a closure body (`ids.iter().filter(|id| storage.mark_..(id).is_err())`) runs where it is created / handed to the adaptor
            sites += [(cf, b2) for b2, st in cf.stmts() if st.get("k") == "closure" and st.get("closure") == f.path]
        return bool(sites) and all(guarded(cf, b2, depth + (0 if f.is_closure() else 1)) for cf, b2 in sites)
    for nm in ("invalidate_messages_after_epoch", "invalidate_processed_messages_after_epoch", "mark_processed_message_retryable"):
        for c in prog.all_calls(lambda x: K.is_storage_trait_call(x, nm), crates=("mdk_core",)):
            rep.check(guarded(c.fn, c.bb), rule, "%s/only-after-rollback" % nm,
                      "%s runs only after a successful rollback" % nm,
                      "%s can run without a preceding successful rollback: if the restore is refused (or the process dies before it) the group keeps "
                      "its epoch but its messages / records stay invalidated" % nm, c.loc())


TERMINAL_STATES = ("ProcessedCommit", "Processed", "Failed", "EpochInvalidated")


def _mutating_mls_call(f, c):
    """an OpenMLS MlsGroup method called on a mutable borrow of the group (merge_*, clear_pending_*, store_pending_proposal, ...)"""
    if last_seg(c.self_adt) != "MlsGroup" or not (c.krate or "").startswith("openmls") or not c.args or "p" not in c.args[0]:
        return False
    for l in A.copy_sources(f, c.args[0]["p"][0]):
        if not isinstance(l, int):
            continue
        for bb, kind, x in f.defs().get(l, []):
            if kind == "stmt" and x.get("k") == "ref" and x.get("mutb") == 1:
                return True
    return False


def clause_redelivery_readonly(prog, rep):
    """when the stored record of an event says it was already handled (ProcessedCommit / Processed / Failed / EpochInvalidated), what the
    receive path does for that record never changes the MLS group: the arm of the match on the stored state reaches no OpenMLS call that
    takes the group mutably (e.g. clearing a pending commit while answering for an older, already applied one)"""
    core = K.core_scope(prog)
    roots = prog.find(adt="MDK", name="process_message", crate="mdk_core")
    scope = set(p for p in prog.reachable(roots) if p in core)
    mut = A.ReachCache(prog, lambda c: _mutating_mls_call(c.fn, c))
    n = 0
    for p in sorted(scope):
        f = prog.fns[p]
        for v in TERMINAL_STATES:
            for w, arm in A.variant_arms(prog, f, "ProcessedMessageState", v):
                others = [s_ for s_ in f.succs()[w] if s_ != arm]
                oth = set()
                for o in others:
                    oth |= f.reachable_from(o)
                region = f.reachable_from(arm) - oth
                n += 1
                bad = sorted(set(c.name for c in f.live_calls() if c.bb in region and mut.call(c)))
                rep.check(not bad, "redelivery-readonly", "%s/%s" % (prog.fns.get(f.root, f).label(), v),
                          "what is done for a record in state %s does not touch the MLS group" % v,
                          "for an event whose record says %s the receive path calls %s, which changes the MLS group (pending commit, proposals or epoch): "
                          "re-delivering an already handled event is no longer a no-op" % (v, ", ".join(bad)), f.loc())
    rep.floor("redelivery-readonly", "arms on terminal processed-message states", n, 4)


REMOVERS = ("remove", "pop", "pop_lru", "pop_entry", "remove_entry", "retain", "clear", "drain", "swap_remove", "shift_remove", "truncate")


def clause_resave_evicts_nothing(prog, rep):
    """the memory backend bounds the number of messages kept per group by evicting the oldest one.  Saving a message that is already
    stored (the relay echo of an own message: Created -> Processed; a message processed again after a rollback) must not evict
    anything: every removal from the message maps in save_message happens only when the saved id was found absent"""
    fs = [g for g in prog.find(name="save_message", crate="mdk_memory_storage") if not g.is_closure() and "MessageStorage" in g.path]
    rep.floor("resave-evicts-nothing", "memory MessageStorage::save_message", len(fs), 1)
    n = 0
    for f in fs:
        msg = [l for l in range(1, f.nargs + 1) if last_seg(f.locals[l].replace("&", "")) == "Message" or f.locals[l].endswith("::Message")]
        tests = []
        for c in f.live_calls():
            if c.name in ("contains_key", "contains") and c.krate in ("core", "alloc", "std", "hashbrown", "lru") and len(c.args) == 2 and "p" in c.args[1]:
                dep, _, _ = f.depends_on(c.args[1]["p"][0])
                if any(m in dep for m in msg) and "id" in A.origins(prog, f, c.args[1]["p"][0], scope=None, max_frames=0).fields:
                    tests.append(c)
        absent = set()
        for t in tests:
            te = A.bool_true_edges(f, t)
            for (w, sx) in te:
                for s2 in f.succs()[w]:
                    if s2 != sx:
                        absent.add((w, s2))
        # the same test written as a lookup (`if let Some(existing) = map.get_mut(&id)`, `map.get(&id).is_none()`)
        for c in f.live_calls():
            if c.name not in ("get", "get_mut", "peek", "peek_mut", "get_key_value") or len(c.args) != 2 or "p" not in c.args[1] or not c.dst:
                continue
            if last_seg(c.self_adt) not in ("HashMap", "LruCache", "BTreeMap"):
                continue
            dep, _, _ = f.depends_on(c.args[1]["p"][0])
            if not any(m in dep for m in msg) or "id" not in A.origins(prog, f, c.args[1]["p"][0], scope=None, max_frames=0).fields:
                continue      # (keyed by the message's own id, not by its group)
            copies = set(x for x in f.flows_from({c.dst[0]}, through_calls=False))
            for bb, st in f.stmts():
                if st.get("k") == "discr" and last_seg(st.get("adt")) == "Option" and st["o"] and "p" in st["o"][0] and st["o"][0]["p"][0] in copies:
                    for w in range(f.nblocks()):
                        t = f.term(w)
                        if t["k"] == "switch" and A._opl(t["discr"]) == st["d"][0]:
                            tg = dict((v, b) for v, b in t["targets"])
                            absent.add((w, tg.get(0, t["otherwise"])))
            for y in f.live_calls():
                if y.name in ("is_some", "is_none") and y.args and "p" in y.args[0] and y.args[0]["p"][0] in copies:
                    te = A.bool_true_edges(f, y)
                    if y.name == "is_none":
                        absent |= te
                    else:
                        for (w, sx) in te:
                            absent |= set((w, s2) for s2 in f.succs()[w] if s2 != sx)
        for g in prog.family(f):
            for c in g.live_calls():
                if c.name not in REMOVERS or last_seg(c.self_adt) not in ("HashMap", "LruCache", "BTreeMap", "Vec", "VecDeque", "HashSet"):
                    continue
                n += 1
                at = c.bb
                if g is not f:
                    # inside a closure of save_message: judged where the closure is created / invoked
                    sites = [b for b, st in f.stmts() if st.get("k") == "closure" and st.get("closure") == g.path]
                    at = sites[0] if sites else None
                ok = bool(absent) and at is not None and at not in A.reach_without_edges(f, 0, absent)
                rep.check(ok, "resave-evicts-nothing", "memory/save_message/%s::%s" % (last_seg(c.self_adt), c.name),
                          "an entry is removed only after the saved message's id was found absent from the group's map (a new message in a full group)",
                          "saving a message can remove a stored entry although the saved id is already present: the echo / re-processing of a stored "
                          "message in a full group evicts another stored message", c.loc())
    rep.floor("resave-evicts-nothing", "removals from the message maps in memory save_message", n, 2)


def run(ctx, rep):
    prog = ctx.prog()
    rep.fns_analysed = len(K.core_scope(prog))
    pms = prog.find(adt="MDK", name="process_message", crate="mdk_core")
    rep.floor("entry", "MDK::process_message", len(pms), 1)
    rep.clause("C07.1 the checked dedup lookup dominates every state-touching call of process_message")
    rep.clause("C07.2 dedup state table (symbolic exploration per stored state): Failed / EpochInvalidated end the call early with an Ok result and no write; other states continue")
    rep.clause("C07.3 the MIP-03 comparator is irreflexive (same commit is not better than itself) — decision table shared with C01")
    rep.clause("C07.6 the own-pending-commit shortcut requires ContentType::Commit and a pending commit")
    rep.clause("C07.7 arms handling a record in a terminal state (ProcessedCommit / Processed / Failed / EpochInvalidated) reach no OpenMLS call that takes the group mutably")
    rep.clause("C07.8 memory backend: saving a message whose id is already stored evicts nothing (the per-group bound only applies to new ids)")
    rep.clause("C07.4 a rewritten failure record keeps the message_event_id of the existing record")
    rep.clause("C07.5 mdk-core writes only Created/Processed into messages; invalidation and retry marking run only after a successful rollback")
    rep.not_decided = "MLS-state equality after replays (OpenMLS generation handling), behaviour over repetition counts"
    if not pms:
        return
    pm = pms[0]
    dedup = clause_dedup_first(prog, rep, pm)
    clause_state_table(prog, rep, pm, dedup)
    c01.clause_comparator(prog, rep)
    c01.clause_snapshot_args(prog, rep)
    c01.clause_hydrated_incumbent(prog, rep)
    c01.clause_wrong_epoch_source(prog, rep, rule="dedup-state-table")
    clause_failure_record(prog, rep)
    clause_own_commit_pending(prog, rep)
    clause_state_writes(prog, rep)
    clause_redelivery_readonly(prog, rep)
    clause_resave_evicts_nothing(prog, rep)
    # a re-delivered event of an epoch already left (the proposal a commit covered, an applied commit) reaches the wrong-epoch arm; the
    # rollback decision made there on the wrapper's timestamp and id alone is F16 (shared with C05 / C01)
    rep.clause("C07.9 a rollback is decided only for an authenticated competing commit — never for a re-delivered event of a left epoch (known finding F16)")
    import os
    import sys
    sys.path.insert(0, os.path.dirname(os.path.abspath(__file__)))
    import c05
    c05.clause_rollback_authenticated(prog, rep, "rollback-arm")
    # ... and it goes back to the epoch the re-delivered message itself carries, not to one derived from the group's current epoch
    # (an old applied commit delivered again must not undo a later one): the rollback-arm clause of C01
    c01.clause_rollback_arm(prog, rep)
    rep.clause("C07.10 a later copy of the own-message echo rewrites nothing: only Created / Retryable records take the confirming arm (transition table shared with C02)")
    import c02
    _roots, _scope = c02.recv_scope(prog)
    c02.clause_echo_table(prog, rep, _scope)
