"""C13 — encrypted databases leak nothing at rest and only open with their key (structural clauses)."""
import re
from ir import last_seg
import os
import sys
sys.path.insert(0, os.path.dirname(os.path.abspath(__file__)))
import analysis as A
import sqlmod
import witness

SQ = ("mdk_sqlite_storage",)


def str_args(prog, f, c):
    """SQL/PRAGMA text handed to an execute_batch call: literal or literal pieces of a format template"""
    out = []
    for a in c.args:
        if "c" in a and "str" in a["c"]:
            out.append(a["c"]["str"])
        elif "p" in a:
            # a statement taken from a constant table iterated by a `for` loop: every entry of the table
            tbl = sqlmod.resolve_strs(f, a["p"][0])
            if tbl:
                out.extend(sorted(tbl))
                continue
            dep, calls, consts = f.depends_on(a["p"][0])
            for _, k in consts:
                if isinstance(k, dict) and "str" in k:
                    out.append(k["str"])
                if isinstance(k, dict) and "bytes" in k:
                    raw = k["bytes"]
                    i = 0
                    while i < len(raw):
                        n = ord(raw[i])
                        if 0 < n < 0x80 and i + 1 + n <= len(raw):
                            out.append(raw[i + 1:i + 1 + n])
                            i += 1 + n
                        else:
                            i += 1
    return out


def clause_open(prog, rep):
    opens = prog.all_calls(lambda c: c.name.startswith("open") and last_seg(c.self_adt) == "Connection" and (c.krate or "").startswith("rusqlite"), crates=SQ)
    rep.floor("single-open", "rusqlite::Connection::open* call sites", len(opens), 1)
    roots = sorted(set(prog.fns.get(c.fn.root, c.fn).label() for c in opens))
    # (one opener on the pinned tree; a copy of it per constructor is the same thing as long as each copy keys the connection first)
    unkeyed = [prog.fns.get(c.fn.root, c.fn).label() for c in opens
               if not any(_applies_key(prog, t) for x in c.fn.live_calls() for t in prog.call_targets(x))]
    rep.check(not unkeyed, "single-open", "Connection::open", "every place the database is opened at applies the key to the fresh connection (%s)" % roots,
              "the database is also opened in %s, which never applies the key: every opener must apply the key first" % sorted(set(unkeyed)))
    for c in opens:
        f = c.fn
        # after the open: on the keyed side, a call that guarantees PRAGMA key ... validation dominates the escape of the connection
        enc = [x for x in f.live_calls() if any(_applies_key(prog, t) for t in prog.call_targets(x))]
        if not enc:
            continue     # reported above
        for x in enc:
            # the keying call is checked, and is the first thing done with the connection
            first = True
            conn_locals = f.flows_from({c.dst[0]}, through_calls=True, stop_calls=lambda z: z.krate not in ("core", "alloc", "std")) if c.dst else set()
            before_x = A.reach_without_edges(f, c.t["to"], set(), frozenset([x.bb])) if "to" in c.t else set()
            for y in f.live_calls():
                if y is x or y is c or _is_unwrap(y):
                    continue
                if not (y.args and any("p" in a and a["p"][0] in conn_locals for a in y.args)):
                    continue
                # another use of the fresh connection that can run first and still be followed by the keying step
                if y.bb in before_x and x.bb in f.reachable_from(y.bb):
                    first = False
            rep.check(A.call_is_checked(f, x) and first, "key-first", "open/apply-key", "the key is applied (checked) before any other use of the fresh connection",
                      "the fresh connection is used before / without the checked keying step", x.loc())
            # keyed iff a config is supplied: the keying call is control-dependent on the Option<&EncryptionConfig> argument
            cds = A.control_dependent_switches(f, x.bb)
            dep_ok = False
            for w in cds:
                l = A._opl(f.term(w)["discr"])
                dep, _, _ = f.depends_on(l)
                # (a parameter of the opener; after the opener was folded into a constructor, the constructor's own Option<EncryptionConfig>)
                if any("EncryptionConfig" in f.locals[p] and "Option" in f.locals[p] for p in dep):
                    dep_ok = True
            rep.check(dep_ok, "key-first", "open/keyed-iff-config", "the key is applied exactly when an EncryptionConfig is supplied",
                      "applying the key no longer depends on the supplied EncryptionConfig", x.loc())


def _is_unwrap(c):
    return c.name in ("branch", "from_residual", "unwrap", "expect")


def _applies_key(prog, t):
    for p in prog.extent(t):
        g = prog.fns.get(p)
        if g and g.crate == "mdk_sqlite_storage":
            for c in g.live_calls():
                if c.name == "execute_batch" and any("PRAGMA key" in s for s in str_args(prog, g, c)):
                    return True
    return False


def _complete_const_loop(prog, f, c):
    """c runs once per entry of a constant table on every Ok path: its statement comes from `for s in TABLE`, every Ok path passes the
    loop head, and the loop body after c only goes back to the head or fails (`?`) — no break, no early Ok return"""
    if not c.args or "p" not in c.args[-1] or not sqlmod.resolve_strs(f, c.args[-1]["p"][0]):
        return False
    dep, calls, _ = f.depends_on(c.args[-1]["p"][0])
    heads = [x for x in calls if x.name == "next" and x.krate in ("core", "alloc", "std")]
    if len(heads) != 1:
        return False
    h = heads[0]
    if not A.MustPass(prog, lambda x: x is h).fn(f) or "to" not in c.t:
        return False
    r = A.reach_without_edges(f, c.t["to"], set(), frozenset([h.bb]) | A.err_exit_blocks(f))
    return not any(f.term(b)["k"] == "return" for b in r)


def clause_pragmas(prog, rep):
    fns = [f for f in prog.nontest_fns(SQ) if any(c.name == "execute_batch" and any("PRAGMA key" in s for s in str_args(prog, f, c)) for c in f.live_calls())]
    rep.floor("pragma-order", "function executing PRAGMA key", len(fns), 1)
    for f in fns:
        seq = []
        for c in f.live_calls():
            if c.name in ("execute_batch", "execute", "query_row", "prepare") and last_seg(c.self_adt) == "Connection":
                seq.append((c, " ".join(str_args(prog, f, c))))
            elif any(any(y.name == "query_row" for y in t.live_calls()) for t in prog.call_targets(c) if t.crate == "mdk_sqlite_storage"):
                seq.append((c, "<validation read>"))
        key = [c for c, s in seq if "PRAGMA key" in s]
        compat = [c for c, s in seq if "cipher_compatibility" in s]
        temp = [c for c, s in seq if "temp_store" in s and "MEMORY" in s.upper()]
        valid = [c for c, s in seq if s == "<validation read>" or "sqlite_master" in s]
        rep.check(len(key) == 1 and all(A.succ_dominated(f, c.bb, key) for c, s in seq if c not in key), "pragma-order", "key-is-first",
                  "PRAGMA key is the first statement on the connection and its success dominates every later statement",
                  "a statement can run on the connection before (or without) a successful PRAGMA key", f.loc())
        rep.check(bool(compat) and (A.MustPass(prog, lambda c: c in compat).fn(f) or any(_complete_const_loop(prog, f, c) for c in compat)), "pragma-order", "cipher-compatibility", "cipher_compatibility is pinned on every Ok path",
                  "cipher_compatibility is not pinned on every Ok path", f.loc())
        rep.check(bool(temp) and (A.MustPass(prog, lambda c: c in temp).fn(f) or any(_complete_const_loop(prog, f, c) for c in temp)), "pragma-order", "temp-store-memory",
                  "temp_store = MEMORY on every Ok path (no plaintext temp-file spill)", "temp_store = MEMORY is not set on every Ok path: temporary tables may spill to plaintext files", f.loc())
        rep.check(bool(valid) and all(A.call_is_checked(f, c) for c in valid) and A.MustPass(prog, lambda c: c in valid).fn(f), "pragma-order", "validating-read",
                  "a checked validating read follows on every Ok path (wrong key / plain file is refused)",
                  "the key is not validated by a checked read on every Ok path: a wrong key or unencrypted file would be accepted", f.loc())
        # the formatted key string flows only into execute_batch
        for c in f.live_calls():
            if c.name == "to_sqlcipher_key" and c.dst:
                fl = f.flows_from({c.dst[0]}, through_calls=True)
                bad = [x for x in f.live_calls() if x.name not in ("execute_batch", "format", "new", "new_display", "deref", "as_str", "must_use", "branch", "from_residual", "drop")
                       and any("p" in a and a["p"][0] in fl for a in x.args) and not (x.resolved or "").startswith(("core::fmt", "alloc::fmt", "core::hint"))]
                rep.check(not bad, "pragma-order", "key-string-sinks", "the formatted key reaches only Connection::execute_batch",
                          "the formatted key string also reaches %s" % sorted(set(x.name for x in bad)), c.loc())
    # wrong key maps to an error
    v = [f for f in prog.nontest_fns(SQ) if any(True for _ in f.aggregates("Error", "WrongEncryptionKey"))]
    rep.check(bool(v), "pragma-order", "wrong-key-error", "a failing validation read maps to Error::WrongEncryptionKey", "Error::WrongEncryptionKey is never produced")


def clause_permissions(prog, rep):
    modes = {}
    for f in prog.nontest_fns(SQ):
        for c in f.live_calls():
            if c.name == "from_mode":
                for a in c.args:
                    if "c" in a and "int" in a["c"]:
                        modes.setdefault(f.name, set()).add(a["c"]["int"])
                    elif "p" in a:
                        # the mode handed in as a parameter / named constant: every constant that can flow into it
                        for _, k in f.depends_on(a["p"][0])[2]:
                            if isinstance(k, dict) and isinstance(k.get("int"), int):
                                modes.setdefault(f.name, set()).add(k["int"])
    rep.check(any(0o600 in v for v in modes.values()) and any(0o700 in v for v in modes.values()) and
              all(v <= {0o600, 0o700} for v in modes.values()), "permissions", "mode-constants",
              "files are set to 0600 and directories to 0700 (%s)" % {k: [oct(x) for x in v] for k, v in modes.items()},
              "permission constants are %s (expected only 0600 / 0700)" % {k: [oct(x) for x in v] for k, v in modes.items()})
    pre = [f for f in prog.nontest_fns(SQ) if f.name == "precreate_secure_database_file"]
    rep.floor("permissions", "precreate_secure_database_file", len(pre), 1)
    chmod = A.ReachCache(prog, lambda c: c.name == "set_permissions")
    for f in pre:
        cn = [c for c in f.live_calls() if c.name == "create_new" and last_seg(c.self_adt) == "OpenOptions"]
        ok_excl = False
        for c in cn:
            if len(c.args) > 1 and (("c" in c.args[1] and c.args[1]["c"].get("int") == 1) or
                                    ("p" in c.args[1] and any(isinstance(k, dict) and k.get("int") == 1 for _, k in f.depends_on(c.args[1]["p"][0])[2]))):
                ok_excl = True
        rep.check(ok_excl, "permissions", "create-new", "the database file is created with create_new(true) (O_EXCL)", "the database file is not created exclusively", f.loc())
        op = [c for c in f.live_calls() if c.name == "open" and last_seg(c.self_adt) == "OpenOptions"]
        for c in op:
            tests, _ = A.result_tests(f, {c.dst[0]})
            succ = set()
            for w, oks in tests.items():
                succ |= oks
            cb = frozenset(x.bb for x in f.live_calls() if chmod.call(x))
            esc = any(A.ok_return_reachable(f, s, cb) for s in succ)
            # or: the creating open(2) itself carries an owner-only mode (OpenOptionsExt::mode dominating the open, no group / other bits)
            at_create = False
            for m_ in f.live_calls():
                if m_.name == "mode" and "OpenOptions" in (m_.self_ty or m_.self_adt or " ".join(m_.gen or [])) and len(m_.args) > 1 and f.dominates(m_.bb, c.bb):
                    a = m_.args[1]
                    vals = [a["c"]["int"]] if ("c" in a and "int" in a["c"]) else [k.get("int") for _, k in (f.depends_on(a["p"][0])[2] if "p" in a else []) if isinstance(k, dict) and "int" in k]
                    if vals and all(v is not None and v & 0o077 == 0 for v in vals):
                        at_create = True
            rep.check(bool(succ) and ((bool(cb) and not esc) or at_create), "permissions", "chmod-after-create",
                      "the created file is owner-only: %s" % ("mode set by the creating open itself" if at_create else "every Ok return after creating the file passes the chmod"),
                      "the file can be created and returned without restricting its permissions", c.loc())
        # AlreadyExists is told apart
        rep.check(any(True for _ in f.aggregates("FileCreationOutcome", "AlreadyExisted")), "permissions", "already-existed-outcome",
                  "an existing file is reported as AlreadyExisted", "precreate no longer reports AlreadyExisted")
    # directories: whatever creates one (create_dir / create_dir_all / DirBuilder::create) restricts it before returning Ok
    mk = [c for g in prog.nontest_fns(SQ) for c in g.live_calls()
          if (c.name in ("create_dir", "create_dir_all") and (c.krate or "") == "std") or (c.name == "create" and last_seg(c.self_adt) == "DirBuilder")]
    rep.floor("permissions", "directory-creating calls", len(mk), 1)
    for c in mk:
        g = c.fn
        cb = frozenset(x.bb for x in g.live_calls() if chmod.call(x))
        # the builder form may carry the mode itself (DirBuilderExt::mode(0o700))
        with_mode = c.name == "create" and any(m_.name == "mode" and g.dominates(m_.bb, c.bb) and len(m_.args) > 1 and
                                               isinstance(m_.args[1].get("c"), dict) and isinstance(m_.args[1]["c"].get("int"), int)
                                               and m_.args[1]["c"]["int"] & 0o077 == 0 for m_ in g.live_calls())
        esc = "to" in c.t and A.ok_return_reachable(g, c.t["to"], cb)
        rep.check(with_mode or (bool(cb) and not esc), "permissions", "chmod-after-mkdir/%s" % prog.fns.get(g.root, g).name,
                  "a directory created for the database is restricted to its owner before the creating function returns Ok",
                  "%s can create the database's directory (std::fs::%s) and return Ok without restricting it to the owner: the directory "
                  "holding the database is left with default (umask) permissions" % (prog.fns.get(g.root, g).label(), c.name), c.loc())
    # opening the storage re-applies permissions to the db file and its sidecars on every Ok path
    ctor = [f for f in prog.nontest_fns(SQ) if any(c.name.startswith("open") and last_seg(c.self_adt) == "Connection" for t in [f] for c in [] )]
    news = [f for f in prog.nontest_fns(SQ) if last_seg(f.self_adt) == "MdkSqliteStorage" and f.is_pub() and f.name.startswith("new")]
    rep.floor("permissions", "public MdkSqliteStorage constructors", len(news), 3)
    mp = A.MustPass(prog, lambda c: c.name == "set_permissions")
    pp = A.MustPass(prog, lambda c: any(t.name == "precreate_secure_database_file" for t in prog.call_targets(c)))
    # the function that restricts the main file *and* its sidecars (recognised by the sidecar suffix constants it handles)
    perm_fns = set(g.path for g in prog.nontest_fns(SQ) if not g.is_closure() and {"-wal", "-shm", "-journal"} <= set(x for _, x in g.str_consts())
                   and A.ReachCache(prog, lambda c: c.name == "set_permissions").fn(g.path))
    rep.floor("permissions", "function restricting the database file and its sidecars", len(perm_fns), 1)
    ap = A.MustPass(prog, lambda c: any(t.path in perm_fns for t in prog.call_targets(c)))
    for f in news:
        rep.check(ap.fn(f), "permissions", "%s/restrict-on-every-open" % f.name,
                  "every successful open re-applies owner-only permissions to the database file and its sidecars (also when the file already existed)",
                  "constructor %s can succeed without restricting the permissions of the database file / sidecars (e.g. when the file already "
                  "existed): a database restored or pre-created with loose permissions stays readable by others" % f.name, f.loc())
    for f in news:
        rep.check(pp.fn(f), "permissions", "%s/precreate" % f.name, "every Ok path of the constructor pre-creates the file securely",
                  "constructor %s can succeed without the secure pre-creation step" % f.name, f.loc())
    sidecars = set(s for f in prog.nontest_fns(SQ) for _, s in f.str_consts() if s in ("-wal", "-shm", "-journal"))
    rep.check(sidecars == {"-wal", "-shm", "-journal"}, "permissions", "sidecars", "WAL, SHM and journal sidecars are chmod-ed too", "sidecar suffixes handled: %s" % sorted(sidecars))
    # and the path built from each suffix is what gets restricted (not merely mentioned): the chmod helper is called with — or, in an
    # iterator chain, applied (`try_for_each(set_secure_file_permissions)`) to — paths joined from the suffixes being iterated
    chm = A.ReachCache(prog, lambda c: c.name == "set_permissions")
    ITER = ("next", "into_iter", "iter")
    fed = False
    main_fed = False
    named = None
    for pth in sorted(perm_fns):
        root = prog.fns[pth]
        fam = prog.family(root)
        scope = set(g.path for g in fam)
        for g in fam:
            for c in g.live_calls():
                applied = [a for a in c.args if isinstance(a.get("c"), dict) and a["c"].get("fn") in prog.fns and chm.fn(a["c"]["fn"])]
                if chm.call(c) or applied:
                    srcs = [a for a in c.args if "p" in a]
                    for a in srcs:
                        og = A.origins(prog, g, a["p"][0], scope=scope, max_frames=3)
                        names = og.call_names()
                        if "join" in names and (set(ITER) & names):
                            fed = True
                        if "join" not in names and not (set(ITER) & names) and any(pf.path == root.path for pf, _l in og.params):
                            main_fed = True
                if c.name == "join" and len(c.args) > 1 and "p" in c.args[1]:
                    og = A.origins(prog, g, c.args[1]["p"][0], scope=scope, max_frames=3)
                    names = og.call_names()
                    if set(ITER) & names:
                        named = ("file_name" in names) and not ({"file_stem", "file_prefix", "with_extension"} & names)
    rep.check(named is True, "permissions", "sidecars/named-after-file", "sidecar paths are <file name><suffix> (Path::file_name)",
              "the sidecar paths are not built from the database's full file name (Path::file_name): for `x.db` the files `x.db-wal`, "
              "`x.db-shm`, `x.db-journal` are never restricted")
    rep.check(main_fed, "permissions", "main-file/restricted", "the database path itself (not only its sidecars) is handed to the chmod helper on open",
              "the function that re-applies permissions on open no longer restricts the main database file (only paths joined from the "
              "sidecar suffixes): a database file that already existed with a lax mode (restored, copied) stays readable by others")
    rep.check(fed, "permissions", "sidecars/restricted", "the path joined from each sidecar suffix is handed to the chmod helper",
              "the sidecar paths are built but never restricted: WAL / journal files keep default permissions")


def clause_keyring(prog, rep):
    goc = [f for f in prog.nontest_fns(SQ) if f.name == "get_or_create_db_key" and not f.is_closure()]
    rep.floor("keyring", "keyring::get_or_create_db_key", len(goc), 1)
    for f in goc:
        sets = [c for c in f.live_calls() if c.name == "set_secret"]
        locks = [c for c in f.live_calls() if c.name == "lock" and last_seg(c.self_adt) == "Mutex"]
        gens = [c for c in f.live_calls() if c.name == "generate" and last_seg(c.self_adt) == "EncryptionConfig"]
        gets = [c for c in f.live_calls() if any(t.name == "get_db_key" for t in prog.call_targets(c))]
        rep.floor("keyring", "set_secret / lock / generate / lookups", min(len(sets), len(locks), len(gens)), 1)
        import c19 as _c19
        held = set()
        for l_ in locks:
            region, _g = _c19.live_region(f, l_)
            held |= region
        for c in sets + gens:
            # acquired before *and still held*: the call lies inside the guard's live range
            rep.check(A.succ_dominated(f, c.bb, locks) and c.bb in held, "keyring", "%s/under-lock" % c.name, "%s happens while the process-wide lock is held" % c.name,
                      "%s can run without holding the key-generation lock: two threads may generate different keys" % c.name, c.loc())
            # a second lookup after the lock: a lookup call dominated by the lock dominates the generation
            after = [g for g in gets if locks and A.succ_dominated(f, g.bb, locks)]
            rechecked = False
            for g in after:
                # generation only on the None side of the re-check
                if g.dst and c.bb not in A.reach_without_edges(f, 0, set(), frozenset([g.bb])):
                    rechecked = True
            rep.check(rechecked, "keyring", "%s/recheck-after-lock" % c.name, "the keyring is looked up again after taking the lock, before %s" % c.name,
                      "no second keyring lookup between taking the lock and %s: a key stored by a concurrent opener is overwritten" % c.name, c.loc())
        # the stored secret is the generated key
        for c in sets:
            og = A.origins(prog, f, c.args[-1]["p"][0], scope=None, max_frames=1) if "p" in c.args[-1] else None
            rep.check(bool(og) and og.has_call(lambda x: x.name == "generate"), "keyring", "stored-is-generated", "the key stored in the keyring is the one returned",
                      "the key stored is not the generated config's key", c.loc())
    # existing-file branch never generates a key
    news = [f for f in prog.nontest_fns(SQ) if last_seg(f.self_adt) == "MdkSqliteStorage" and f.name == "new" and f.is_pub()]
    gen = A.ReachCache(prog, lambda c: (c.name == "generate" and last_seg(c.self_adt) == "EncryptionConfig") or c.name == "set_secret")
    for f in news:
        arms = A.variant_arms(prog, f, "FileCreationOutcome", "AlreadyExisted")
        rep.floor("keyring", "AlreadyExisted arm in MdkSqliteStorage::new", len(arms), 1)
        for w, arm in arms:
            # region of the arm up to the merge with the other arms: blocks reachable from the arm but not from the other arms
            others = [s for s in f.succs()[w] if s != arm]
            oth = set()
            for o in others:
                oth |= f.reachable_from(o)
            region = f.reachable_from(arm) - oth
            bad = [c for c in f.live_calls() if c.bb in region and gen.call(c)]
            rep.check(not bad, "keyring", "existing-file-never-generates",
                      "when the file already existed no key is generated or stored (a missing keyring entry is an error)",
                      "the AlreadyExisted branch can generate / store a new key (%s): an existing encrypted database would be re-keyed or become unreadable" % [c.name for c in bad], f.loc())
        # AlreadyExisted + no key + plain file => dedicated error
        import predicates as _P
        fam = _P.family(prog, f)
        rep.check(any(True for g in fam for _ in g.aggregates("Error", "UnencryptedDatabaseWithEncryption"))
                  and any(True for g in fam for _ in g.aggregates("Error", "KeyringEntryMissingForExistingDatabase")),
                  "keyring", "existing-file-errors", "missing entry for an existing file is refused (plain file and encrypted file told apart)",
                  "the existing-file errors are no longer produced", f.loc())
        # the keyring is consulted before the file's header: a concurrent first opener has created the (still empty) file and stored the
        # key; looking at the header first takes the empty file for a plain database and refuses, although the key to use is there
        encs = [c for c in f.live_calls() if any(t.name == "is_database_encrypted" for t in prog.call_targets(c))]
        gets_f = [c for c in f.live_calls() if any(t.name == "get_db_key" for t in prog.call_targets(c))]
        for w, arm in arms:
            for e in encs:
                if e.bb not in f.reachable_from(arm):
                    continue
                gb = frozenset(g.bb for g in gets_f)
                rep.check(bool(gets_f) and (arm in gb or e.bb not in A.reach_without_edges(f, arm, set(), gb)),
                          "keyring", "existing-file/keyring-before-header",
                          "for a file that already existed the keyring lookup precedes the look at the file's header",
                          "for a file that already existed the header is inspected before the keyring is consulted: an empty file just created by a "
                          "concurrent opener (its key already stored) is taken for a plain database and refused", e.loc())
    # opening a database never deletes a keyring entry ("created once and reused")
    dele = A.ReachCache(prog, lambda c: c.name in ("delete_credential", "delete_password", "delete_secret") or
                        any(t.name == "delete_db_key" for t in prog.call_targets(c)))
    for f in [g for g in prog.nontest_fns(SQ) if last_seg(g.self_adt) == "MdkSqliteStorage" and g.is_pub() and g.name.startswith("new")]:
        rep.check(not dele.fn(f.path), "keyring", "%s/never-deletes-key" % f.name, "opening a database never deletes a keyring entry",
                  "constructor %s can delete the stored database key: a key already in use by an existing database is thrown away and regenerated" % f.name, f.loc())
    # "no key yet" is what the keyring answers with NoEntry — nothing else: a read that fails for another reason (platform failure,
    # ambiguous entries) must not be taken for an absent key, or the creating path generates a fresh key over the one in use
    n_none = 0
    for f in prog.nontest_fns(SQ):
        if f.is_closure() or not any(c.name in ("get_secret", "get_password") for c in f.live_calls()):
            continue
        for bb, st in f.aggregates("Option", "None"):
            # a None that becomes the function's Ok result
            if not any(s2.get("k") == "agg" and s2.get("variant") == "Ok" and s2.get("o") and "p" in s2["o"][0] and s2["o"][0]["p"][0] in
                       f.flows_from({st["d"][0]}, through_calls=False) | {st["d"][0]} for _, s2 in f.stmts()):
                continue
            n_none += 1
            rep.check(A.arm_only(prog, f, bb, "Error", {"NoEntry"}), "keyring", "%s/absent-only-on-NoEntry" % f.name,
                      "the lookup answers \"no key stored\" only on the keyring's NoEntry",
                      "%s answers Ok(None) (\"no key stored\") for keyring errors other than NoEntry: a failing read on the creating path makes "
                      "get_or_create generate a new key and store it over the one existing databases were encrypted with" % f.label(),
                      "%s:%s" % (f.file, st.get("line")))
    rep.floor("keyring", "\"no key stored\" answers of the keyring lookup", n_none, 1)
    # only the unencrypted constructor passes None as key
    # (which Option<EncryptionConfig> values reach the test that decides whether the fresh connection is keyed, and where they are built)
    none_callers = []
    opens = prog.all_calls(lambda c: c.name.startswith("open") and last_seg(c.self_adt) == "Connection" and (c.krate or "").startswith("rusqlite"), crates=SQ)
    for oc in opens:
        f = oc.fn
        for x in f.live_calls():
            if not any(_applies_key(prog, t) for t in prog.call_targets(x)):
                continue
            for w in A.control_dependent_switches(f, x.bb):
                dep, _, _ = f.depends_on(A._opl(f.term(w)["discr"]))
                for l in sorted(dep):
                    if "EncryptionConfig" in f.locals[l] and "Option" in f.locals[l]:
                        for g, variant in _option_builders(prog, f, l):
                            if variant == "None":
                                none_callers.append(g.name)
    rep.check(sorted(set(none_callers)) == ["new_unencrypted"], "keyring", "none-key-only-unencrypted", "only new_unencrypted opens without a key",
              "constructors opening without a key: %s" % sorted(set(none_callers)))
    # new_with_key refuses an existing plain file
    for f in [g for g in prog.nontest_fns(SQ) if last_seg(g.self_adt) == "MdkSqliteStorage" and g.name == "new_with_key"]:
        enc = [c for c in f.live_calls() if any(t.name == "is_database_encrypted" for t in prog.call_targets(c))]
        rep.check(bool(enc) and any(True for _ in f.aggregates("Error", "UnencryptedDatabaseWithEncryption")), "keyring", "with-key-refuses-plain",
                  "new_with_key checks the header of an existing file and refuses a plain database", "new_with_key no longer refuses an existing unencrypted file", f.loc())


def _option_builders(prog, f, local, seen=None):
    """(function, variant) for every place the Option value held by `local` is built (copies, `as_ref`, parameters followed to the callers)"""
    seen = seen if seen is not None else set()
    out = []
    st = [local]
    while st:
        l = st.pop()
        if (f.path, l) in seen:
            continue
        seen.add((f.path, l))
        defs = f.defs().get(l, [])
        for bb, kind, x in defs:
            if kind == "stmt" and x.get("k") == "agg" and last_seg(x.get("adt")) == "Option" and len(x["d"]) == 1:
                out.append((prog.fns.get(f.root, f), x.get("variant")))
            elif kind == "stmt" and x.get("k") in ("use", "ref", "cast") and len(x["d"]) == 1 and x.get("o") and "p" in x["o"][0]:
                st.append(x["o"][0]["p"][0])
            elif kind == "stmt" and x.get("k") == "use" and x.get("o") and isinstance(x["o"][0].get("c"), dict) and x["o"][0]["c"].get("variant"):
                out.append((prog.fns.get(f.root, f), x["o"][0]["c"]["variant"]))
            elif kind == "call" and x.dst and x.dst[0] == l and x.name in ("as_ref", "clone", "as_mut", "take", "cloned", "copied") and x.args and "p" in x.args[0]:
                st.append(x.args[0]["p"][0])
        if 1 <= l <= f.nargs and not any(k2 == "stmt" for _, k2, _ in defs) and not f.is_closure():
            for p in sorted(prog.redges().get(f.path, ())):
                cf = prog.fns[p]
                if cf.is_test_like() or cf.crate != f.crate:
                    continue
                for c in cf.live_calls():
                    if any(t.path == f.path for t in prog.call_targets(c)) and l - 1 < len(c.args):
                        a = c.args[l - 1]
                        if "p" in a:
                            out += _option_builders(prog, cf, a["p"][0], seen)
                        elif isinstance(a.get("c"), dict) and a["c"].get("variant"):
                            out.append((prog.fns.get(cf.root, cf), a["c"]["variant"]))
    return out


def clause_names(prog, rep):
    import common as K
    K.clause_swapped_args(prog, rep, "keyring", lambda fl: "mdk-sqlite-storage" in fl or "mdk-uniffi" in fl, 4)


def run(ctx, rep):
    prog = ctx.prog()
    rep.fns_analysed = len(list(prog.nontest_fns(SQ)))
    rep.clause("C13.1 one place opens the database; when a config is supplied a checked keying step precedes every other use of the connection")
    rep.clause("C13.2 PRAGMA key is first and checked; cipher_compatibility, temp_store=MEMORY and a checked validating read are on every Ok path; the formatted key reaches only execute_batch")
    rep.clause("C13.3 0600/0700 constants, create_new(true), chmod on every Ok path after creation, sidecars, every public constructor pre-creates securely")
    rep.clause("C13.4 keyring: generate/set_secret only under the process lock and after a second lookup; the existing-file branch never generates; only new_unencrypted passes no key; new_with_key refuses a plain file")
    rep.clause("C13.5 witnesses: EncryptionConfig has no Display/Serialize, its key field and the storage's connection are private")
    rep.not_decided = "what bytes reach the main/WAL/journal files (SQLCipher C code), opening with a wrong key at run time, cross-process first-open races, non-unix permission semantics (cfg(not(unix)) code is outside the analysed build)"
    clause_open(prog, rep)
    clause_pragmas(prog, rep)
    clause_permissions(prog, rep)
    clause_keyring(prog, rep)
    clause_names(prog, rep)
    witness.check_examples(rep, ctx.witness(), ["cf_encconfig_display", "ok_encconfig_display", "cf_encconfig_serialize", "ok_encconfig_serialize",
                                                "cf_encconfig_key_private", "ok_encconfig_key_private", "cf_sqlite_connection_private", "ok_sqlite_connection_private"])
