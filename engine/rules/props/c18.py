"""C18 — message listing is one total order; pages and last-message pointer agree (structural clauses)."""
from ir import last_seg
import analysis as A
import common as K
import sqlmod
import cmpeval
import sqlrules
import dtable

CANON = {"CreatedAtFirst": ["created_at", "processed_at", "id"], "ProcessedAtFirst": ["processed_at", "created_at", "id"]}
METHOD_CMP = {"display_order_cmp": "CreatedAtFirst", "processed_at_order_cmp": "ProcessedAtFirst"}


def comparator_tables(prog, rep, rule="comparator"):
    chains = {}
    for mname, variant in METHOD_CMP.items():
        fs = prog.find(adt="Message", name=mname, crate="mdk_storage_traits")
        rep.floor(rule, "Message::%s" % mname, len(fs), 1)
        if not fs:
            continue
        f = fs[0]
        try:
            tbl = cmpeval.table(prog, f, {1: ("param", "A", 1), 2: ("param", "B", 2)}, "A", "B")
        except dtable.Undecided as e:
            rep.violation(rule, "Message::%s" % mname, "comparator can no longer be enumerated: %s" % e, f.loc())
            continue
        mc = cmpeval.match_chain(tbl)
        ok = mc is not None and mc[0] == CANON[variant] and mc[1] == 1
        rep.check(ok, rule, "Message::%s" % mname,
                  "27-row decision table = lexicographic order on %s (Greater = sorts first)" % CANON[variant],
                  "comparator table is %s, documented order is lexicographic on %s" % (("lexicographic on %s sign %d" % mc) if mc else "not a lexicographic order of the three keys (not total/antisymmetric)", CANON[variant]),
                  f.loc())
        if mc:
            chains[variant] = mc[0]
    return chains


def arm_variant(prog, f, bb, adt_last):
    adt = [a for p, a in prog.adts.items() if last_seg(p) == adt_last and a["kind"] == "enum"]
    if not adt:
        return None
    for v in adt[0]["variants"]:
        if A.arm_only(prog, f, bb, adt_last, {v["name"]}):
            return v["name"]
    return None


def sqlite_orders(prog, rep, sites, mname):
    out = {}
    fs = prog.find(adt="MdkSqliteStorage", name=mname, trait="GroupStorage")
    rep.floor("order-by", "<MdkSqliteStorage as GroupStorage>::%s" % mname, len(fs), 1)
    if not fs:
        return out
    fam = set(g.path for g in prog.family(fs[0]))
    for s in sites:
        if s.fn.path not in fam and s.fn.root != fs[0].path:
            continue
        if s.stmt.kind == "SELECT" and s.stmt.table == "messages" and s.stmt.order_by:
            v = arm_variant(prog, s.fn, s.bb, "MessageSortOrder")
            if v is None:
                # the statement is assembled from a constant chosen per sort order (`format!(".. ORDER BY {} ..", order_by(sort_order))`):
                # the arm is the one that picks the constant
                for b in getattr(s, "val_bbs", []) or []:
                    v = v or arm_variant(prog, s.fn, b, "MessageSortOrder")
            out.setdefault(v, []).append(s)
    return out


KEY_ADAPTORS = {"sort_by": ("sort_by_key", "sort_unstable_by_key", "sort_by_cached_key"), "max_by": ("max_by_key",)}
CMP_ADAPTORS = {"sort_by": ("sort_by", "sort_unstable_by"), "max_by": ("max_by",)}


def key_chain(cl):
    """for a key-extraction closure (`|m| Reverse((m.created_at, m.processed_at, m.id))`): (field chain, reversed?) or None"""
    ret = [s for bb, s in cl.stmts() if s["d"] == [0]]
    if len(ret) != 1:
        return None
    r = ret[0]
    rev = False
    inner = None
    if r.get("k") == "agg" and last_seg(r.get("adt")) == "Reverse" and r.get("o") and "p" in r["o"][0]:
        rev = True
        inner = r["o"][0]["p"][0]
    elif r.get("k") == "tuple":
        inner = 0
    elif r.get("k") == "use" and r.get("o") and "p" in r["o"][0]:
        inner = r["o"][0]["p"][0]
    if inner is None:
        return None
    tup = [s for bb, s in cl.stmts() if s["d"] == [inner] and s.get("k") == "tuple"]
    if len(tup) != 1:
        return None
    chain = []
    for o in tup[0]["o"]:
        if "p" not in o:
            return None
        l = o["p"][0]
        flds = [e[1:] for e in o["p"][1:] if isinstance(e, str) and e.startswith(".")]
        if not flds:
            for bb, s in cl.stmts():
                if s["d"] == [l] and s.get("k") in ("use", "ref") and s["o"] and "p" in s["o"][0]:
                    flds = [e[1:] for e in s["o"][0]["p"][1:] if isinstance(e, str) and e.startswith(".")]
        if len(flds) != 1:
            return None
        chain.append(flds[0])
    return chain, rev


KEYED = {}     # closure path -> True when it is a key-extraction closure (sort_by_key family)
INDIRECT = {}  # (closure path, variant) -> comparator function the closure calls through a pointer for that sort order


def memory_sort_closures(prog, rep, mname, adaptor):
    """{variant: closure Fn} for closures passed to sort_by / max_by (or their *_by_key forms) in the memory backend's method"""
    out = {}
    fs = prog.find(adt="MdkMemoryStorage", name=mname, trait="GroupStorage")
    rep.floor("memory-sort", "<MdkMemoryStorage as GroupStorage>::%s" % mname, len(fs), 1)
    if not fs:
        return out
    f0 = fs[0]
    fam = prog.family(f0)
    fam_paths = set(g.path for g in fam)
    for f, bb, s in [(g, bb, s) for g in fam for bb, s in g.stmts()]:
        if s.get("k") != "closure" or s["closure"] not in prog.fns:
            continue
        cl = prog.fns[s["closure"]]
        fl = f.flows_from({s["d"][0]}, through_calls=False)
        used = [c for c in f.live_calls() if c.name in CMP_ADAPTORS[adaptor] + KEY_ADAPTORS[adaptor] and any("p" in a and a["p"][0] in fl for a in c.args)]
        if not used:
            continue
        v = arm_variant(prog, f, bb, "MessageSortOrder")
        KEYED[cl.path] = used[0].name in KEY_ADAPTORS[adaptor]
        if v is None:
            # one closure for both orders, calling a comparator that was picked per sort order beforehand
            # (`let cmp = match order { CreatedAtFirst => Message::display_order_cmp, .. }; v.sort_by(|a, b| cmp(b, a))`):
            # the function item each arm puts into the captured pointer
            picked = {}
            for o in s.get("o", []):
                if "p" not in o:
                    continue
                og = A.origins(prog, f, o["p"][0], scope=fam_paths, max_frames=3)
                for hf, hbb, kc in og.consts:
                    if isinstance(kc, dict) and kc.get("fn") in prog.fns:
                        av = arm_variant(prog, hf, hbb, "MessageSortOrder")
                        if av:
                            picked[av] = kc["fn"]
            for av, fnp in picked.items():
                out[av] = cl
                INDIRECT[(cl.path, av)] = fnp
            continue
        out[v] = cl
    return out


def clause_orders(prog, rep, sch, sites):
    chains = comparator_tables(prog, rep)
    for mname, adaptor, sign_want in (("messages", "sort_by", -1), ("last_message", "max_by", 1)):
        so = sqlite_orders(prog, rep, sites, mname)
        mc = memory_sort_closures(prog, rep, mname, adaptor)
        for variant, canon in CANON.items():
            ss = so.get(variant, [])
            rep.floor("order-by", "SQLite %s query for %s" % (mname, variant), len(ss), 1)
            for s in ss:
                cols = [c for c, d in s.stmt.order_by]
                dirs = set(d for c, d in s.stmt.order_by)
                rep.check(cols == canon and dirs == {"DESC"}, "order-by", "sqlite/%s/%s" % (mname, variant),
                          "ORDER BY %s all DESC = canonical comparator chain" % cols,
                          "ORDER BY %s (%s) differs from the canonical order %s DESC" % (s.stmt.order_by, variant, canon), s.loc())
                rep.check(chains.get(variant) == cols, "order-by", "sqlite-vs-comparator/%s/%s" % (mname, variant),
                          "ORDER BY list equals the key chain extracted from the comparator the memory backend sorts with",
                          "ORDER BY list %s differs from the comparator's key chain %s" % (cols, chains.get(variant)), s.loc())
                scoped = ("mls_group_id", "=", "?") in s.stmt.where
                rep.check(scoped, "order-by", "sqlite/%s/%s/scoped" % (mname, variant), "listing is scoped to the group", "listing query is not scoped to the group", s.loc())
                if mname == "messages":
                    rep.check(s.stmt.limit == "?" and s.stmt.offset == "?", "pagination", "sqlite/messages/%s/limit-offset" % variant,
                              "LIMIT ? OFFSET ? are bound parameters", "LIMIT/OFFSET are not both bound parameters: %s/%s" % (s.stmt.limit, s.stmt.offset), s.loc())
                else:
                    rep.check(s.stmt.limit == "1", "pagination", "sqlite/last_message/%s/limit" % variant, "LIMIT 1", "last_message query is not LIMIT 1", s.loc())
            cl = mc.get(variant)
            rep.floor("memory-sort", "memory %s closure for %s" % (mname, variant), 1 if cl else 0, 1)
            if cl and KEYED.get(cl.path):
                kc = key_chain(cl)
                # sort_by_key(Reverse(k)): newest first; max_by_key(k): maximum under k
                m = (kc[0], (-1 if kc[1] else 1)) if kc else None
                tbl = "key closure %s" % (kc,)
                ok = m is not None and m[0] == canon and m[1] == sign_want
                rep.check(ok, "memory-sort", "memory/%s/%s" % (mname, variant),
                          "key closure orders by %s (%s)" % (canon, "reversed: newest first" if sign_want < 0 else "maximum"),
                          "memory %s key closure for %s yields %s; expected %s with sign %d (a missing last key leaves ties in arbitrary order)" % (adaptor, variant, m if m else tbl, canon, sign_want), cl.loc())
            elif cl:
                try:
                    tbl = cmpeval.table(prog, cl, {2: ("param", "A", 2), 3: ("param", "B", 3), 1: ("tuple", ())}, "A", "B",
                                        indirect_target=INDIRECT.get((cl.path, variant)))
                    m = cmpeval.match_chain(tbl)
                except dtable.Undecided as e:
                    m = None
                    tbl = str(e)
                ok = m is not None and m[0] == canon and m[1] == sign_want
                rep.check(ok, "memory-sort", "memory/%s/%s" % (mname, variant),
                          "%s closure = %s lexicographic order on %s" % (adaptor, "reversed (newest first)" if sign_want < 0 else "max under", canon),
                          "memory %s closure for %s is %s; expected sign %d on %s" % (adaptor, variant, m if m else tbl, sign_want, canon), cl.loc())
    # last key unique per group
    pk = sch.pk("messages")
    rep.check(set(pk) == {"mls_group_id", "id"}, "order-by", "schema/messages-pk", "(mls_group_id, id) is the primary key: the last sort key is unique per group, so the order is total",
              "messages primary key is %s: `id` no longer unique per group, order not total" % pk)


def limit_guard(prog, rep, adt, sinks_pred):
    fs = prog.find(adt=adt, name="messages", trait="GroupStorage")
    if not fs:
        return
    f = fs[0]
    rc = [c for c in f.live_calls() if c.name == "contains" and "RangeInclusive" in (c.self_ty or c.path or "")]
    edges = set()
    for c in rc:
        edges |= A.bool_true_edges(f, c)
    sinks = [c for c in f.live_calls() if sinks_pred(c)]
    rep.floor("pagination", "%s::messages data accesses" % adt, len(sinks), 1)
    ok = bool(edges) and all(c.bb not in A.reach_without_edges(f, 0, edges) for c in sinks)
    rep.check(ok, "pagination", "%s/messages/limit-validated" % adt, "the limit range check (1..=MAX) dominates every data access",
              "data is accessed before / without the limit range check", f.loc())
    # range bounds (the range is usually a promoted constant: RangeInclusive::new(1, MAX))
    bounds = []
    for c in rc:
        if "p" in c.args[0]:
            _, _, consts = f.depends_on(c.args[0]["p"][0])
            for _, k in consts:
                if isinstance(k, dict) and "promoted" in k and k["promoted"] < len(f.promoted):
                    bounds += [x["int"] for x in f.promoted[k["promoted"]] if "int" in x]
    for c in f.live_calls():
        if c.name == "new" and "RangeInclusive" in (c.self_ty or c.path or ""):
            for a in c.args:
                if "c" in a and "int" in a["c"]:
                    bounds.append(a["c"]["int"])
                elif "p" in a:
                    _, _, consts = f.depends_on(a["p"][0])
                    bounds += [k["int"] for _, k in consts if isinstance(k, dict) and "int" in k]
    return sorted(set(bounds))


def clause_pagination(prog, rep):
    rw = A.ReachCache(prog, lambda c: c.name in ("read", "write") and last_seg(c.self_adt) == "RwLock")
    b1 = limit_guard(prog, rep, "MdkMemoryStorage", lambda c: rw.call(c))
    wc = A.ReachCache(prog, lambda c: c.name == "lock" and last_seg(c.self_adt) == "Mutex")
    b2 = limit_guard(prog, rep, "MdkSqliteStorage", lambda c: wc.call(c))
    rep.check(b1 == b2 and b1 is not None and len(b1) >= 2, "pagination", "limit-range-agrees", "both backends accept limit in %s" % (b1,),
              "backends validate different limit ranges: memory %s vs sqlite %s" % (b1, b2))
    # memory: slice bounds through min(len), no parameter-derived overflow check
    fs = prog.find(adt="MdkMemoryStorage", name="messages", trait="GroupStorage")
    for f in fs:
        offc = [c for c in f.live_calls() if c.name in ("offset", "limit") and last_seg(c.self_adt) == "Pagination"]
        tainted = f.flows_from(set(c.dst[0] for c in offc if c.dst), through_calls=False)
        bad = []
        for bb in range(f.nblocks()):
            t = f.term(bb)
            if t["k"] == "assert" and t["kind"].startswith("overflow") and bb in f.reachable_from(0):
                if any("p" in o and o["p"][0] in tainted for o in t.get("ops", [])):
                    bad.append("%s:%s %s" % (t.get("file"), t.get("line"), t["kind"]))
        rep.check(not bad, "pagination", "memory/messages/no-overflow", "no overflow-checked arithmetic on caller-supplied offset/limit",
                  "caller-supplied offset/limit take part in overflow-checked arithmetic (panics for huge offsets): %s" % bad, f.loc())
        idx = [c for c in f.live_calls() if c.name == "index" and "Range" in " ".join(c.gen)]
        for c in idx:
            dep, calls, _ = f.depends_on(c.args[1]["p"][0]) if "p" in c.args[1] else (set(), [], [])
            mins = [x for x in calls if x.name == "min"]
            rep.check(len(mins) >= 2 and any(x.name == "len" for x in calls), "pagination", "memory/messages/slice-clamped",
                      "both slice bounds are clamped with min(.., len)", "slice bounds are not both clamped to the vector length", c.loc())
    # memory: the page is cut out of the *fully ordered* listing — nothing drops, pre-selects or truncates entries before the sort
    # with the complete comparator has run (a pre-selection by the primary timestamp alone keeps an arbitrary subset of a run of
    # equal timestamps that straddles the page boundary: pages then gap, repeat and differ from SQLite's)
    SORTS = ("sort_by", "sort_unstable_by", "sort_by_key", "sort_unstable_by_key", "sort", "sort_unstable", "sort_by_cached_key")
    CUTS = ("select_nth_unstable", "select_nth_unstable_by", "select_nth_unstable_by_key", "truncate", "drain", "split_off", "retain",
            "retain_mut", "dedup", "dedup_by", "dedup_by_key", "swap_remove", "take", "skip", "step_by", "take_while", "skip_while",
            "partition_point", "split_at", "split_at_mut", "chunks", "nth")
    for f in fs:
        nsort = 0
        early = []
        for g in prog.family(f):
            sorts = [c for c in g.live_calls() if c.name in SORTS and c.krate in ("core", "alloc", "std")]
            nsort += len(sorts)
            if not sorts:
                continue
            for c in g.live_calls():
                if c.name in CUTS and c.krate in ("core", "alloc", "std"):
                    r = g.reachable_from(c.bb)
                    if any(x.bb in r and x.bb != c.bb for x in sorts):
                        early.append("%s @%s" % (c.name, c.loc()))
        rep.floor("pagination", "memory/messages sorts the listing", nsort, 1)
        rep.check(not early, "pagination", "memory/messages/ordered-before-cut",
                  "no entry is dropped or pre-selected before the listing is sorted with the full comparator",
                  "the listing is cut before it is fully ordered (%s runs ahead of the sort): with equal primary timestamps across the page "
                  "boundary an arbitrary subset is kept, so pages gap / repeat and the backends disagree" % "; ".join(sorted(set(early))), f.loc())
    # sqlite: offset is not wrapped by a plain integer cast
    for adt, m, tr in (("MdkSqliteStorage", "messages", "GroupStorage"), ("MdkSqliteStorage", "pending_welcomes", "WelcomeStorage")):
        for f in prog.find(adt=adt, name=m, trait=tr):
            offc = [c for c in f.live_calls() if c.name == "offset" and last_seg(c.self_adt) == "Pagination"]
            rep.floor("pagination", "sqlite/%s reads Pagination::offset" % m, len(offc), 1)
            bad = []
            for g in prog.family(f):
                # offset is captured by the with_connection closure: follow upvars
                for bb, s in g.stmts():
                    if s.get("k") == "cast" and s.get("to") == "i64" and "IntToInt" in s.get("cast", ""):
                        og = A.origins(prog, g, s["o"][0]["p"][0], scope=None, max_frames=2) if "p" in s["o"][0] else None
                        if og and og.has_call(lambda x: x.name == "offset" and last_seg(x.self_adt) == "Pagination"):
                            bad.append("%s:%s" % (g.file, s.get("line")))
            rep.check(not bad, "pagination", "sqlite/%s/offset-conversion" % m, "the offset reaches SQLite through a checked conversion",
                      "the usize offset is cast with `as i64` (%s): offsets above i64::MAX wrap negative and SQLite returns the first page" % bad, f.loc())


def clause_pointer(prog, rep):
    fs = prog.find(adt="Group", name="update_last_message_if_newer", crate="mdk_storage_traits")
    rep.floor("last-message-pointer", "Group::update_last_message_if_newer", len(fs), 1)
    for f in fs:
        uses = any(c.name == "compare_display_keys" for c in f.live_calls())
        rep.check(uses, "last-message-pointer", "canonical-comparator", "the pointer update compares with the canonical display comparator",
                  "the pointer update no longer uses Message::compare_display_keys", f.loc())
        # decision table of the all-fields-present case: update iff the message sorts strictly before the current pointer
        import itertools
        bad_rows = []
        und = None
        for rel in itertools.product((-1, 0, 1), repeat=3):
            m = dict(zip(cmpeval.KEYS, rel))

            def classify(v):
                # message.<key>  vs  the payload of self.last_message_* (Some(..))
                while v[0] == "proj" and not v[2].startswith("."):
                    v = v[1]
                if v[0] == "proj" and v[2][1:] in cmpeval.KEYS and v[1][0] == "param" and v[1][2] == 2:
                    return ("msg", v[2][1:])
                s_ = repr(v)
                for k, fld in (("created_at", "last_message_at"), ("processed_at", "last_message_processed_at"), ("id", "last_message_id")):
                    if ("'.%s'" % fld) in s_ and "'param'" in s_:
                        return ("ptr", k)
                return None

            def relation(x, y, m=m):
                if x[1] != y[1]:
                    return None
                r = m[x[1]]
                return r if (x[0], y[0]) == ("msg", "ptr") else (-r if (x[0], y[0]) == ("ptr", "msg") else 0)
            adt_of = {}
            for bb0, s0 in f.stmts():
                if s0.get("k") == "discr":
                    adt_of[bb0] = last_seg(s0.get("adt"))

            def opaque_switch(bb0, v, t):
                if adt_of.get(bb0) == "Option":
                    for val, tb in t["targets"]:
                        if val == 1:
                            return tb
                    return t["otherwise"]
                return None
            ev = dtable.Evaluator(f, classify, relation, opaque_switch, prog=prog, inline=lambda t: t.crate == "mdk_storage_traits" and not t.is_test_like())
            try:
                res = ev.run({1: ("param", "self", 1), 2: ("param", "message", 2)})
            except dtable.Undecided as e:
                und = str(e)
                break
            want = cmpeval.lex(CANON["CreatedAtFirst"], rel) > 0
            if rel != (0, 0, 0) and (not res or res[0] != "int" or bool(res[1]) != want):
                bad_rows.append((rel, res))
        rep.check(und is None and not bad_rows, "last-message-pointer", "update-decision-table",
                  "pointer is replaced iff the message sorts strictly before it in the default order (26 rows; the all-equal row is the same message)",
                  "pointer update decision differs from the default order: %s" % (und or bad_rows[:4]), f.loc())
        blocks = {}
        for bb, s in f.stmts():
            flds = [e[1:] for e in s["d"][1:] if isinstance(e, str) and e.startswith(".")]
            for x in flds:
                if x in ("last_message_at", "last_message_processed_at", "last_message_id"):
                    blocks.setdefault(bb, set()).add(x)
        together = any(len(v) == 3 for v in blocks.values()) and len(blocks) == 1
        rep.check(together, "last-message-pointer", "three-fields-together", "the three pointer fields are written together, at one place",
                  "the pointer fields are not written together: %s" % blocks, f.loc())
    # both the send and the receive path call it after building a Message, before/with saving the group
    core = K.core_scope(prog)
    n = 0
    for p in sorted(core):
        f = prog.fns[p]
        for bb, s in f.aggregates("Message"):
            if not s["adt"].startswith("mdk_storage_traits::") or not s.get("fields"):
                continue
            n += 1
            up = frozenset(c.bb for c in f.live_calls() if c.name == "update_last_message_if_newer")
            esc = A.ok_return_reachable(f, bb, up)
            ents = [e.label() for e in prog.nontest_fns(("mdk_core",)) if K.api_boundary(e) and last_seg(e.self_adt) == "MDK" and f.path in prog.reachable([e])]
            rep.check(bool(up) and not esc, "last-message-pointer", "%s/updated" % "+".join(sorted(set(ents))),
                      "every Ok path after storing a message passes Group::update_last_message_if_newer",
                      "a message can be stored without offering it to the last-message pointer", "%s:%s" % (f.file, s.get("line")))
            sg = A.ReachCache(prog, lambda c: K.is_storage_trait_call(c, "save_group"))
            after = set()
            for b in up:
                after |= f.reachable_from(b)
            rep.check(any(sg.call(c) for c in f.live_calls() if c.bb in after), "last-message-pointer", "%s/saved" % "+".join(sorted(set(ents))),
                      "the updated group record is saved", "the updated pointer is never saved", "%s:%s" % (f.file, s.get("line")))
    rep.floor("last-message-pointer", "Message records built in mdk-core", n, 2)


def clause_pointer_after_rollback(prog, rep):
    """a rollback restores the groups row — and with it the pointer — as it was when the snapshot was taken, while messages of the target
    epoch that arrived later stay valid: after a successful rollback the pointer has to be derived from the stored messages again before
    the call goes on (re-processing / return).  Decided as a must-pass rule after the success edge of the manager's rollback call."""
    core = K.core_scope(prog)

    def refreshes(t):
        """t (or what it calls in mdk-core) lists stored messages, assigns the pointer and saves the group"""
        reads = writes = saves = False
        for q in prog.extent(t):
            g = prog.fns.get(q)
            if not g or g.crate != "mdk_core" or g.is_test_like():
                continue
            for c in g.live_calls():
                if (c.trait or "").startswith("mdk_storage_traits::") and c.name in ("messages", "last_message"):
                    reads = True
                if (c.trait or "").startswith("mdk_storage_traits::") and c.name == "save_group":
                    saves = True
                if c.name == "update_last_message_if_newer":
                    writes = True
            for bb, st in g.stmts():
                if ".last_message_id" in [e for e in st["d"][1:] if isinstance(e, str)]:
                    writes = True
        return reads and writes and saves
    n = 0
    for p in sorted(core):
        f = prog.fns[p]
        if f.is_test_like():
            continue
        for c in f.live_calls():
            if not any(t.name == "rollback_to_epoch" and last_seg(t.self_adt) == "EpochSnapshotManager" for t in prog.call_targets(c)):
                continue
            n += 1
            starts = set(sx for (w, sx) in A.success_edges(f, [c])) or ({c.t["to"]} if "to" in c.t else set())
            ref_blocks = frozenset(x.bb for x in f.live_calls() if any(refreshes(t) for t in prog.call_targets(x) if t.crate == "mdk_core" and t.path != f.path and not _is_process_message(t)))
            leaks = []
            for b in starts:
                r = A.reach_without_edges(f, b, set(), ref_blocks) if b not in ref_blocks else set()
                for x in f.live_calls():
                    if x.bb in r and any(_is_process_message(t) for t in prog.call_targets(x)):
                        leaks.append("re-processing")
                if any(f.term(bb)["k"] == "return" for bb in r) and not (r & A.err_exit_blocks(f)):
                    leaks.append("return")
            rep.check(not leaks, "last-message-pointer", "%s/recomputed-after-rollback" % prog.fns.get(f.root, f).label(),
                      "after a successful rollback the pointer is derived from the stored messages again before the call goes on",
                      "after a successful rollback the call goes on (%s) with the pointer the snapshot restored: a message of the target epoch that "
                      "arrived after the snapshot is valid and newest, but the pointer still designates an older one" % ", ".join(sorted(set(leaks))), c.loc())
    rep.floor("last-message-pointer", "rollback call sites in mdk-core", n, 1)


def clause_refresh_searches_every_page(prog, rep):
    """the pointer is re-derived by walking the listing page by page; a short page is the last one *and still has to be searched* — with
    fewer messages than one page holds it is the only one.  In a function that lists with a Pagination and assigns the pointer, the
    page-length stop test comes after the search of that page: in the loop form the search dominates the test, in the iterator form no
    length-testing adaptor (take_while / map_while / filter / skip_while) sits between the listing and the search"""
    n = 0
    for f in prog.nontest_fns(("mdk_core",)):
        if f.is_closure():
            continue
        fam = prog.family(f)
        lists = [(g, c) for g in fam for c in g.live_calls()
                 if (c.name in ("get_messages", "messages")) and any("Pagination" in (g.locals[a["p"][0]] if "p" in a else "") for a in c.args)]
        assigns = any(".last_message_id" in [e for e in st["d"][1:] if isinstance(e, str)] for g in fam for _, st in g.stmts())
        if not lists or not assigns:
            continue
        n += 1
        bad = []
        for g, c in lists:
            # loop form: a switch on `page.len() < PAGE` in the function that lists
            pages = g.flows_from({c.dst[0]}, through_calls=True, stop_calls=lambda x: x.krate not in ("core", "alloc", "std")) if c.dst else set()
            searches = [x for x in g.live_calls() if x.name in ("find", "find_map", "position", "any", "max_by", "min_by", "last", "next", "first")
                        and x.args and "p" in x.args[0] and x.args[0]["p"][0] in pages]
            for w in range(g.nblocks()):
                t = g.term(w)
                if t["k"] != "switch":
                    continue
                dep, calls, _ = g.depends_on(A._opl(t["discr"]))
                if not any(x.name == "len" and x.args and "p" in x.args[0] and x.args[0]["p"][0] in pages for x in calls):
                    continue
                if not any(st.get("k") == "binop" and st.get("op") in ("Lt", "Le", "Gt", "Ge", "Eq", "Ne") for st in g.blocks[w]["s"]):
                    continue
                if not any(g.dominates(x.bb, w) for x in searches):
                    bad.append("the page-length test at %s is not preceded by the search of that page" % g.term_loc(w) if hasattr(g, "term_loc") else
                               "the page-length test is not preceded by the search of that page")
            # iterator form: the listing runs inside a closure; length-testing adaptors of the host chain
            if g.is_closure():
                for h in fam:
                    for x in h.live_calls():
                        if x.name in ("take_while", "map_while", "filter", "skip_while") and x.krate in ("core", "alloc", "std"):
                            for q in A.closure_args(prog, x):
                                if any(y.name == "len" for qq in prog.family(q) for y in qq.live_calls()):
                                    og = A.origins(prog, h, x.args[0]["p"][0], scope=set(z.path for z in fam), max_frames=2) if "p" in x.args[0] else None
                                    if og is not None and og.has_call(lambda y: y is c):
                                        bad.append("`%s` drops pages by their length before they are searched" % x.name)
        rep.check(not bad, "last-message-pointer", "%s/searches-every-page" % f.label(),
                  "every page listed while re-deriving the pointer is searched before its length ends the walk",
                  "while the pointer is re-derived, %s: with fewer messages than one page holds nothing is searched and the pointer is cleared "
                  "although valid messages remain" % "; ".join(sorted(set(bad))), f.loc())
    rep.floor("last-message-pointer", "functions re-deriving the pointer from a paged listing", n, 1)


def _is_process_message(t):
    return t.name == "process_message" and last_seg(t.self_adt) == "MDK"


def run(ctx, rep):
    prog = ctx.prog()
    sch = sqlmod.Schema()
    sites = sqlmod.collect(prog)
    rep.fns_analysed = len(list(prog.nontest_fns(("mdk_sqlite_storage", "mdk_memory_storage", "mdk_storage_traits"))))
    rep.clause("C18.1 both canonical comparators are lexicographic orders (27-row tables); SQLite ORDER BY lists = those key chains, all DESC, last key unique; memory sort/max closures = the same order (reversed for listing)")
    rep.clause("C18.2 limit range check dominates data access in both backends with the same bounds; LIMIT/OFFSET bound; memory slice bounds clamped, no overflow-checked arithmetic on caller offsets; SQLite offset through a checked conversion")
    rep.clause("C18.3 last-message pointer: canonical comparator, three fields written together, offered on every Ok path that stores a message, then saved")
    rep.clause("C18.3b after a successful rollback the pointer is derived from the stored messages again (must-pass after the manager's rollback call)")
    rep.not_decided = "pointer = head of non-invalidated messages after every step of arbitrary histories"
    clause_orders(prog, rep, sch, sites)
    clause_pagination(prog, rep)
    clause_pointer(prog, rep)
    clause_pointer_after_rollback(prog, rep)
    clause_refresh_searches_every_page(prog, rep)
    # a re-saved message must take its new sort keys in both backends (SQLite: the upsert assigns every non-key column)
    rep.clause("C18.4 the messages upsert assigns every non-key column (created_at / processed_at sort keys follow a re-save, as in the memory backend)")
    sqlrules.clause_upserts(prog, rep, sch, sites, only_tables=("messages",))
    # the pointer's three fields survive a rollback in their own columns: the groups row travels through the snapshot as a tuple whose
    # positions must mean the same column to the writer and to the restore (shared with C09)
    rep.clause("C18.5 the groups row (incl. the three pointer fields) is restored from a snapshot into the columns it was read from")
    import os
    import sys
    sys.path.insert(0, os.path.dirname(os.path.abspath(__file__)))
    import c09
    Ms = c09.method(prog, "MdkSqliteStorage", "create_group_snapshot")
    Mr = c09.method(prog, "MdkSqliteStorage", "rollback_group_to_snapshot")
    if Ms and Mr:
        c09.clause_tuple_positions(prog, rep, c09.ext_sites(prog, sites, Ms), c09.ext_sites(prog, sites, Mr), rule="last-message-pointer", only={"groups"}, floor=1)
