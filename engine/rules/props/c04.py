"""C04 — stored messages are bound to their authenticated sender and to their own content (structural clauses)."""
from ir import last_seg
import analysis as A
import common as K


def message_sites(prog, scope):
    out = []
    for p in sorted(scope):
        f = prog.fns[p]
        for bb, s in f.aggregates("Message"):
            if s["adt"].startswith("mdk_storage_traits::") and s.get("fields"):
                out.append((f, bb, s))
    return out


def _inline_decisions(f):
    """(switch, raising block, comparison calls) for every Error::AuthorMismatch built in `f` itself on an (in)equality with the
    credential identity"""
    out = []
    for bb, s in f.aggregates("Error", "AuthorMismatch"):
        for w in A.control_dependent_switches(f, bb):
            _, calls, _ = f.depends_on(A._opl(f.term(w)["discr"]))
            cmps = [c for c in calls if c.name in ("eq", "ne")]
            if cmps and any(c.name == "identity" and last_seg(c.self_adt) == "BasicCredential" for c in calls):
                out.append((w, bb, cmps))
    return out


def clause_author_guard(prog, rep):
    core = K.core_scope(prog)
    roots = prog.find(adt="MDK", name="process_message", crate="mdk_core")
    scope = set(p for p in prog.reachable(roots) if p in core)
    guards = A.variant_guard_fns(prog, "Error", "AuthorMismatch")
    rep.floor("author-bound", "functions that may fail with Error::AuthorMismatch", len(guards), 1)
    is_guard = lambda c: any(t.path in guards for t in prog.call_targets(c))
    sites = message_sites(prog, scope)
    rep.floor("author-bound", "Message records built on the receive path", len(sites), 1)
    for f, bb, s in sites:
        ga = A.GuardAnalysis(prog, is_guard, K.api_boundary, core, mode="success")
        ok, chain = ga.site_ok(f, bb)
        # the guard written out in the function itself (a helper of a later tree folded into it): every path to the record takes the
        # passing side of the comparison that decides AuthorMismatch
        inl = _inline_decisions(f)
        if not ok and inl:
            edges = set()
            for w, e_bb, cmps in inl:
                for sx in f.succs()[w]:
                    if e_bb not in f.reachable_from(sx, frozenset([w])):
                        edges.add((w, sx))
            if edges and bb not in A.reach_without_edges(f, 0, edges):
                ok, chain = True, None
        rep.check(ok, "author-bound", "MDK::process_message/Message/AuthorMismatch-guard",
                  "a checked AuthorMismatch guard success-dominates the construction of the stored Message",
                  "a Message is built (and saved) from a decrypted rumor without a checked author-binding guard on every path",
                  "%s:%s" % (f.file, s.get("line")), chain)
        # wiring of the guard call: rumor pubkey vs credential of the processed MLS message
        # the innermost guard calls: calls (anywhere below process_message) to a function that itself raises AuthorMismatch
        raisers = set(g.path for g in prog.nontest_fns(("mdk_core",)) if any(True for _ in g.aggregates("Error", "AuthorMismatch")))
        leaf = [(prog.fns[p], c) for p in sorted(scope) for c in prog.fns[p].live_calls() if any(t.path in raisers for t in prog.call_targets(c))]
        gcs = [c for c in f.live_calls() if is_guard(c)]

        def fed(g, c):
            ogs = [A.origins(prog, g, a["p"][0], scope=core) for a in c.args if "p" in a]
            # the key handed to the guard IS the decoded rumor's `pubkey` field (copy provenance, not mere dependence: the
            # credential's own origins are broad enough to mention every field)
            has_rumor = False
            for a in c.args:
                if "p" in a and "PublicKey" in g.locals[a["p"][0]]:
                    pr_k = A.producers(prog, g, a["p"][0], scope=set(), max_frames=0)
                    if "pubkey" in pr_k["fields"] and pr_k["calls"] and all(x.name == "from_json" for x in pr_k["calls"]) and not pr_k["params"]:
                        has_rumor = True
            has_cred = any(og.has_call(lambda x: x.name == "credential" and last_seg(x.self_adt) == "ProcessedMessage") for og in ogs)
            return has_rumor and has_cred

        wired = any(fed(g, c) for g, c in leaf)
        for w, e_bb, cmps in inl:
            # written out in place: the comparison's own operands, and the credential conversion its outcome depends on
            wired = wired or any(fed(f, c) for c in cmps)
            _, dcalls, _ = f.depends_on(A._opl(f.term(w)["discr"]))
            gcs = gcs + [c for c in dcalls if c.name == "try_from" and any("p" in a and "Credential" in f.locals[a["p"][0]] for a in c.args)]
        # copy provenance: the credential handed to the guard IS the one authenticated by the MLS layer for this message
        # (not, e.g., whoever currently occupies the sender's leaf in the ratchet tree)
        exact = False
        for c in gcs:
            for a in c.args:
                if "p" not in a or "Credential" not in f.locals[a["p"][0]]:
                    continue
                pr = A.producers(prog, f, a["p"][0], scope=core)
                names = sorted(set("%s::%s" % (last_seg(x.self_adt), x.name) for x in pr["calls"]))
                exact = names == ["ProcessedMessage::credential"]
                rep.check(exact, "author-bound", "MDK::process_message/Message/authenticated-credential",
                          "the credential checked against the rumor author is exactly ProcessedMessage::credential()",
                          "the credential checked against the rumor author is produced by %s, not only by the MLS-authenticated "
                          "ProcessedMessage::credential(): a delayed message can be attributed to whoever holds the sender's leaf now" % names, c.loc())
        rep.check(wired, "author-bound", "MDK::process_message/Message/guard-wiring",
                  "the guard receives the rumor's pubkey and the credential of the MLS-authenticated sender",
                  "the author guard is not fed with (rumor.pubkey, ProcessedMessage::credential())", f.loc())
        # stored pubkey is the checked one
        o = A.agg_field_operand(s, "pubkey")
        og = A.origins(prog, f, o["p"][0], scope=core) if o and "p" in o else None
        rep.check(bool(og) and "pubkey" in og.fields and og.has_call(lambda x: x.name == "from_json"),
                  "author-bound", "MDK::process_message/Message/stored-pubkey",
                  "stored pubkey is the rumor pubkey that was checked", "stored pubkey is not the checked rumor pubkey",
                  "%s:%s" % (f.file, s.get("line")))
    # the guard's decision compares the rumor pubkey with the credential identity
    n = 0
    for gp in sorted(guards):
        g = prog.fns[gp]
        for bb, s in g.aggregates("Error", "AuthorMismatch"):
            n += 1
            cds = A.control_dependent_switches(g, bb)
            ok = False
            passing = set()
            for w in cds:
                l = A._opl(g.term(w)["discr"])
                dep, calls, _ = g.depends_on(l)
                cmpc = [c for c in calls if c.name in ("eq", "ne")]
                ident = any(c.name == "identity" and last_seg(c.self_adt) == "BasicCredential" for c in calls)
                param = any(1 <= x <= g.nargs for x in dep)
                if cmpc and ident and param:
                    ok = True
                    for sx in g.succs()[w]:
                        if bb not in g.reachable_from(sx, frozenset([w])):
                            passing.add((w, sx))
            if ok and not g.is_closure() and g.path not in set(f_.path for f_, _, _ in sites):
                # the guard function vouches for the author only if it cannot end well without the comparison having come out equal
                # (a credential that cannot be read must refuse, not wave the message through)
                r = A.reach_without_edges(g, 0, passing, A.err_exit_blocks(g))
                rep.check(not any(g.term(b)["k"] == "return" for b in r), "author-bound", "AuthorMismatch/decides-every-ok",
                          "every successful return of the author guard lies on the equal side of the comparison",
                          "the author guard can return Ok without the rumor pubkey having been compared with the credential identity "
                          "(e.g. when the sender's credential cannot be parsed): the message is then stored under whatever author the rumor names",
                          g.loc())
            rep.check(ok, "author-bound", "AuthorMismatch/decision",
                      "AuthorMismatch is raised on an (in)equality of a parameter and the credential identity",
                      "the AuthorMismatch decision no longer compares the rumor pubkey with BasicCredential::identity()", g.loc())
    rep.floor("author-bound", "constructions of Error::AuthorMismatch", n, 1)


def clause_id_verified(prog, rep):
    core = K.core_scope(prog)
    sites = message_sites(prog, core)
    rep.floor("id-verified", "Message records built in mdk-core", len(sites), 2)
    gv = A.Guarantee(prog, lambda c: c.name == "verify_id" and last_seg(c.self_adt) == "UnsignedEvent")
    for f, bb, s in sites:
        entries = [e.label() for e in prog.nontest_fns(("mdk_core",)) if K.api_boundary(e) and last_seg(e.self_adt) == "MDK" and f.path in prog.reachable([e])]
        entry = "+".join(sorted(set(entries))) or f.label()
        o = A.agg_field_operand(s, "id")
        og = A.origins(prog, f, o["p"][0], scope=core) if o and "p" in o else None
        recomputed = bool(og) and og.has_call(lambda x: (x.name == "new" and last_seg(x.self_adt) == "EventId")) \
            and not og.has_call(lambda x: x.name == "id" and last_seg(x.self_adt) == "UnsignedEvent")
        ga = A.GuardAnalysis(prog, gv.call, K.api_boundary, core, mode="success")
        ok, chain = ga.site_ok(f, bb)
        rep.check(ok or recomputed, "id-verified", "%s/Message.id" % entry,
                  "the id the message is stored under is verified against (or recomputed from) the rumor's fields before the record is built",
                  "the stored id is whatever the rumor JSON carried (UnsignedEvent::id() returns a pre-set id unchanged; no checked "
                  "verify_id()): a member can pre-set the id of another member's message and the (group,id) upsert replaces it",
                  "%s:%s" % (f.file, s.get("line")), chain)
        # the id comes from the same rumor whose fields are stored
        rep.check(bool(og) and og.has_call(lambda x: x.name == "id" and last_seg(x.self_adt) == "UnsignedEvent") or recomputed,
                  "id-verified", "%s/Message.id-source" % entry, "id is taken from the rumor itself", "id does not come from the rumor",
                  "%s:%s" % (f.file, s.get("line")))


def run(ctx, rep):
    prog = ctx.prog()
    rep.fns_analysed = len(K.core_scope(prog))
    rep.clause("C04.1 a checked Error::AuthorMismatch guard (rumor pubkey vs MLS credential identity) success-dominates every received Message record")
    rep.clause("C04.2 the id a Message is stored under is verified (UnsignedEvent::verify_id) or recomputed before the record is built, receive and send path")
    rep.clause("C04.2b the stored author, timestamp, kind, tags and content are the rumor's own (the fields the verified id is the hash of)")
    rep.clause("C04.3 message key is (mls_group_id, id) in both backends (decided with the SQL/sibling rules of C10)")
    rep.not_decided = "replay protection (generation consumption inside OpenMLS)"
    clause_author_guard(prog, rep)
    clause_id_verified(prog, rep)
    # C04.2b the verified id is the hash of author, timestamp, kind, tags and content *of the rumor*: the stored copies of exactly those
    # fields must be the rumor's (the wiring clause of C02, for the hashed fields)
    import os, sys
    sys.path.insert(0, os.path.dirname(os.path.abspath(__file__)))
    import c02
    roots, scope = c02.recv_scope(prog)
    sub = type(rep)(rep.prop, rep.tier, rep.seed)
    sub.config = rep.config
    c02.clause_store_both(prog, sub, scope)
    n = 0
    for o in sub.obligations:
        if o["rule"] == "intact-wiring" and o["key"].rsplit("/", 1)[-1] in ("pubkey", "created_at", "kind", "tags", "content"):
            o = dict(o, rule="id-verified", key=o["key"].replace("/intact-wiring/", "/id-verified/hashed-field/"))
            rep.obligations.append(o)
            n += 1
    rep.floor("id-verified", "hashed fields of the stored Message wired to the rumor", n, 5)
    # ... and the storage layer keeps them as given: the id column is the hash of exactly these columns
    rep.clause("C04.2c the SQLite save stores the message's fields as given (no content-changing operation between the record and the bound values)")
    import sqlmod
    import sqlrules
    sqlrules.clause_stored_verbatim(prog, rep, sqlmod.collect(prog), "id-verified", {"messages"})
