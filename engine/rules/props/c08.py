"""C08 — the stored group record mirrors the MLS state and routes events to it (structural clauses)."""
import re
from ir import last_seg
import analysis as A
import common as K
import sqlmod
import predicates as P

MERGES = ("merge_staged_commit", "merge_pending_commit")
# stored Group field -> source in the freshly decoded extension / MLS group
WIRING = {"epoch": ("call", "epoch"), "name": ("field", "name"), "description": ("field", "description"), "admin_pubkeys": ("field", "admins"),
          "image_hash": ("field", "image_hash"), "image_key": ("field", "image_key"), "image_nonce": ("field", "image_nonce"),
          "nostr_group_id": ("field", "nostr_group_id")}


def is_from_group(c):
    return c.name in ("from_group", "from_group_context") and last_seg(c.self_adt) == "NostrGroupDataExtension"


def sync_fns(prog):
    out = []
    for f in prog.nontest_fns(("mdk_core",)):
        if f.is_closure():
            continue
        cs = f.live_calls()
        if any(is_from_group(c) for c in cs) and any(K.is_storage_trait_call(c, "save_group") for c in cs) \
                and any(c.name == "epoch" and last_seg(c.self_adt) == "MlsGroup" for c in cs):
            out.append(f)
    return out


def clause_sync_after_merge(prog, rep, syncs):
    core = K.core_scope(prog)
    sync_paths = set(f.path for f in syncs)
    gsave = A.Guarantee(prog, lambda c: K.is_storage_trait_call(c, "save_group"))
    reach_save = A.ReachCache(prog, lambda c: K.is_storage_trait_call(c, "save_group"))

    def is_follow(c):
        ts = prog.call_targets(c)
        if any(t.path in sync_paths for t in ts):
            return True
        # a call that guarantees the sync (wrapper), or an eviction save (Inactive)
        if ts and all(_guarantees_sync(prog, t, sync_paths) for t in ts):
            return True
        bodies = A.closure_args(prog, c) if not ts else []
        if reach_save.call(c) or any(reach_save.fn(g.path) for g in bodies):
            for t in ts + bodies:
                ext = prog.extent(t)
                if any(any(True for _ in prog.fns[q].aggregates("GroupState", "Inactive")) for q in ext if q in prog.fns):
                    return True
        return False
    sinks = A.sink_sites(prog, lambda c: K.is_mls_call(c, *MERGES), core)
    rep.floor("sync-after-merge", "MlsGroup merge sites", len(sinks), 3)
    for c in sinks:
        fa = A.FollowAnalysis(prog, is_follow, K.api_boundary, core)
        ok, chain = fa.site_ok(c.fn, c.bb)
        ents = sorted(set(e.label() for e in prog.nontest_fns(("mdk_core",)) if K.api_boundary(e) and last_seg(e.self_adt) == "MDK" and c.fn.path in prog.reachable([e])))
        inst = "%s/MlsGroup::%s" % ("+".join(ents), c.name)
        if not ok and c.fn.name == "create_group":
            # the creator builds and saves the record itself right after the merge
            saves = frozenset(x.bb for x in c.fn.live_calls() if K.is_storage_trait_call(x, "save_group") or reach_save.call(x))
            ok = not A.ok_return_reachable(c.fn, c.t["to"], saves)
        rep.check(ok, "sync-after-merge", inst,
                  "every Ok return after the merge passes the metadata sync (or the Inactive save on eviction)",
                  "after MlsGroup::%s an Ok return is reachable without syncing the stored group record from the MLS state" % c.name, c.loc(), chain)


def _guarantees_sync(prog, t, sync_paths, seen=None):
    seen = seen or set()
    if t.path in sync_paths:
        return True
    if t.path in seen:
        return False
    seen.add(t.path)
    gc = [c for c in t.live_calls() if any(_guarantees_sync(prog, u, sync_paths, seen) for u in prog.call_targets(c)) and prog.call_targets(c)]
    if not gc:
        return False
    edges = A.success_edges(t, gc)
    if not edges:
        return False
    r = A.reach_without_edges(t, 0, edges, A.err_exit_blocks(t))
    return not any(t.term(b)["k"] == "return" for b in r)


def clause_wiring(prog, rep, syncs):
    rep.floor("sync-field-wiring", "metadata sync functions", len(syncs), 1)
    for f in syncs:
        fg = [c for c in f.live_calls() if is_from_group(c)]
        for fld, (kind, src) in sorted(WIRING.items()):
            ok = False
            for bb, s in f.stmts():
                dflds = [e[1:] for e in s["d"][1:] if isinstance(e, str) and e.startswith(".")]
                if fld not in dflds or not s.get("o"):
                    continue
                for o in s["o"]:
                    if "p" not in o:
                        continue
                    og = A.origins(prog, f, o["p"][0], scope=None, max_frames=1)
                    flds_here = set(e[1:] for e in o["p"][1:] if isinstance(e, str) and e.startswith(".")) | og.fields
                    if kind == "field" and src in flds_here and og.has_call(is_from_group):
                        ok = True
                    if kind == "call" and og.has_call(lambda c: c.name == src and last_seg(c.self_adt) == "MlsGroup"):
                        ok = True
            rep.check(ok, "sync-field-wiring", "Group.%s" % fld,
                      "stored %s <- %s of the freshly decoded state" % (fld, src),
                      "the sync does not copy %s from the group's current %s" % (fld, "MLS epoch" if kind == "call" else "data extension field `%s`" % src), f.loc())
        # relays
        rr = [c for c in f.live_calls() if K.is_storage_trait_call(c, "replace_group_relays")]
        ok = False
        for c in rr:
            if "p" in c.args[-1]:
                og = A.origins(prog, f, c.args[-1]["p"][0], scope=None, max_frames=1)
                fl = set(e[1:] for e in c.args[-1]["p"][1:] if isinstance(e, str) and e.startswith(".")) | og.fields
                if "relays" in fl and og.has_call(is_from_group):
                    ok = True
        rep.check(ok, "sync-field-wiring", "relays", "relay set replaced with the extension's relays", "the sync does not replace the relay set from the data extension", f.loc())
        # ... on every path that ends well; the only skip that leaves the stored set equal to the extension's is one taken on the
        # equal side of a whole-set comparison of the two (BTreeSet == BTreeSet, stored vs extension)
        if rr:
            skip = set()
            for c in f.live_calls():
                if c.name in ("eq", "ne") and last_seg(c.trait) == "PartialEq" and len(c.args) == 2 and all("p" in a for a in c.args) \
                        and all("BTreeSet" in f.locals[a["p"][0]] or "HashSet" in f.locals[a["p"][0]] for a in c.args):
                    ogs = [A.origins(prog, f, a["p"][0], scope=None, max_frames=1) for a in c.args]
                    if any(o.has_call(lambda x: K.is_storage_trait_call(x, "group_relays")) for o in ogs) and \
                            any("relays" in o.fields and o.has_call(is_from_group) for o in ogs):
                        te = A.bool_true_edges(f, c)
                        skip |= te if c.name == "eq" else set((w, s2) for (w, sx) in te for s2 in f.succs()[w] if s2 != sx)
            r = A.reach_without_edges(f, 0, skip, frozenset(c.bb for c in rr) | A.err_exit_blocks(f))
            rep.check(not any(f.term(b)["k"] == "return" for b in r), "sync-field-wiring", "relays/every-ok-path",
                      "every successful return of the sync has replaced the stored relay set (or found it equal to the extension's as a whole)",
                      "the sync can return Ok without having replaced the stored relay set with the extension's: a relay change made by a commit "
                      "reaches the MLS state but not the stored record", f.loc())
        # the extension is decoded from the *current* MLS group (loaded in this function)
        ok = False
        for c in fg:
            if "p" in c.args[0]:
                og = A.origins(prog, f, c.args[0]["p"][0], scope=None, max_frames=4)
                if og.has_call(lambda x: x.name == "load" and last_seg(x.self_adt) == "MlsGroup"):
                    ok = True
        rep.check(ok, "sync-field-wiring", "source-is-current-group", "the extension is decoded from the MLS group loaded from storage at sync time",
                  "the sync decodes the extension from something other than the freshly loaded MLS group", f.loc())


def clause_routing(prog, rep):
    core = K.core_scope(prog)
    # outgoing: h tag <- stored nostr_group_id
    n = 0
    for f in prog.nontest_fns(("mdk_core",)):
        for c in f.live_calls():
            if c.name == "new" and last_seg(c.self_adt) == "EventBuilder" and c.args and "p" in c.args[0]:
                _, _, consts = f.depends_on(c.args[0]["p"][0])
                if not any(k.get("agg") and last_seg(k["agg"]) == "Kind" and k.get("variant") == "MlsGroupMessage" for _, k in consts if isinstance(k, dict)):
                    continue
                n += 1
                tags = [x for x in f.live_calls() if x.name in ("tag", "tags") and last_seg(x.self_adt) == "EventBuilder"]
                ok = False
                for t in tags:
                    if "p" in t.args[-1]:
                        og = A.origins(prog, f, t.args[-1]["p"][0], scope=None, max_frames=1)
                        if "nostr_group_id" in og.fields and og.has_call(lambda x: x.name == "encode" and (x.krate == "hex")) \
                                and og.has_call(lambda x: K.is_storage_trait_call(x, "find_group_by_mls_group_id")):
                            ok = True
                rep.check(ok, "routing", "outgoing/h-tag", "the wrapper's h tag is hex(stored Group.nostr_group_id)",
                          "kind-445 wrappers are not tagged with the stored group's current nostr_group_id", c.loc())
    rep.floor("routing", "kind-445 builders", n, 1)
    # incoming: lookup by the event's h tag
    roots = prog.find(adt="MDK", name="process_message", crate="mdk_core")
    scope = set(p for p in prog.reachable(roots) if p in core)
    m = 0
    for p in sorted(scope):
        f = prog.fns[p]
        for c in f.live_calls():
            if K.is_storage_trait_call(c, "find_group_by_nostr_group_id") and "p" in c.args[-1]:
                m += 1
                og = A.origins(prog, f, c.args[-1]["p"][0], scope=core, max_frames=4)
                ok = og.has_call(lambda x: x.name == "decode" and x.krate == "hex") and og.has_call(lambda x: x.name == "content" and last_seg(x.self_adt) == "Tag")
                if not ok:
                    # decoded into a buffer the decoder is handed (`hex::decode_to_slice(content, &mut id)`): the key comes out of a
                    # function that decodes the tag's content that way
                    for y in og.calls:
                        for t in prog.call_targets(y):
                            for q in prog.family(t):
                                for z in q.live_calls():
                                    if z.name == "decode_to_slice" and z.krate == "hex" and z.args and "p" in z.args[0]:
                                        oz = A.origins(prog, q, z.args[0]["p"][0], scope=None, max_frames=0)
                                        if oz.has_call(lambda x: x.name == "content" and last_seg(x.self_adt) == "Tag"):
                                            ok = True
                rep.check(ok, "routing", "incoming/lookup-by-h-tag", "incoming events are matched by the decoded content of their h tag",
                          "the group lookup key does not derive from the event's h tag", c.loc())
    rep.floor("routing", "find_group_by_nostr_group_id sites on the receive path", m, 1)


def clause_index(prog, rep, sch):
    # SQLite: unique index on nostr_group_id
    uniq = sch.tables["groups"]["unique"]
    rep.check(["nostr_group_id"] in uniq, "routing-index", "sqlite/unique-nostr-group-id", "groups.nostr_group_id has a unique index",
              "groups.nostr_group_id is not unique: two groups could claim the same routing id")
    # ... and a save that collides with *another* group's routing id must fail, not overwrite that group: the groups upsert is keyed
    # by the primary key only (the memory sibling refuses the collision explicitly)
    ups = [s_ for s_ in sqlmod.collect(prog) if s_.stmt.kind == "INSERT" and s_.stmt.table == "groups" and (s_.stmt.conflict_cols is not None)
           and not (s_.fn.root and "snapshot" in s_.fn.root)]
    rep.floor("routing-index", "groups upsert (save_group)", len(ups), 1)
    for s_ in ups:
        rep.check(not s_.stmt.conflict_any and s_.stmt.conflict_cols == sch.pk("groups"), "routing-index", "sqlite/upsert-keyed-by-primary-key",
                  "save_group replaces only the row with the same mls_group_id; a foreign nostr_group_id collision is a constraint error",
                  "the groups upsert (conflict target %s) also fires on a collision with another group's nostr_group_id: a record carrying "
                  "a foreign routing id overwrites that group" % ("any unique index" if s_.stmt.conflict_any else s_.stmt.conflict_cols), s_.loc())
    # memory: save_group drops the stale secondary-index entry when the id changes and refuses a foreign collision
    fs = prog.find(adt="MdkMemoryStorage", name="save_group", trait="GroupStorage")
    rep.floor("routing-index", "<MdkMemoryStorage as GroupStorage>::save_group", len(fs), 1)
    for f in fs:
        # save_group itself and the same-crate helpers it hands the record to (`inner.put_group(group)`)
        fam = [f] + [t for c in f.live_calls() for t in prog.call_targets(c) if t.crate == f.crate and not t.is_closure() and not t.is_test_like() and t.path != f.path]
        stale_ok = False
        fam_paths = set(q.path for q in fam)
        for g in fam:
            for c in g.live_calls():
                if not (c.name == "pop" and "p" in c.args[0]):
                    continue
                for w in A.control_dependent_switches(g, c.bb):
                    l = A._opl(g.term(w)["discr"])
                    # (the comparison may sit in a closure of the lookup chain: `.peek(id).map(..).filter(|old| *old != new)`)
                    calls = A.origins(prog, g, l, scope=fam_paths, max_frames=1).calls
                    if any(x.name in ("ne", "eq") for x in calls):
                        og = A.origins(prog, g, c.args[-1]["p"][0], scope=fam_paths, max_frames=1)
                        if "nostr_group_id" in og.fields:
                            stale_ok = True
        rep.check(stale_ok, "routing-index", "memory/stale-entry-removed",
                  "when a group's nostr_group_id changes the old index entry is removed",
                  "the memory backend keeps the old nostr_group_id -> group entry after a rotation: events for the old id still route to the group", f.loc())
        puts = [c for g in fam for c in g.live_calls() if c.name == "put"]
        rep.check(len(puts) >= 2, "routing-index", "memory/both-indexes-written", "both the primary map and the nostr-id index are written",
                  "save_group writes %d maps" % len(puts), f.loc())
        errs = [(bb, s) for bb, s in f.aggregates("GroupError", "InvalidParameters")]
        coll = False
        for bb, s in errs:
            for w in A.control_dependent_switches(f, bb):
                l = A._opl(f.term(w)["discr"])
                calls = A.origins(prog, f, l, scope=fam_paths, max_frames=1).calls
                if any(x.name == "peek" for x in calls) and any(x.name in ("ne", "eq") for x in calls):
                    coll = True
        rep.check(coll, "routing-index", "memory/collision-refused", "a nostr_group_id already mapped to a different group is refused (as the SQLite unique index does)",
                  "the memory backend accepts a nostr_group_id that belongs to another group", f.loc())


UNWRAP = ("ok", "branch", "unwrap", "expect", "ok_or", "ok_or_else", "map_err", "unwrap_or_default", "clone", "cloned")


def record_sources(prog, f, local):
    """copy provenance of a stored group record, looking through Result / Option plumbing: (producing calls, own parameters, built in place?)"""
    calls, params, built, seen, todo = [], [], False, set(), [local]
    while todo:
        l = todo.pop()
        if l in seen:
            continue
        seen.add(l)
        pr = A.producers(prog, f, l, scope=set(), max_frames=0)
        params += pr["params"]
        for fn_, bb_, k_ in pr["consts"]:
            if isinstance(k_, dict) and k_.get("agg") and last_seg(k_["agg"]) == "Group":
                built = True
        for bb, st in f.stmts():
            if st["d"] == [l] and st.get("k") == "agg" and last_seg(st.get("adt")) == "Group":
                built = True
                for o in st.get("o", []):
                    if "p" in o:
                        todo.append(o["p"][0])
        for c in pr["calls"]:
            if c.name in UNWRAP and c.args and "p" in c.args[0]:
                todo.append(c.args[0]["p"][0])
            else:
                calls.append(c)
    return calls, params, built


def clause_no_stale_overwrite(prog, rep, syncs):
    """after the sync has rewritten the stored record, a later save in the same function must start from a record re-read *after*
    the sync; saving a copy loaded before the merge (a parameter, an older local) silently undoes the sync"""
    load = A.ReachCache(prog, lambda c: K.is_storage_trait_call(c, "find_group_by_mls_group_id"))
    save = A.ReachCache(prog, lambda c: K.is_storage_trait_call(c, "save_group"))
    syncs = set(x.path for x in syncs)
    n = 0
    for f in prog.nontest_fns(("mdk_core",)):
        S = [c for c in f.live_calls() if any(t.path in syncs for t in prog.call_targets(c))]
        if not S or f.path in syncs:
            continue
        after = set()
        for s_ in S:
            if "to" in s_.t:
                after |= f.reachable_from(s_.t["to"])
        for w in f.live_calls():
            if w in S or not save.call(w) or w.bb not in after or any(t.path in syncs for t in prog.call_targets(w)):
                continue
            recs = [a for a in w.args if "p" in a and re.search(r"groups::types::Group(?![A-Za-z])", f.locals[a["p"][0]])]
            if not recs:
                continue
            n += 1
            calls, params, built = record_sources(prog, f, recs[0]["p"][0])
            fresh = [c for c in calls if load.call(c) and not save.call(c) and c.bb in after]
            stale = [c for c in calls if load.call(c) and c.bb not in after]
            ok = bool(fresh) and not stale and not any(g is f for g, l in params)
            rep.check(ok, "sync-after-merge", "%s/no-stale-overwrite/%s" % (prog.fns.get(f.root, f).label(), w.name),
                      "the record saved after the sync was re-read after it",
                      "after sync_group_metadata_from_mls the function saves a group record that was not re-read after the sync (sources: %s%s): "
                      "the stored epoch / group data fall back to the pre-merge values" % (sorted(set(c.name for c in calls)) or "none", ", parameter" if params else ""), w.loc())
    rep.floor("sync-after-merge", "group saves following a sync in the same function", n, 2)


def clause_sync_cannot_be_refused(prog, rep):
    """the sync after a peer's commit must not be refusable by a storage size bound nothing enforced before the merge: when it is, the MLS
    state has advanced and the record has not (shared with C06 validate-then-apply/storage-bound)"""
    import os
    import sys
    sys.path.insert(0, os.path.dirname(os.path.abspath(__file__)))
    import c06
    core = K.core_scope(prog)
    roots = prog.find(adt="MDK", name="process_message", crate="mdk_core")
    scope = set(p for p in prog.reachable(roots) if p in core)
    c06.clause_storage_bounds_after_merge(prog, rep, scope, rule="sync-after-merge")


def run(ctx, rep):
    prog = ctx.prog()
    sch = sqlmod.Schema()
    rep.fns_analysed = len(K.core_scope(prog))
    rep.clause("C08.1 every MLS merge is followed on every Ok path by the metadata sync (or the Inactive save on eviction / the creator's own save)")
    rep.clause("C08.1b a group record saved after the sync in the same function was re-read after the sync (no stale overwrite)")
    rep.clause("C08.1c the sync after a peer's commit cannot be refused by a storage size bound that nothing enforced before the merge")
    rep.clause("C08.2 the sync copies epoch, name, description, admins, image_hash/key/nonce, nostr_group_id and relays from the current MLS state")
    rep.clause("C08.3 outgoing wrappers carry hex(stored nostr_group_id); incoming events are looked up by their h tag")
    rep.clause("C08.4 routing index: SQLite unique index; memory backend removes the stale entry on rotation and refuses collisions")
    rep.not_decided = "equality of record and MLS state after every step of generated histories"
    syncs = sync_fns(prog)
    clause_sync_after_merge(prog, rep, syncs)
    clause_no_stale_overwrite(prog, rep, syncs)
    clause_sync_cannot_be_refused(prog, rep)
    clause_wiring(prog, rep, syncs)
    clause_routing(prog, rep)
    clause_index(prog, rep, sch)
    import os
    import sys
    sys.path.insert(0, os.path.dirname(os.path.abspath(__file__)))
    import c09
    c09.clause_index_leaves_with_record(prog, rep, "routing-index")
