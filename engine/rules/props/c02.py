"""C02 — application messages on the winning branch arrive exactly once, intact and valid (structural clauses)."""
import re
from ir import last_seg
import analysis as A
import common as K
import sqlmod
import sqlrules
import tables
import affine

INTACT = ["pubkey", "kind", "created_at", "content", "tags", "event"]
WRITE_CALLS = ("save_message", "save_processed_message")


def recv_scope(prog):
    roots = prog.find(adt="MDK", name="process_message", crate="mdk_core")
    return roots, set(p for p in prog.reachable(roots) if p in prog.fns and prog.fns[p].crate == "mdk_core" and not prog.fns[p].is_test_like())


def clause_store_both(prog, rep, scope):
    core = K.core_scope(prog)
    saveM = A.ReachCache(prog, lambda c: K.is_storage_trait_call(c, "save_message"))
    saveP = A.ReachCache(prog, lambda c: K.is_storage_trait_call(c, "save_processed_message"))
    sites = []
    for p in sorted(scope):
        f = prog.fns[p]
        for bb, s in f.aggregates("Message"):
            if s["adt"].startswith("mdk_storage_traits::") and s.get("fields"):
                sites.append((f, bb, s))
    rep.floor("store-both-records", "Message records built on the receive path", len(sites), 1)
    for f, bb, s in sites:
        inst = "MDK::process_message/Message"
        for nm, rc in (("save_message", saveM), ("save_processed_message", saveP)):
            fa = A.FollowAnalysis(prog, is_follow=lambda c, rc=rc: rc.call(c), is_boundary=K.api_boundary, scope_paths=core)
            # obligation starts at the block building the record
            fb = fa.local_follow_blocks(f)
            esc = A.ok_return_reachable(f, bb, fb - {bb}) if bb not in fb else False
            rep.check(not esc, "store-both-records", "%s/%s" % (inst, nm),
                      "every Ok return after building the received Message passes %s" % nm,
                      "an Ok return is reachable after building the received Message without %s" % nm,
                      "%s:%s" % (f.file, s.get("line")))
        # intactness wiring: fields come from the decoded rumor
        for fld in INTACT:
            o = A.agg_field_operand(s, fld)
            og = A.origins(prog, f, o["p"][0], scope=core) if o and "p" in o else None
            ok = bool(og) and og.has_call(lambda c: c.name == "from_json" and "JsonUtil" in (c.trait or c.path or "")) \
                and og.has_call(lambda c: c.name in ("into_bytes",) and last_seg(c.self_adt) == "ApplicationMessage")
            # field-level: the value is the rumor's same-named field (or the whole rumor for `event`)
            named = fld in og.fields if (og and fld != "event") else True
            rep.check(ok and named, "intact-wiring", "%s/%s" % (inst, fld),
                      "stored %s derives from the same-named field of the rumor decoded from the MLS application message" % fld,
                      "stored %s is not wired to the decoded rumor's %s" % (fld, fld), "%s:%s" % (f.file, s.get("line")))
        o = A.agg_field_operand(s, "wrapper_event_id")
        og = A.origins(prog, f, o["p"][0], scope=core) if o and "p" in o else None
        rep.check(bool(og) and "id" in og.fields and not og.has_call(lambda c: c.name == "from_json"),
                  "intact-wiring", "%s/wrapper_event_id" % inst,
                  "wrapper_event_id is the wrapper event's id", "wrapper_event_id is not wired to the wrapper event id",
                  "%s:%s" % (f.file, s.get("line")))
        # epoch provenance (C02.4): the stored epoch IS the result of ProcessedMessage::epoch() (copy provenance)
        o = A.agg_field_operand(s, "epoch")
        pr = A.producers(prog, f, o["p"][0], scope=core) if o and "p" in o else None
        names = sorted(set("%s::%s" % (last_seg(c.self_adt), c.name) for c in pr["calls"])) if pr else []
        from_msg = bool(pr) and any(c.name == "epoch" and last_seg(c.self_adt) == "ProcessedMessage" for c in pr["calls"])
        other = [n for n in names if n != "ProcessedMessage::epoch"]
        rep.check(from_msg and not other, "message-epoch-provenance", "%s/epoch" % inst,
                  "stored Message.epoch is exactly ProcessedMessage::epoch() (the epoch the message was sent in)",
                  "stored Message.epoch is produced by %s: a late message from an older epoch is filed under the receiver's epoch and "
                  "is invalidated by a rollback although valid on every branch" % (names or "nothing traceable"),
                  "%s:%s" % (f.file, s.get("line")))


REWRITABLE = {"Message": {"state"}, "ProcessedMessage": {"state", "failure_reason", "processed_at"}}


def clause_record_fields_rewritten(prog, rep, scope):
    """stored message records are updated in place only in their state (and the failure bookkeeping of the processed record): the epoch
    label, ids, author, content ... of an existing record are never reassigned (e.g. re-stamping an own message with the epoch in which
    its echo arrives files it under a later epoch, and a rollback then invalidates a message created before the fork)"""
    n = 0
    for p in sorted(scope):
        f = prog.fns[p]
        for bb, st in f.stmts():
            d = st["d"]
            if len(d) < 2 or not isinstance(d[-1], str) or not d[-1].startswith("."):
                continue
            ty = f.locals[d[0]]
            for adt, ok_fields in REWRITABLE.items():
                if re.search(r"mdk_storage_traits::messages::types::%s(?![A-Za-z])" % adt, ty) and "Result<" not in ty and "Option<" not in ty:
                    n += 1
                    fld = d[-1][1:]
                    rep.check(fld in ok_fields, "message-epoch-provenance", "%s/%s.%s-rewritten" % (prog.fns.get(f.root, f).label(), adt, fld),
                              "in-place update of a stored %s touches only %s" % (adt, sorted(ok_fields)),
                              "the `%s` of an already stored %s is reassigned in place: the record no longer says what was recorded when the "
                              "message was created / received" % (fld, adt), "%s:%s" % (f.file, st.get("line")))
    rep.floor("message-epoch-provenance", "in-place field updates of stored message records on the receive path", n, 4)


def clause_echo_table(prog, rep, scope):
    hits = 0
    for p in sorted(scope):
        f = prog.fns[p]
        arms = A.variant_arms(prog, f, "Error", "CannotDecryptOwnMessage")
        for w, arm in arms:
            region = f.reachable_from(arm)
            # the state dispatch inside the arm
            inner = []
            for bb, s in f.stmts():
                if bb in region and s.get("k") == "discr" and last_seg(s.get("adt")) == "ProcessedMessageState":
                    inner.append((bb, s))
            if not inner:
                continue
            hits += 1
            adt = prog.adts[inner[0][1]["adt"]]
            discr_of = {v["name"]: v["discr"] for v in adt["variants"]}
            sw = None
            for bb, s in inner:
                t = f.term(bb)
                if t["k"] == "switch" and A._opl(t["discr"]) == s["d"][0]:
                    sw = (bb, t)
            if not sw:
                rep.violation("echo-transition-table", "MDK::process_message/own-echo/dispatch", "no state dispatch found", f.loc())
                continue
            bb, t = sw
            tg = {v: b for v, b in t["targets"]}
            for vname, dv in sorted(discr_of.items()):
                entry = tg.get(dv, t["otherwise"])
                areg = f.reachable_from(entry)
                # the storage writes made in the arm: directly, or through a persistence helper (`self.save_message_record(..)`)
                writes = set()
                for w_ in WRITE_CALLS:
                    rc_ = A.ReachCache(prog, lambda x, w_=w_: K.is_storage_trait_call(x, w_))
                    if any(c.bb in areg and rc_.call(c) for c in f.live_calls()):
                        writes.add(w_)
                writes = sorted(writes)
                consts = set()
                for b2, s2 in f.stmts():
                    if b2 in areg and s2.get("k") == "agg" and last_seg(s2.get("adt")) in ("MessageState", "ProcessedMessageState") and not s2.get("o"):
                        # only constants that are stored into a `.state` field or passed on (exclude comparisons: they are moved into eq())
                        used_in_eq = False
                        for c in f.live_calls():
                            if c.name in ("eq", "ne") and any("p" in a and a["p"][0] in f.flows_from({s2["d"][0]}, through_calls=False) for a in c.args):
                                used_in_eq = True
                        if not used_in_eq:
                            consts.add("%s::%s" % (last_seg(s2["adt"]), s2["variant"]))
                inst = "MDK::process_message/own-echo/%s" % vname
                if vname in ("Created", "Retryable"):
                    rep.check(consts <= {"MessageState::Processed", "ProcessedMessageState::Processed"} and set(writes) == set(WRITE_CALLS),
                              "echo-transition-table", inst,
                              "%s -> Processed: writes %s, constants %s" % (vname, writes, sorted(consts)),
                              "%s arm writes %s with states %s (expected both records -> Processed only)" % (vname, writes, sorted(consts)), f.loc())
                elif vname in ("Processed", "Failed", "EpochInvalidated"):
                    rep.check(not writes and not consts, "echo-transition-table", inst,
                              "%s: own echo is a no-op (no message/record write)" % vname,
                              "%s arm rewrites state on an own-message echo: %s %s" % (vname, writes, sorted(consts)), f.loc())
                else:
                    rep.check(not writes, "echo-transition-table", inst, "%s: no message write" % vname,
                              "%s arm writes message records %s" % (vname, writes), f.loc())
    rep.floor("echo-transition-table", "CannotDecryptOwnMessage handler with state dispatch", hits, 1)


def _offset_walk(prog, f, epoch_local):
    """(lo operand, hi operand, inclusive?, loc) of a range of distances that a closure subtracts from a captured value to produce the
    epoch handed to the lookup; None if the epoch is not produced that way"""
    dep, calls, _ = f.depends_on(epoch_local)
    for c in calls:
        if c.name not in ("map", "map_while", "filter_map", "flat_map") or not c.args or "p" not in c.args[0]:
            continue
        bodies = A.closure_args(prog, c)
        if not any(y.name in ("checked_sub", "saturating_sub", "sub", "wrapping_sub") for g in bodies for y in g.live_calls()) and \
                not any(st.get("k") == "binop" and str(st.get("op", "")).startswith("Sub") for g in bodies for _, st in g.stmts()):
            continue
        # the subtrahend is the closure's own parameter (the distance), the minuend is captured
        okb = False
        for g in bodies:
            for y in g.live_calls():
                if y.name in ("checked_sub", "saturating_sub", "sub", "wrapping_sub") and len(y.args) == 2 and all("p" in a_ for a_ in y.args):
                    d0, _, _ = g.depends_on(y.args[0]["p"][0])
                    d1, _, _ = g.depends_on(y.args[1]["p"][0])
                    if (1 in d0 | {y.args[0]["p"][0]}) and (2 in d1 | {y.args[1]["p"][0]}):
                        okb = True
        if not okb:
            continue
        rdep, _, _ = f.depends_on(c.args[0]["p"][0])
        for bb, s2 in f.stmts():
            if s2.get("k") == "agg" and last_seg(s2.get("adt")) in ("Range", "RangeInclusive") and s2["d"][0] in rdep | {c.args[0]["p"][0]} and len(s2.get("o", [])) >= 2:
                return s2["o"][0], s2["o"][1], last_seg(s2.get("adt")) == "RangeInclusive", "%s:%s" % (f.file, s2.get("line"))
        for y in f.live_calls():
            if y.name == "new" and "RangeInclusive" in (y.self_ty or y.path or "") and y.dst and y.dst[0] in rdep | {c.args[0]["p"][0]} and len(y.args) == 2:
                return y.args[0], y.args[1], True, y.loc()
    return None


def clause_lookback(prog, rep, scope):
    core = K.core_scope(prog)
    sites = []
    for p in sorted(scope):
        f = prog.fns[p]
        for c in f.live_calls():
            if K.is_storage_trait_call(c, "get_group_exporter_secret"):
                sites.append(c)
    rep.floor("lookback-from-config", "past-epoch exporter secret lookups on the receive path", len(sites), 1)
    any_loop = False
    for c in sites:
        a = c.args[-1]
        og = A.origins(prog, c.fn, a["p"][0], scope=core) if "p" in a else None
        if og is None:
            continue
        looped = og.has_call(lambda x: x.name in ("next", "into_iter", "rev"))
        if not looped:
            continue   # current-epoch lookup
        any_loop = True
        rep.check("max_past_epochs" in og.fields, "lookback-from-config", "MDK::process_message/past-epoch-window",
                  "the epochs tried for the outer NIP-44 layer derive from MdkConfig.max_past_epochs",
                  "the outer-layer epoch fallback window does not depend on MdkConfig.max_past_epochs (constant lookback): with a larger "
                  "configured window, messages OpenMLS could still decrypt are lost at the wrapper layer", c.loc())
    rep.floor("lookback-from-config", "iterated past-epoch lookup", 1 if any_loop else 0, 1)
    # ... and the configured window is a *lower* bound of the look-back: it may be raised to a default (`DEFAULT.max(cfg)`), never capped
    # by a constant (`DEFAULT.min(cfg)`): a wrapper from further back than the cap is no longer unwrapped although OpenMLS could still
    # process it, so a late competing commit never reaches the race decision
    for c in sites:
        a = c.args[-1]
        og = A.origins(prog, c.fn, a["p"][0], scope=core) if "p" in a else None
        if og is None or not og.has_call(lambda x: x.name in ("next", "into_iter", "rev")) or "max_past_epochs" not in og.fields:
            continue
        capped = []
        for x in og.calls:
            if x.name not in ("min", "clamp") or x.krate not in ("core", "std") or len(x.args) < 2:
                continue
            cfg_side, const_side = False, False
            for arg in x.args:
                if "c" in arg:
                    const_side = True
                    continue
                if "p" not in arg:
                    continue
                o2 = A.origins(prog, x.fn, arg["p"][0], scope=core, max_frames=2)
                if "max_past_epochs" in o2.fields:
                    cfg_side = True
                elif not o2.fields and not o2.params and not [y for y in o2.calls if y.name not in ("into", "from", "max", "min")]:
                    const_side = True
            if cfg_side and const_side:
                capped.append("%s @%s" % (x.name, x.loc()))
        rep.check(not capped, "lookback-from-config", "MDK::process_message/window-not-capped",
                  "the configured max_past_epochs is not capped by a constant on its way to the look-back window",
                  "the look-back window is the configured max_past_epochs capped by a constant (%s): wrappers older than the cap are not "
                  "unwrapped although the MLS layer still holds their epoch" % "; ".join(sorted(set(capped))), c.loc())
    # window arithmetic: the epochs tried are exactly current-1 down to current-L (L = the lookback), i.e. L epochs
    n_constructs = 0
    for c in sites:
        f = c.fn
        a = c.args[-1]
        if "p" not in a:
            continue
        og = A.origins(prog, f, a["p"][0], scope=None, max_frames=0)
        ranges = [x for x in og.calls if x.name == "new" and "RangeInclusive" in (x.self_ty or x.path or "")]
        range_aggs = [(bb, s2) for bb, s2 in f.stmts() if s2.get("k") == "agg" and last_seg(s2.get("adt")) in ("Range", "RangeInclusive")
                      and s2["d"][0] in f.depends_on(a["p"][0])[0]]
        if not ranges and not range_aggs and f.is_closure():
            # the lookup sits in the body of an adaptor over the epochs (`(lo..=hi).rev().find_map(|epoch| try_epoch(epoch))`): the range is
            # built by the function the closure is created in, and is what the adaptor iterates
            for h in A.creators(prog, f):
                for x in h.live_calls():
                    if not x.args or "p" not in x.args[0] or not any(q.path == f.path or f.path in set(z.path for z in prog.family(q)) for q in A.closure_args(prog, x)):
                        continue
                    rdep, rcalls, _ = h.depends_on(x.args[0]["p"][0])
                    hr = [y for y in rcalls if y.name == "new" and "RangeInclusive" in (y.self_ty or y.path or "")]
                    ha = [(bb, s2) for bb, s2 in h.stmts() if s2.get("k") == "agg" and last_seg(s2.get("adt")) in ("Range", "RangeInclusive") and s2["d"][0] in rdep]
                    if hr or ha:
                        f, ranges, range_aggs = h, hr, ha
                        a = x.args[0]
        if not ranges and not range_aggs:
            # the walk written as offsets: `(1..=L).map_while(|back| current.checked_sub(back))` — a range of distances mapped by a closure
            # that subtracts the distance from the current epoch
            off = _offset_walk(prog, f, a["p"][0])
            if off is None:
                continue
            lo, hi, incl, loc = off
            u64_params = [l for l in range(1, f.nargs + 1) if f.locals[l] == "u64"]
            if len(u64_params) != 1:
                continue
            env = affine.evaluate(f, {u64_params[0]: affine.sym("L")}, lambda x: None)
            lo_v = env.get(lo["p"][0]) if "p" in lo else (affine.const(lo["c"]["int"]) if isinstance(lo.get("c"), dict) and isinstance(lo["c"].get("int"), int) else None)
            hi_v = env.get(hi["p"][0]) if "p" in hi else (affine.const(hi["c"]["int"]) if isinstance(hi.get("c"), dict) and isinstance(hi["c"].get("int"), int) else None)
            n_constructs += 1
            if lo_v is None or hi_v is None:
                rep.note("lookback-window-arithmetic: offset range bounds are not affine in the lookback at %s — clause not decided for this construction" % loc)
                continue
            count = affine.add(affine.add(hi_v, lo_v, -1), affine.const(1 if incl else 0))
            ok = count == affine.sym("L") and lo_v == affine.const(1)
            what = "distances %s %s %s subtracted from the current epoch" % (lo_v, "..=" if incl else "..", hi_v)
            rep.check(ok, "lookback-window-arithmetic", "MDK::process_message/past-epoch-range",
                      "the fallback tries exactly the L epochs current-1 .. current-L (%s), in the regime current >= L >= 1" % what,
                      "the outer-layer fallback does not try exactly the epochs current-1 down to current-L (%s): a message that is exactly "
                      "L epochs late (inside the configured window) can no longer be opened" % what, loc)
            continue
        # symbols: current epoch and the lookback parameter (the u64 parameter of the function)
        u64_params = [l for l in range(1, f.nargs + 1) if f.locals[l] == "u64"]
        if len(u64_params) != 1:
            rep.note("window arithmetic: cannot identify the lookback parameter of %s" % f.label())
            continue
        seeds = {u64_params[0]: affine.sym("L")}

        def call_syms(x):
            if x.name == "as_u64" and x.args and "p" in x.args[0]:
                dep, calls, _ = f.depends_on(x.args[0]["p"][0])
                if any(y.name == "epoch" and last_seg(y.self_adt) == "MlsGroup" for y in calls):
                    return affine.sym("cur")
            return None
        env = affine.evaluate(f, seeds, call_syms)
        verdicts = []

        def _val(o):
            if "p" in o:
                return env.get(o["p"][0])
            if isinstance(o.get("c"), dict) and isinstance(o["c"].get("int"), int):
                return affine.const(o["c"]["int"])
            return None
        off = _offset_walk(prog, f, a["p"][0])
        for r in ranges:
            lo = _val(r.args[0])
            hi = _val(r.args[1])
            if off is not None and lo is not None and hi is not None:
                count = affine.add(affine.add(hi, lo, -1), affine.const(1))
                verdicts.append((count == affine.sym("L") and lo == affine.const(1),
                                 "distances %s ..= %s subtracted from the current epoch" % (lo, hi), r.loc()))
                continue
            if lo is None or hi is None:
                verdicts.append((None, "range bounds are not affine in (current epoch, lookback)", r.loc()))
                continue
            count = affine.add(affine.add(hi, lo, -1), affine.const(1))
            verdicts.append((count == affine.sym("L") and hi == affine.add(affine.sym("cur"), affine.const(1), -1),
                             "inclusive range [%s ..= %s]" % (lo, hi), r.loc()))
        for bb, s2 in range_aggs:
            ops = s2["o"]
            lo = _val(ops[0])
            hi = _val(ops[1])
            if off is not None and lo is not None and hi is not None:
                # a range of *distances* (subtracted from the current epoch by the mapping closure), not of epochs
                incl = last_seg(s2.get("adt")) == "RangeInclusive"
                count = affine.add(affine.add(hi, lo, -1), affine.const(1 if incl else 0))
                verdicts.append((count == affine.sym("L") and lo == affine.const(1),
                                 "distances %s %s %s subtracted from the current epoch" % (lo, "..=" if incl else "..", hi), "%s:%s" % (f.file, s2.get("line"))))
                continue
            if lo is None or hi is None:
                verdicts.append((None, "range bounds are not affine in (current epoch, lookback)", "%s:%s" % (f.file, s2.get("line"))))
                continue
            incl = last_seg(s2.get("adt")) == "RangeInclusive"
            count = affine.add(affine.add(hi, lo, -1), affine.const(1 if incl else 0))
            top = hi if incl else affine.add(hi, affine.const(1), -1)
            verdicts.append((count == affine.sym("L") and top == affine.add(affine.sym("cur"), affine.const(1), -1),
                             "%s range [%s .. %s]" % ("inclusive" if incl else "exclusive", lo, hi), "%s:%s" % (f.file, s2.get("line"))))
        for ok, what, loc in verdicts:
            if ok is None:
                # outside the decidable fragment (affine forms with min / max / saturating_sub resolved by the regime): no verdict
                rep.note("lookback-window-arithmetic: %s at %s — clause not decided for this construction" % (what, loc))
            else:
                rep.check(ok, "lookback-window-arithmetic", "MDK::process_message/past-epoch-range",
                          "the fallback tries exactly the L epochs current-1 .. current-L (%s), in the regime current >= L >= 1" % what,
                          "the outer-layer fallback does not try exactly the epochs current-1 down to current-L (%s): a message that is exactly "
                          "L epochs late (inside the configured window) can no longer be opened" % what, loc)
        n_constructs += len(verdicts)
    rep.floor("lookback-window-arithmetic", "epoch range constructions", n_constructs, 1)
    # inventory: every public MdkConfig field is read by non-test code
    cfg = prog.adt("MdkConfig", crate="mdk_core")
    read = set()
    for f in prog.nontest_fns(("mdk_core", "mdk_uniffi")):
        if f.derived or (f.impl_trait and last_seg(f.impl_trait) in ("Default", "Clone", "Debug")):
            continue
        if f.self_adt and last_seg(f.self_adt) == "MdkConfig":
            continue
        for bb, s in f.stmts():
            for o in s.get("o", []):
                pl = o.get("p")
                if pl:
                    for i, e in enumerate(pl[1:]):
                        if isinstance(e, str) and e.startswith("."):
                            read.add(e[1:])
        for c in f.calls():
            for a in c.args:
                pl = a.get("p")
                if pl:
                    for e in pl[1:]:
                        if isinstance(e, str) and e.startswith("."):
                            read.add(e[1:])
    for fd in cfg["variants"][0]["fields"]:
        rep.check(fd["name"] in read, "config-inventory", "MdkConfig.%s" % fd["name"],
                  "configuration field is read by library code", "configuration field is never read: a configured window has no effect",
                  "%s:%s" % (cfg.get("file"), cfg.get("line")))


def clause_config_call_sites(prog, rep):
    """the same dependency call fed from MdkConfig at several places (creator side, joiner side, ...) wires the same configuration
    fields to the same argument positions everywhere: two sites that disagree cannot both be right (the members of one group would then
    run with different windows)"""
    cfg = prog.adt("MdkConfig", crate="mdk_core")
    cfg_fields = set(fd["name"] for fd in cfg["variants"][0]["fields"])
    by_callee = {}
    for f in prog.nontest_fns(("mdk_core",)):
        for c in f.live_calls():
            if c.krate in ("mdk_core", "core", "alloc", "std") or not c.args:
                continue
            sig = []
            for a in c.args:
                flds = ()
                if "p" in a:
                    direct = [e[1:] for e in a["p"][1:] if isinstance(e, str) and e.startswith(".") and e[1:] in cfg_fields]
                    if direct:
                        flds = tuple(direct)
                    else:
                        pr = A.producers(prog, f, a["p"][0], scope=set(), max_frames=0)
                        flds = tuple(sorted(x for x in pr["fields"] if x in cfg_fields)) if not pr["calls"] else ()
                sig.append(flds)
            if sum(1 for x in sig if x) >= 1:
                by_callee.setdefault(c.resolved or c.path, []).append((f, c, tuple(sig)))
    n = 0
    for callee, sites in sorted(by_callee.items()):
        if len(sites) < 2:
            continue
        n += 1
        sigs = set(s_ for _, _, s_ in sites)
        rep.check(len(sigs) == 1, "config-inventory", "call-sites-agree/%s" % callee.split("<")[0].split("::")[-2:][0] + "::" + callee.split("::")[-1],
                  "all %d call sites pass the same configuration fields in the same positions %s" % (len(sites), list(sigs)[0]),
                  "call sites of %s wire MdkConfig fields differently: %s" % (callee, "; ".join("%s: %s" % (prog.fns.get(f.root, f).label(), [list(x) for x in s_]) for f, c, s_ in sites)),
                  sites[0][1].loc())
    rep.floor("config-inventory", "dependency calls fed from MdkConfig at two or more sites", n, 1)


def clause_dedup_transient(prog, rep, roots):
    for f in roots:
        dedup = K.pure_lookup_calls(prog, f, "find_processed_message_by_event_id")
        rep.floor("transient-not-terminal", "dedup lookup in process_message", len(dedup), 1)
        if not dedup:
            continue
        load = A.ReachCache(prog, lambda c: c.name == "load" and last_seg(c.self_adt) == "MlsGroup")
        loadb = frozenset(c.bb for c in f.live_calls() if load.call(c))
        errb = A.err_exit_blocks(f)
        # blocks that can reach a return without loading the MLS group and without an Err exit = early Ok returns
        early = A.reach_without_edges(f, 0, set(), loadb | errb)
        rets = [b for b in early if f.term(b)["k"] == "return"]
        seeds = f.flows_from({dedup[0].dst[0]}, through_calls=True,
                             stop_calls=lambda c: c.krate in ("mdk_core",) and not c.name.startswith(("eq", "ne")))
        fields = set()
        nsw = 0
        for w in early:
            t = f.term(w)
            if t["k"] != "switch":
                continue
            l = A._opl(t["discr"])
            if l not in seeds:
                continue
            # does this switch decide an early return?
            ss = f.succs()[w]
            reach = [any(r in A.reach_without_edges(f, s, set(), loadb | errb) for r in rets) for s in ss]
            if not any(reach) or all(reach):
                continue
            nsw += 1
            dep, calls, _ = f.depends_on(l)
            for l2 in dep:
                for bb, kind, x in f.defs().get(l2, []):
                    if kind == "stmt":
                        for o in x.get("o", []):
                            pl = o.get("p")
                            if pl:
                                fields |= set(e[1:] for e in pl[1:] if isinstance(e, str) and e.startswith(".") and not e[1:].isdigit())
                    else:
                        for a in x.args:
                            pl = a.get("p")
                            if pl:
                                fields |= set(e[1:] for e in pl[1:] if isinstance(e, str) and e.startswith(".") and not e[1:].isdigit())
        rep.floor("transient-not-terminal", "switches deciding the early (blocked) return", nsw, 1)
        progress_fields = fields - {"state", "id", "failure_reason"}
        rep.check(bool(progress_fields), "transient-not-terminal", "MDK::process_message/dedup-blocks-Failed",
                  "the blocking decision also depends on %s" % sorted(progress_fields),
                  "the dedup step blocks a Failed record on its state alone (fields read: %s): a message that could not be decrypted "
                  "*yet* (sent in epoch N+1, delivered before the commit creating N+1) stays Unprocessable after the commit arrives and "
                  "is never stored" % sorted(fields), f.loc())


def run(ctx, rep):
    prog = ctx.prog()
    roots, scope = recv_scope(prog)
    rep.fns_analysed = len(scope)
    rep.floor("entry", "MDK::process_message", len(roots), 1)
    rep.clause("C02.1 both records are written on every Ok path after a received Message is built; its author/kind/tags/timestamp/content/event fields are wired to the decoded rumor")
    rep.clause("C02.2 own-echo transition table: Created/Retryable -> Processed, other states untouched")
    rep.clause("C02.3 the outer-layer epoch fallback window derives from MdkConfig.max_past_epochs; every MdkConfig field is read")
    rep.clause("C02.4 stored Message.epoch derives from ProcessedMessage::epoch()")
    rep.clause("C02.5 rollback arm invalidates / marks retryable / notifies (the clause C01.3 owns, also run here)")
    rep.clause("C02.6 the dedup step's blocking of Failed records must depend on more than the record state")
    rep.not_decided = "exactly-once under real interleavings, window arithmetic inside OpenMLS, relay echo timing"
    clause_store_both(prog, rep, scope)
    clause_echo_table(prog, rep, scope)
    # C02.5: the rollback arm invalidates every message stored after the rollback *target* epoch — the clause C01 owns, run here too so
    # that a change of the invalidation threshold is reported under the property whose last clause it breaks
    import os
    import sys
    sys.path.insert(0, os.path.dirname(os.path.abspath(__file__)))
    import c01
    c01.clause_rollback_arm(prog, rep)
    clause_record_fields_rewritten(prog, rep, scope)
    clause_lookback(prog, rep, scope)
    clause_config_call_sites(prog, rep)
    clause_dedup_transient(prog, rep, roots)
    # losing-branch messages: what the rollback arm invalidates is decided by the storage queries (both backends)
    rep.clause("C02.5b both backends' invalidation / retry queries select exactly what the storage contract names (epoch > N; Failed && epoch NULL), whatever the message's own state")
    sites = sqlmod.collect(prog)
    as_strs = {}
    for enum in ("MessageState", "ProcessedMessageState"):
        try:
            as_strs[enum] = tables.as_str_table(prog, enum)[0]
        except Exception as e:  # noqa: BLE001
            rep.violation("selector-siblings", "%s::as_str" % enum, "cannot extract the variant->string table: %s" % e)
    sqlrules.clause_selectors(prog, rep, sites, as_strs, only=("invalidate_messages_after_epoch", "invalidate_processed_messages_after_epoch",
                                                               "find_failed_messages_for_retry", "mark_processed_message_retryable"))
    # a message saved again (re-sent on the winning branch, confirmed by its echo) replaces the stored row whatever its state: the message
    # upserts assign every column, unconditionally, keyed by the primary key (shared with C10 / C18)
    rep.clause("C02.5c the message / processed-message upserts replace the stored row completely and unconditionally")
    sqlrules.clause_upserts(prog, rep, sqlmod.Schema(), sites, only_tables={"messages", "processed_messages"})
    # stored messages survive a rollback: no statement of the SQLite restore writes (directly or through a cascade) the messages /
    # processed_messages tables (the frame clause of C09, for the rollback statements)
    rep.clause("C02.5d the SQLite rollback neither writes nor cascades into the stored messages and their processed records")
    import os
    import sys
    sys.path.insert(0, os.path.dirname(os.path.abspath(__file__)))
    import c09
    sub = type(rep)(rep.prop, rep.tier, rep.seed)
    sub.config = rep.config
    c09.clause_sqlite(prog, sub, sqlmod.Schema(), sites)
    n = 0
    for o in sub.obligations:
        if o["rule"] in ("frame", "sql-cascade") and ("/rollback/" in o["key"] or o["rule"] == "sql-cascade"):
            rep.obligations.append(dict(o, rule="stored-messages-survive-rollback", key=o["key"].replace("/%s/" % o["rule"], "/stored-messages-survive-rollback/")))
            n += 1
    rep.floor("stored-messages-survive-rollback", "rollback statements / cascade edges examined", n, 10)
    # the echo of an own application message confirms the stored message; it must never be taken for the echo of an own commit
    # (which merges the pending commit instead): shared with C07
    rep.clause("C02.7 the own-pending-commit shortcut is taken for a Commit only, never for the echo of an own application message")
    import c07
    c07.clause_own_commit_pending(prog, rep)
