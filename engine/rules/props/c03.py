"""C03 — only members of the sending epoch obtain plaintext (structural clauses)."""
from ir import last_seg
import analysis as A
import common as K
import predicates as P

ACTIVE_WRITERS = {"MDK::create_group": "the creator's own group", "MDK::accept_welcome": "explicit consent of the invited user"}


def const_written(f, bb, s):
    """is the enum constant built by statement s used as a value (stored / passed), not only compared?"""
    fl = f.flows_from({s["d"][0]}, through_calls=False)
    for c in f.live_calls():
        if c.name in ("eq", "ne") and any("p" in a and a["p"][0] in fl for a in c.args):
            return False
    return True


def public_entries_reaching(prog, target_path, crates=("mdk_core",)):
    out = []
    for f in prog.nontest_fns(crates):
        if K.api_boundary(f) and f.self_adt and last_seg(f.self_adt) == "MDK":
            if target_path in prog.reachable([f]):
                out.append(f)
    return out


def clause_active_writers(prog, rep):
    sites = []
    for f in prog.nontest_fns(("mdk_core", "mdk_uniffi")):
        for bb, s in f.aggregates("GroupState", "Active"):
            if const_written(f, bb, s):
                sites.append((f, bb, s))
    rep.floor("active-only-by-create-or-accept", "writes of GroupState::Active", len(sites), 2)
    for f, bb, s in sites:
        entries = public_entries_reaching(prog, f.path)
        labels = sorted(set(e.label() for e in entries))
        bad = [l for l in labels if l not in ACTIVE_WRITERS]
        for l in labels:
            rep.check(l in ACTIVE_WRITERS, "active-only-by-create-or-accept", "%s/GroupState::Active" % l,
                      "Active is written here (%s)" % ACTIVE_WRITERS.get(l, ""),
                      "GroupState::Active can be written through %s: a group may become readable/sendable without creation or an "
                      "accepted invitation" % l, "%s:%s" % (f.file, s.get("line")))


def clause_eviction(prog, rep):
    roots = prog.find(adt="MDK", name="process_message", crate="mdk_core")
    scope = set(p for p in prog.reachable(roots) if p in prog.fns and prog.fns[p].crate == "mdk_core")
    export = A.ReachCache(prog, lambda c: (c.name == "export_secret" and last_seg(c.self_adt) == "MlsGroup")
                          or K.is_storage_trait_call(c, "save_group_exporter_secret"))
    saveg = A.ReachCache(prog, lambda c: K.is_storage_trait_call(c, "save_group"))
    n = 0
    for p in sorted(scope):
        f = prog.fns[p]
        merges = [c for c in f.live_calls() if K.is_mls_call(c, "merge_staged_commit", "merge_pending_commit")]
        for m in merges:
            n += 1
            after = f.reachable_from(m.t["to"]) if "to" in m.t else set()
            exports = [c for c in f.live_calls() if c.bb in after and export.call(c) and not K.is_mls_call(c, "merge_staged_commit", "merge_pending_commit")]
            # the membership test after the merge: MlsGroup::is_active() (the group's own state).  The leaf at the own index
            # (own_leaf()) is recognised too, but it is not evidence of membership: a member added by the same commit takes the slot
            # the removal vacated (F24)
            leafs = [c for c in f.live_calls() if c.bb in after and c.name == "own_leaf" and last_seg(c.self_adt) == "MlsGroup"]
            actives = [c for c in f.live_calls() if c.bb in after and c.name == "is_active" and last_seg(c.self_adt) == "MlsGroup"]
            inst = "MDK::process_message/MlsGroup::%s" % m.name
            in_edges, out_edges = set(), set()
            for lf in leafs:
                tests, _ = A.result_tests(f, {lf.dst[0]})
                for w, oks in tests.items():
                    for s in f.succs()[w]:
                        (in_edges if s in oks else out_edges).add((w, s))
            act_in = set()
            for ac in actives:
                te = A.bool_true_edges(f, ac)
                act_in |= te
                for (w, sx) in te:
                    out_edges |= set((w, s2) for s2 in f.succs()[w] if s2 != sx)
            in_edges |= act_in
            for e in exports:
                ok = bool(in_edges) and e.bb not in A.reach_without_edges(f, 0, in_edges)
                rep.check(ok, "no-export-after-eviction", inst + "/export",
                          "the new epoch's exporter secret is exported only on the still-a-member side of the test made after the merge",
                          "after the merge the exporter secret of the new epoch is exported/cached without checking that the local "
                          "member is still in the group", e.loc())
                rep.check(bool(act_in) and e.bb not in A.reach_without_edges(f, 0, act_in), "no-export-after-eviction", inst + "/membership-test",
                          "membership after the merge is read from the MLS group's own state (MlsGroup::is_active)",
                          "whether the local member was removed is decided from the leaf at its own index (own_leaf()): a commit that removes the "
                          "member and adds another one puts the newcomer into the vacated slot, so the evicted client sees a leaf, skips the "
                          "eviction handling and keeps the stored group Active", e.loc())
            # evicted side: group becomes Inactive
            ok_inactive = False
            for _once in [0]:
                for (w, s) in sorted(out_edges):
                    for _s in [s]:
                        reg = f.reachable_from(s)
                        # what runs on that side and saves the group: called functions, and closures built there (`.map(|mut g| ..)`)
                        savers = [t for c in f.live_calls() if c.bb in reg and saveg.call(c) for t in prog.call_targets(c)]
                        savers += [prog.fns[st["closure"]] for b2, st in f.stmts() if b2 in reg and st.get("k") == "closure"
                                   and st.get("closure") in prog.fns and saveg.fn(st["closure"])]
                        if any(c.bb in reg and saveg.call(c) for c in f.live_calls()) or savers:
                            # the handler (an mdk-core function on that side, or this one) assigns GroupState::Inactive to a
                            # `.state` field before the save — merely mentioning the constant somewhere below does not count
                            cands = [f] + [prog.fns[q] for t in savers for q in sorted(prog.extent(t))
                                           if q in prog.fns and prog.fns[q].crate == "mdk_core" and not prog.fns[q].is_test_like()]
                            for g in cands:
                                if ("GroupState", "Inactive") in P.field_const_writes(prog, g, "state"):
                                    ok_inactive = True
            rep.check(ok_inactive, "no-export-after-eviction", inst + "/inactive",
                      "the evicted side stores the group as Inactive",
                      "no path on the own_leaf()==None side stores the group as Inactive", m.loc())
    rep.floor("no-export-after-eviction", "merge sites on the receive path", n, 2)


def unwrapped_copy_sources(f, local):
    seen = set()
    out = set()
    st = [local]
    while st:
        l = st.pop()
        if l in seen:
            continue
        seen.add(l)
        for bb, kind, x in f.defs().get(l, []):
            if kind == "stmt" and x.get("k") in ("use", "ref", "cast"):
                o = x["o"][0]
                if "p" in o:
                    st.append(o["p"][0])
            elif kind == "stmt" and x.get("k") == "agg" and x.get("variant") in ("Ok", "Some") and x.get("o"):
                # the success wrapper of a helper folded into this function
                if "p" in x["o"][0]:
                    st.append(x["o"][0]["p"][0])
            elif kind == "call" and x.name == "from_residual":
                continue  # the failure side of a `?`: carries an error, never the content
            elif kind == "call":
                if x.name in ("branch", "clone", "deref", "into", "from", "to_string", "to_owned", "unwrap", "expect", "map_err"):
                    for a in x.args[:1]:
                        if "p" in a:
                            st.append(a["p"][0])
                else:
                    out.add(x)
    return out


def clause_wrapper_content(prog, rep):
    core = K.core_scope(prog)
    builders = []
    for f in prog.nontest_fns(("mdk_core",)):
        for c in f.live_calls():
            if c.name == "new" and last_seg(c.self_adt) == "EventBuilder" and len(c.args) >= 2 and "p" in c.args[0]:
                dep, _, consts = f.depends_on(c.args[0]["p"][0])
                if any(k.get("agg") and last_seg(k["agg"]) == "Kind" and k.get("variant") == "MlsGroupMessage" for _, k in consts):
                    builders.append(c)
    rep.floor("wrapper-content-is-ciphertext", "EventBuilder::new(Kind::MlsGroupMessage, ..) sites", len(builders), 1)
    secret = A.ReachCache(prog, lambda c: (c.name == "export_secret" and last_seg(c.self_adt) == "MlsGroup")
                          or K.is_storage_trait_call(c, "get_group_exporter_secret"))
    for c in builders:
        f = c.fn
        entry = "kind445-builder"
        srcs = unwrapped_copy_sources(f, c.args[1]["p"][0]) if "p" in c.args[1] else set()
        enc = [x for x in srcs if x.name == "encrypt" and "nip44" in (x.resolved or "")]
        rep.check(len(enc) >= 1 and len(srcs) == len(enc), "wrapper-content-is-ciphertext", entry + "/content",
                  "the kind-445 content is exactly the result of nip44::encrypt",
                  "the kind-445 content is not (only) the result of nip44::encrypt: sources %s" % sorted(x.resolved for x in srcs), c.loc())
        for e in enc:
            ogk = A.origins(prog, f, e.args[0]["p"][0], scope=core) if "p" in e.args[0] else None
            rep.check(bool(ogk) and ogk.has_call(secret.call), "wrapper-content-is-ciphertext", entry + "/key",
                      "the NIP-44 key derives from the group's per-epoch exporter secret",
                      "the NIP-44 key does not derive from the group's exporter secret", e.loc())
            # payload: TLS-serialised MLS output in every caller (stop tracing at the serialiser)
            stop = lambda x: x.name not in ("tls_serialize_detached", "tls_serialize")
            ogp = A.origins(prog, f, e.args[2]["p"][0], scope=core, call_filter=stop) if "p" in e.args[2] else None
            ser = bool(ogp) and ogp.has_call(lambda x: x.name in ("tls_serialize_detached", "tls_serialize"))
            leak = bool(ogp) and ogp.has_call(lambda x: x.name in ("as_json", "into_bytes", "from_json"))
            rep.check(ser and not leak, "wrapper-content-is-ciphertext", entry + "/payload",
                      "the encrypted payload is a TLS-serialised MLS message in every caller (%d origin calls)" % (len(ogp.calls) if ogp else 0),
                      "the payload given to nip44::encrypt is not (only) a TLS-serialised MLS message (rumor JSON / plaintext reaches the wrapper)",
                      e.loc())


def clause_content_from_mls(prog, rep):
    core = K.core_scope(prog)
    roots = prog.find(adt="MDK", name="process_message", crate="mdk_core")
    scope = set(p for p in prog.reachable(roots) if p in prog.fns and prog.fns[p].crate == "mdk_core")
    n = 0
    for p in sorted(scope):
        f = prog.fns[p]
        for bb, s in f.aggregates("Message"):
            if not s["adt"].startswith("mdk_storage_traits::") or not s.get("fields"):
                continue
            n += 1
            o = A.agg_field_operand(s, "content")
            og = A.origins(prog, f, o["p"][0], scope=core) if o and "p" in o else None
            ok = bool(og) and og.has_call(lambda c: c.name == "process_message" and last_seg(c.self_adt) == "MlsGroup")
            rep.check(ok, "stored-content-from-mls", "MDK::process_message/Message.content",
                      "stored content derives from MlsGroup::process_message output (never from the outer layer alone)",
                      "stored content does not derive from MlsGroup::process_message", "%s:%s" % (f.file, s.get("line")))
    rep.floor("stored-content-from-mls", "received Message records", n, 1)


def clause_remove_all_leaves(prog, rep):
    """removing a user removes every leaf bound to that identity: the leaf list handed to MlsGroup::remove_members is taken per
    member from MlsGroup::members(), never through a structure keyed by identity (which keeps one leaf per user)"""
    import re
    n = 0
    for f in prog.nontest_fns(("mdk_core",)):
        for c in f.live_calls():
            if not K.is_mls_call(c, "remove_members"):
                continue
            n += 1
            a = c.args[-1]
            if "p" not in a:
                continue
            dep, calls, _ = f.depends_on(a["p"][0])
            from_members = any(x.name == "members" and last_seg(x.self_adt) == "MlsGroup" for x in calls)
            keyed = sorted(set(f.locals[l] for l in dep if re.search(r"(HashMap|BTreeMap)<nostr::key::public_key::PublicKey,", f.locals[l])))
            # per-member decision: a push into the list is control-dependent on a `contains` test, or the list is a filtered iterator chain
            per_member = any(x.name in ("filter", "filter_map") for x in calls)
            for x in calls:
                if x.name == "push":
                    for w in A.control_dependent_switches(f, x.bb):
                        d2, c2, _ = f.depends_on(A._opl(f.term(w)["discr"]))
                        if any(y.name == "contains" for y in c2):
                            per_member = True
            root = prog.fns.get(f.root, f)
            # ... by that test alone: a second condition on the member (its identity compared with the caller's, its index, ...) between the
            # loop head and the push keeps leaves of a requested identity in the group
            extra = []
            for x in calls:
                if x.name != "push":
                    continue
                for w in A.control_dependent_switches(f, x.bb):
                    dl = A._opl(f.term(w)["discr"])
                    if dl is None:
                        continue
                    # `?` and iterator-exhaustion switches are not filters
                    if any(b2 == w and s2.get("k") == "discr" and s2["d"] == [dl] for b2, s2 in f.stmts()):
                        continue
                    d2, c2, _ = f.depends_on(dl)
                    # a condition on the member at hand: computed from what the iterator over members() yielded
                    nexts = [y for y in f.live_calls() if y.name == "next" and y.dst and y.args and "p" in y.args[0]
                             and any(z.name == "members" and last_seg(z.self_adt) == "MlsGroup" for z in f.depends_on(y.args[0]["p"][0])[1])]
                    # (inside the walk: the switch lies on a cycle through the iterator's next())
                    in_loop = any(w in f.reachable_from(y.bb) and y.bb in f.reachable_from(w) for y in nexts)
                    on_member = in_loop and any(y.dst[0] in d2 for y in nexts)
                    if on_member and not any(y.name == "contains" for y in c2):
                        extra.append(sorted(set(y.name for y in c2 if y.name not in ("next", "members", "into_iter", "deref", "branch", "from_residual")))[:4])
            if per_member:
                rep.check(not extra, "remove-every-leaf", "%s/MlsGroup::remove_members/selected-by-membership-only" % root.label(),
                          "a member's leaf is selected exactly when its identity is in the requested list",
                          "besides the membership test a second condition on the member decides whether its leaf is removed (%s): leaves of a "
                          "requested identity can stay in the group" % extra, c.loc())
            # the walk over members() runs to exhaustion: the removal is reached from a push only through the iterator's None arm
            # (an early `break` once "enough" leaves were found leaves the user's other clients in the group)
            exhaust = True
            none_edges = set()
            for nx in f.live_calls():
                if nx.name == "next" and nx.dst and nx.args and "p" in nx.args[0]:
                    _, c3, _ = f.depends_on(nx.args[0]["p"][0])
                    if not any(y.name == "members" and last_seg(y.self_adt) == "MlsGroup" for y in c3):
                        continue
                    for w in range(f.nblocks()):
                        t = f.term(w)
                        if t["k"] != "switch":
                            continue
                        dl = A._opl(t["discr"])
                        if any(b2 == w and s2.get("k") == "discr" and s2["d"] == [dl] and s2["o"] and s2["o"][0].get("p", [None])[0] == nx.dst[0] for b2, s2 in f.stmts()):
                            tg = dict((v, b) for v, b in t["targets"])
                            none_edges.add((w, tg.get(0, t["otherwise"])))
            if none_edges:
                for x in calls:
                    if x.name == "push" and "to" in x.t:
                        if c.bb in A.reach_without_edges(f, x.t["to"], none_edges):
                            exhaust = False
                rep.check(exhaust, "remove-every-leaf", "%s/MlsGroup::remove_members/walk-exhausted" % root.label(),
                          "the member walk ends only when MlsGroup::members() is exhausted",
                          "the member walk can stop early (break) after a leaf was selected: further leaves of the same identity are not removed", c.loc())
            rep.check(from_members and not keyed and per_member, "remove-every-leaf", "%s/MlsGroup::remove_members" % root.label(),
                      "the leaves to remove are selected per member of MlsGroup::members() by a membership test on the requested identities",
                      "the leaf list for MlsGroup::remove_members %s: a user with several clients (leaves) under one identity keeps all but one of "
                      "them in the group after being removed" % ("passes through a map keyed by identity (%s)" % keyed if keyed else
                                                                   "is not selected per member of MlsGroup::members()"), c.loc())
    rep.floor("remove-every-leaf", "MlsGroup::remove_members call sites", n, 1)


def run(ctx, rep):
    prog = ctx.prog()
    rep.fns_analysed = len(K.core_scope(prog))
    rep.clause("C03.1 GroupState::Active is written only in the extents of MDK::create_group and MDK::accept_welcome")
    rep.clause("C03.2 after a merge on the receive path the new exporter secret is exported only when own_leaf() is Some; the None side stores Inactive")
    rep.clause("C03.3 kind-445 content is exactly nip44::encrypt(key<-exporter secret, payload<-TLS-serialised MLS message)")
    rep.clause("C03.5 remove_members selects leaves per member of MlsGroup::members() (every client of a removed identity leaves)")
    rep.clause("C03.4 stored message content derives from MlsGroup::process_message output")
    rep.not_decided = "what ex-members can derive cryptographically, use-after-eviction refusal and past-epoch secret retention inside OpenMLS"
    clause_active_writers(prog, rep)
    clause_eviction(prog, rep)
    clause_wrapper_content(prog, rep)
    clause_content_from_mls(prog, rep)
    clause_remove_all_leaves(prog, rep)
