"""C12 — the 'in particular' clause: snapshot creation, rollback and relay replacement are all-or-nothing (SqlBracket)."""
import re
from ir import last_seg
import analysis as A
import sqlmod

EXEC = ("execute", "execute_batch", "prepare", "prepare_cached", "query_row")


def exec_calls(site):
    """calls in the site's function that receive this SQL text (directly or via a local)"""
    f = site.fn
    locs = set()
    for bb, s in f.stmts():
        for o in s.get("o", []):
            c = o.get("c") if isinstance(o, dict) else None
            if c and c.get("str") == site.text:
                locs |= f.flows_from({s["d"][0]}, through_calls=False)
    if getattr(site, "fmt_dst", None) is not None:
        # text built with format!: the formatted String (and what borrows it) carries it
        locs |= f.flows_from({site.fmt_dst}, through_calls=True, stop_calls=lambda x: x.krate not in ("core", "alloc", "std"))
    out = []
    for c in f.live_calls():
        if c.name not in EXEC:
            continue
        for a in c.args:
            if ("c" in a and a["c"].get("str") == site.text) or ("p" in a and a["p"][0] in locs):
                out.append(c)
                break
    return out


def statement_count(text):
    """number of SQL statements in the text (`;` outside string literals separates them)"""
    t = sqlmod.strip_strings(text)
    return len([x for x in t.split(";") if x.strip()])


def clause_statement_api(prog, rep, sites, ext, label):
    """rusqlite's single-statement entry points (execute / prepare / query_row / ...) refuse SQL holding several statements with
    Error::MultipleStatement *before running anything*; only execute_batch runs them.  A bracket statement handed to the wrong one
    never executes (e.g. `ROLLBACK TO x; RELEASE x` through `execute`: the rollback silently does not happen)."""
    n = 0
    for s in sites:
        if s.fn.path not in ext:
            continue
        k = statement_count(s.stmt.text)
        for c in exec_calls(s):
            n += 1
            ok = k <= 1 or c.name == "execute_batch"
            rep.check(ok, "sql-bracket", "%s/statement-api/%s %s" % (label, s.stmt.kind, (s.stmt.table or s.stmt.text.split(";")[0].strip()[:30])),
                      "%d statement(s) through Connection::%s" % (k, c.name),
                      "`%s` holds %d statements but is run with Connection::%s, which rejects multi-statement SQL (MultipleStatement) without "
                      "executing any of it" % (s.stmt.text[:60], k, c.name), c.loc())
    return n


def bracket(prog, rep, sites, method, label, is_open, is_close, is_abort):
    ext = prog.extent(method)
    ss = [s for s in sites if s.fn.path in ext]
    clause_statement_api(prog, rep, sites, ext, label)
    # a savepoint bracket is tied together by its name: SAVEPOINT x ... RELEASE x / ROLLBACK TO x must all name the same savepoint
    spn = {}
    for s_ in ss:
        txt = sqlmod.strip_strings(s_.stmt.text)
        for part in [x.strip() for x in txt.split(";") if x.strip()]:
            m = re.match(r"^(SAVEPOINT|RELEASE(?:\s+SAVEPOINT)?|ROLLBACK(?:\s+TRANSACTION)?\s+TO(?:\s+SAVEPOINT)?)\s+([A-Za-z_][\w]*)\s*$", part, re.I)
            if m:
                spn.setdefault(m.group(2), set()).add(re.sub(r"\s+", " ", m.group(1).upper()))
    if spn:
        rep.check(len(spn) == 1, "sql-bracket", "%s/savepoint-name" % label,
                  "opening, release and rollback name the same savepoint (%s)" % ", ".join(sorted(spn)),
                  "the statements of the bracket name different savepoints %s: a `ROLLBACK TO` an unknown name fails (\"no such savepoint\") and "
                  "the partial work stays in place" % {k: sorted(v) for k, v in spn.items()}, ss[0].loc())
    opens = [s for s in ss if is_open(s.stmt)]
    closes = [s for s in ss if is_close(s.stmt)]
    aborts = [s for s in ss if is_abort(s.stmt)]
    writes = [s for s in ss if s.stmt.kind in ("INSERT", "UPDATE", "DELETE")]
    # the RAII form of the same bracket: rusqlite's Transaction / Savepoint guard (rolled back when dropped, `commit` consumes it)
    raii_open, raii_close, raii_defused = [], [], []
    for pth in sorted(ext):
        g = prog.fns.get(pth)
        if g is None or g.crate != "mdk_sqlite_storage" or g.is_test_like():
            continue
        for c in g.live_calls():
            dty = g.locals[c.dst[0]] if c.dst else ""
            if c.krate == "rusqlite" and ("rusqlite::Transaction<" in dty or "rusqlite::Savepoint<" in dty
                                                                                 or "transaction::Transaction<" in dty or "transaction::Savepoint<" in dty):
                raii_open.append(c)
            if c.name == "commit" and last_seg(c.self_adt) in ("Transaction", "Savepoint"):
                raii_close.append(c)
            if c.name in ("set_drop_behavior", "forget", "leak") or (c.name == "new" and last_seg(c.self_adt) == "ManuallyDrop"):
                raii_defused.append(c)
    raii = bool(raii_open) and not opens
    rep.floor("sql-bracket", "%s: bracket open statement" % label, len(opens) + len(raii_open), 1)
    rep.floor("sql-bracket", "%s: bracket close statement" % label, len(closes) + len(raii_close), 1)
    rep.floor("sql-bracket", "%s: bracket abort statement" % label, len(aborts) + (1 if raii else 0), 1)
    rep.floor("sql-bracket", "%s: write statements" % label, len(writes), 2)
    if raii:
        if not raii_close:
            return
        F = raii_open[0].fn
        oc = list(raii_open)
        cc = [c for c in raii_close if c.fn is F]
        ac = []
        rep.note("%s: the bracket is a rusqlite %s guard (RAII): rollback happens when the guard is dropped" % (label, "Transaction/Savepoint"))
        rep.check(len(oc) == 1, "sql-bracket", "%s/single-open" % label, "one transaction guard, created once",
                  "expected exactly one transaction guard, found %d" % len(oc), F.loc())
    else:
        if not (opens and closes and aborts):
            return
        F = opens[0].fn
        oc = [c for s in opens for c in exec_calls(s)]
        cc = [c for s in closes for c in exec_calls(s) if s.fn is F]
        ac = [c for s in aborts for c in exec_calls(s) if s.fn is F]
        rep.check(len(opens) == 1 and len(oc) == 1, "sql-bracket", "%s/single-open" % label, "one bracket opening, executed once",
                  "expected exactly one opening statement execution, found %d/%d" % (len(opens), len(oc)), F.loc())
    if not oc:
        return
    # every write is success-dominated by the opening, in every calling context below the method
    scope = set(p for p in ext if p in prog.fns and prog.fns[p].crate == "mdk_sqlite_storage")
    ga = A.GuardAnalysis(prog, is_guard=lambda c: c in oc, is_boundary=lambda f: f.path == method.path or (f.trait_item is not None and not f.is_closure()),
                         scope_paths=scope, mode="success")
    for w in writes:
        wc = exec_calls(w)
        bbs = [c.bb for c in wc] or [w.bb]
        ok = True
        chain = None
        for bb in bbs:
            o, ch = ga.site_ok(w.fn, bb)
            if not o:
                ok, chain = False, ch
        rep.check(ok, "sql-bracket", "%s/write-inside/%s %s" % (label, w.stmt.kind, w.stmt.table),
                  "write is executed only after the bracket was opened successfully",
                  "`%s` can execute outside the %s bracket (auto-commit): a crash between statements leaves a half-applied operation" % (w.stmt.text[:70], label),
                  w.loc(), chain)
    # Ok returns of F after the opening pass the close; Err exits pass the abort (or the close itself failed)
    start = oc[0].t.get("to")
    tests, _ = A.result_tests(F, {oc[0].dst[0]})
    starts = set()
    for wbb, oks in tests.items():
        starts |= oks
    if not starts:
        rep.violation("sql-bracket", "%s/open-checked" % label, "result of the opening statement is not checked", oc[0].loc())
        return
    cb = frozenset(c.bb for c in cc)
    ab = frozenset(c.bb for c in ac)
    esc_ok = any(A.ok_return_reachable(F, s, cb) for s in starts)
    rep.check(bool(cb) and not esc_ok, "sql-bracket", "%s/close-on-ok" % label,
              "every Ok return after the opening passes the closing statement",
              "an Ok return is reachable after the opening without executing the closing statement", F.loc())
    errb = A.err_exit_blocks(F)
    esc_err = False
    for s in starts:
        r = A.reach_without_edges(F, s, set(), cb | ab)
        if r & errb:
            esc_err = True
    if raii:
        rep.check(not raii_defused, "sql-bracket", "%s/abort-on-err" % label,
                  "every exit without commit drops the transaction guard, which rolls back (default drop behaviour, guard never leaked)",
                  "the transaction guard's rollback-on-drop is disabled (%s): an error exit leaves the transaction open / committed"
                  % ", ".join(sorted(set(c.name for c in raii_defused))), F.loc())
    else:
      rep.check(bool(ab) and not esc_err, "sql-bracket", "%s/abort-on-err" % label,
              "every error exit after the opening passes the abort statement",
              "an error exit is reachable after the opening without rolling the bracket back", F.loc())
    # one connection guard for the whole bracket
    locks = [c for p in scope for c in prog.fns[p].live_calls() if c.name == "lock" and last_seg(c.self_adt) == "Mutex"]
    rep.check(len(locks) == 1, "sql-bracket", "%s/one-connection-guard" % label,
              "the whole bracket runs under a single connection-guard acquisition",
              "the bracket spans %d connection-mutex acquisitions" % len(locks), F.loc())


MARKERS = ("save_processed_message", "save_processed_welcome")
WRITE_PREFIXES = ("save_", "replace_", "invalidate_", "mark_", "rollback_", "release_", "create_group_snapshot", "delete_", "prune_")


def _is_storage_write(c):
    return (c.trait or "").startswith("mdk_storage_traits::") and c.name.startswith(WRITE_PREFIXES)


def clause_marker_last(prog, rep):
    """retrying an interrupted call only works if the record the dedup lookup short-circuits on is the *last* thing the call writes: a
    write that follows it is lost when the process dies in between, because the retry finds the record and stops.  Decided for the
    receive path (process_message, process_welcome): after the success edge of a save_processed_* call no further storage write is
    reachable in the same function (through helpers that can still return Ok)."""
    import common as K
    import analysis as A
    core = K.core_scope(prog)
    roots = prog.find(adt="MDK", name="process_message", crate="mdk_core") + prog.find(adt="MDK", name="process_welcome", crate="mdk_core")
    scope = set(p for p in prog.reachable(roots) if p in core)
    direct = lambda c: (c.trait or "").startswith("mdk_storage_traits::") and c.name in MARKERS
    mk = A.ReachCache(prog, direct)
    wr = A.ReachCache(prog, _is_storage_write)

    def writes_then_ok(t, pred):
        """does workspace fn t (or what it calls) make a pred() call after which it can still return Ok?"""
        for q in sorted(prog.extent(t)):
            g = prog.fns.get(q)
            if not g or g.crate != "mdk_core" or g.is_test_like():
                continue
            for x in g.live_calls():
                if pred(x) and "to" in x.t and then_ok(g, x.t["to"]):
                    return True
        return False

    def then_ok(g, start, depth=0):
        """can the function the code at `start` belongs to still end well?  A closure that builds the error of `map_err` / `ok_or_else`
        runs on the failing side only: what counts is whether its host can still return Ok once that adaptor has produced Err; a function
        whose result *is* an error value (`fn reject(..) -> Error`) never ends well"""
        if not g.is_closure():
            if "Error" in (g.ret or "") and not (g.ret or "").startswith(("core::result::Result", "core::option::Option")):
                return False
            return A.ok_return_reachable(g, start, frozenset())
        if not any(g.term(b)["k"] == "return" for b in g.reachable_from(start)):
            return False
        h = prog.fns.get(g.parent) if getattr(g, "parent", None) else None
        if h is None or depth > 3:
            return True
        hosts = [c for c in h.live_calls() if any(q is g for q in A.closure_args(prog, c))]
        if not hosts:
            return True
        for c in hosts:
            if c.name not in ("map_err", "ok_or_else") or "to" not in c.t:
                return True
            # the adaptor's result is Err(..): continue in the host on the failing side of its test
            cut = A.success_edges(h, [c])
            if not cut:
                return True
            if h.is_closure():
                if then_ok(h, c.t["to"], depth + 1):
                    return True
                continue
            r = A.reach_without_edges(h, c.t["to"], cut, A.err_exit_blocks(h))
            if any(h.term(b)["k"] == "return" for b in r):
                return True
        return False

    n = 0
    for p in sorted(scope):
        f = prog.fns[p]
        if f.is_closure():
            continue
        for m in f.live_calls():
            if "to" not in m.t or not mk.call(m):
                continue
            if not direct(m) and not any(writes_then_ok(t, direct) for t in prog.call_targets(m)):
                continue        # a helper that writes the record only on its failure paths (preview: Failed record, then Err)
            n += 1
            starts = set(sx for (w, sx) in A.success_edges(f, [m])) or {m.t["to"]}
            after = set()
            for b in starts:
                after |= f.reachable_from(b)
            later = []
            for c in f.live_calls():
                if c is m or c.bb not in after or not wr.call(c):
                    continue
                if _is_storage_write(c) or any(writes_then_ok(t, _is_storage_write) for t in prog.call_targets(c)):
                    later.append(c)
            def trait_names(x, pred):
                """the storage-trait methods a call stands for (itself, or what the helper it names reaches), so that the key does not
                depend on how the writes are wrapped"""
                if pred(x):
                    return [x.name]
                out = set()
                for t in prog.call_targets(x):
                    for q in prog.extent(t):
                        g = prog.fns.get(q)
                        if g and g.crate == "mdk_core" and not g.is_test_like():
                            out |= set(y.name for y in g.live_calls() if pred(y))
                return sorted(out) or [x.name]
            mname = "+".join(trait_names(m, direct))
            for c in later:
                cname = "+".join(n_ for n_ in trait_names(c, _is_storage_write) if n_ not in MARKERS) or c.name
                rep.violation("marker-last", "%s/%s-after-%s" % (f.label(), cname, mname),
                              "%s writes the processed record (%s) and afterwards still calls %s: if the process dies between the two, the retry "
                              "finds the record, stops, and the later write never happens" % (f.label(), m.name, c.name), c.loc())
            if not later:
                rep.ok("marker-last", "%s/%s" % (f.label(), m.name), "no storage write follows the processed record", m.loc())
    rep.floor("marker-last", "processed-record writes on the receive path", n, 5)


def clause_multi_write_bracketed(prog, rep, sites):
    """every SQLite storage method that issues two or more write statements opens a transaction or savepoint: a sequence of auto-committed
    writes inside one storage operation is what a crash (or a failing second statement) tears apart.  (The three methods named by the
    property are decided statement by statement below; this clause keeps a method added later from escaping them.)"""
    n = 0
    for f in prog.nontest_fns(("mdk_sqlite_storage",)):
        if f.is_closure():
            continue
        ext = set(prog.extent(f))
        ss = [s_ for s_ in sites if s_.fn.path in ext]
        wr = sorted(set((s_.stmt.kind, s_.stmt.table) for s_ in ss if s_.stmt.kind in ("INSERT", "UPDATE", "DELETE")))
        nwr = len([s_ for s_ in ss if s_.stmt.kind in ("INSERT", "UPDATE", "DELETE")])
        if nwr < 2:
            continue
        n += 1
        # the RAII form: any rusqlite call that yields a Transaction / Savepoint guard
        raii = False
        for q in ext:
            g = prog.fns.get(q)
            if not g:
                continue
            for c in g.live_calls():
                dty = str(g.locals[c.dst[0]]) if c.dst and c.dst[0] < len(g.locals) else ""
                if c.krate == "rusqlite" and any(x in dty for x in ("rusqlite::Transaction<", "rusqlite::Savepoint<", "transaction::Transaction<", "transaction::Savepoint<")):
                    raii = True
        br = any(s_.stmt.kind in ("BEGIN", "SAVEPOINT") for s_ in ss) or raii
        rep.check(br, "sql-bracket", "%s/multi-write-bracketed" % f.label(),
                  "the %d write statements of this method run inside a transaction / savepoint" % nwr,
                  "%s issues %d auto-committed write statements (%s) with no transaction or savepoint around them: a crash or a failing later "
                  "statement leaves the earlier ones applied" % (f.label(), nwr, wr[:5]), f.loc())
    rep.floor("sql-bracket", "SQLite methods issuing two or more write statements", n, 3)


def run(ctx, rep):
    prog = ctx.prog()
    sites = sqlmod.collect(prog)
    rep.fns_analysed = len(list(prog.nontest_fns(("mdk_sqlite_storage",))))
    rep.counts["sql_statements"] = len(sites)
    rep.clause("C12.a snapshot creation and restore (SQLite): one BEGIN..COMMIT bracket (or a rusqlite Transaction guard) success-dominating every write, COMMIT on every Ok return, ROLLBACK on every error exit, one connection guard")
    rep.clause("C12.c receive path: the processed record a retry short-circuits on is the last storage write of the call (marker-last)")
    rep.clause("C12.b replace_group_relays: DELETE and INSERTs inside SAVEPOINT..RELEASE with ROLLBACK TO on the error side")
    rep.not_decided = ("recoverability after process death at statement k of process_message / create_group / merge_pending_commit / "
                       "accept_welcome (these API calls are sequences of auto-committed statements — visible in the code, but what state "
                       "OpenMLS can still load after each prefix is a runtime question no sound static argument here can bound)")
    clause_marker_last(prog, rep)
    clause_multi_write_bracketed(prog, rep, sites)
    # "rollback is all-or-nothing" at the level of the API call: what belongs to a rollback (invalidation, retry marking) is written only
    # once the restore has succeeded (shared with C07)
    rep.clause("C12.d the bookkeeping of a rollback (invalidation, retry marking) is success-dominated by the restore")
    import os
    import sys
    sys.path.insert(0, os.path.dirname(os.path.abspath(__file__)))
    import c07
    c07.clause_only_after_rollback(prog, rep, "sql-bracket")
    ms = {
        "create_group_snapshot": prog.find(adt="MdkSqliteStorage", name="create_group_snapshot", trait="MdkStorageProvider"),
        "rollback_group_to_snapshot": prog.find(adt="MdkSqliteStorage", name="rollback_group_to_snapshot", trait="MdkStorageProvider"),
        "replace_group_relays": prog.find(adt="MdkSqliteStorage", name="replace_group_relays", trait="GroupStorage"),
    }
    for n, fs in ms.items():
        rep.floor("anchors", "MdkSqliteStorage::%s" % n, len(fs), 1)
    txn_open = lambda st: st.kind == "BEGIN"
    txn_close = lambda st: st.kind == "COMMIT"
    txn_abort = lambda st: st.kind == "ROLLBACK" and "SAVEPOINT" not in st.text.upper()
    for n in ("create_group_snapshot", "rollback_group_to_snapshot"):
        if ms[n]:
            bracket(prog, rep, sites, ms[n][0], n, txn_open, txn_close, txn_abort)
    if ms["replace_group_relays"]:
        # the existence check before the bracket takes its own guard; only the closure passed to with_connection is the bracket
        bracket(prog, rep, sites, ms["replace_group_relays"][0], "replace_group_relays",
                lambda st: st.kind == "SAVEPOINT", lambda st: st.kind == "RELEASE",
                lambda st: st.kind == "ROLLBACK" and "SAVEPOINT" in st.text.upper())
    # BEGIN IMMEDIATE vs DEFERRED is not a verdict: a deferred transaction is still all-or-nothing (a failed lock upgrade is an
    # error exit, which rolls back); recorded as context only
    for s_ in sites:
        if s_.stmt.kind == "BEGIN":
            rep.note("context: %s opens its transaction with `%s`" % (last_seg(s_.fn.root), s_.stmt.text.strip()[:40]))
    # context (not a verdict): API calls are not wrapped in a transaction
    rep.note("context: mdk-core API calls (process_message, create_group, ...) issue auto-committed statements; no storage-level "
             "transaction spans them (not claimed, see Not decided)")
