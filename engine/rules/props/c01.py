"""C01 — members converge on the MIP-03 winner.  Structural clauses only (see DESIGN §4 C01)."""
import itertools
from ir import last_seg
import analysis as A
import common as K
import dtable

MERGES = ("merge_staged_commit", "merge_pending_commit")
# exception table: entry label -> reason
SNAPSHOT_EXEMPT = {
    "MDK::create_group": "the creator is the only member at that point; the initial commit is never published as a "
                         "competing kind-445 event, so no rival commit for that epoch can exist",
}


def clause_snapshot_before_merge(prog, rep):
    scope = K.core_scope(prog)
    # a guard call must *guarantee* a successful storage snapshot before it returns Ok (not merely reach one)
    snap = A.Guarantee(prog, lambda c: K.is_storage_trait_call(c, "create_group_snapshot"))
    ga = A.GuardAnalysis(prog, is_guard=lambda c: snap.call(c) and not K.is_mls_call(c, *MERGES),
                         is_boundary=K.api_boundary, scope_paths=scope, mode="success")
    sinks = A.sink_sites(prog, lambda c: K.is_mls_call(c, *MERGES), scope)
    rep.floor("snapshot-before-merge", "MlsGroup merge call sites", len(sinks), 2)
    nguards = len(prog.all_calls(lambda c: K.is_storage_trait_call(c, "create_group_snapshot"), crates=("mdk_core",)))
    rep.floor("snapshot-before-merge", "create_group_snapshot call sites in mdk-core", nguards, 1)
    for c in sinks:
        ok, chain = ga.site_ok(c.fn, c.bb)
        entry = K.entry_label(chain, c.fn.label()) if not ok else c.fn.label()
        inst = "%s/MlsGroup::%s" % (entry, c.name)
        if not ok and entry in SNAPSHOT_EXEMPT:
            rep.ok("snapshot-before-merge", inst, "exempt: " + SNAPSHOT_EXEMPT[entry], c.loc())
            continue
        rep.check(ok, "snapshot-before-merge", inst,
                  "a checked snapshot creation success-dominates this merge in every calling context",
                  "epoch advanced without a restore point: no checked call reaching create_group_snapshot success-dominates "
                  "MlsGroup::%s when entered through %s, so a later MIP-03-better competitor can never be adopted" % (c.name, entry),
                  c.loc(), chain)


def clause_comparator(prog, rep):
    fs = prog.find(adt="EpochSnapshotManager", name="is_better_candidate")
    rep.floor("mip03-decision-table", "EpochSnapshotManager::is_better_candidate", len(fs), 1)
    if not fs:
        return
    f = fs[0]
    # parameters: (&self, storage, group_id, candidate_epoch, candidate_ts, candidate_id) -> by debug names
    names = {}
    for name, pl in f.debug:
        if len(pl) == 1 and pl[0] <= f.nargs:
            names[pl[0]] = name
    env0 = {}
    for l in range(1, f.nargs + 1):
        env0[l] = ("param", names.get(l, "arg%d" % l), l)
    ts_params = [l for l in range(1, f.nargs + 1) if f.locals[l] == "u64"]
    id_params = [l for l in range(1, f.nargs + 1) if "EventId" in f.locals[l]]
    # candidate ts = last u64 param; candidate id = the EventId param (types pin them down: epoch, ts are u64 in order)
    if len(ts_params) < 2 or len(id_params) != 1:
        rep.violation("mip03-decision-table", "EpochSnapshotManager::is_better_candidate",
                      "signature no longer (epoch: u64, ts: u64, id: &EventId); cannot build the decision table", f.loc())
        return
    cand_ts, cand_id = ts_params[-1], id_params[0]

    def classify(v):
        # strip transparent wrappers
        while v[0] == "proj" and not v[2].startswith("."):
            v = v[1]
        if v[0] == "param":
            if v[2] == cand_ts:
                return "cand_ts"
            if v[2] == cand_id:
                return "cand_id"
            return None
        if v[0] == "proj":
            if v[2] == ".applied_commit_ts":
                return "inc_ts"
            if v[2] == ".applied_commit_id":
                return "inc_id"
        return None

    table = {}
    undec = None
    for ts_rel, id_rel in itertools.product((-1, 0, 1), repeat=2):
        def relation(a, b, ts_rel=ts_rel, id_rel=id_rel):
            pair = (a, b)
            if pair == ("cand_ts", "inc_ts"):
                return ts_rel
            if pair == ("inc_ts", "cand_ts"):
                return -ts_rel
            if pair == ("cand_id", "inc_id"):
                return id_rel
            if pair == ("inc_id", "cand_id"):
                return -id_rel
            if a == "inc_ts" and b == "#0":
                return 1     # live (non-hydrated) snapshot: timestamp known, non-zero; the 0 placeholder is C11's clause
            if a == "#0" and b == "inc_ts":
                return -1
            return None

        def opaque_switch(bb, v, t):
            # lookups (group queue present, snapshot for the epoch present): follow the "found" side
            if v[0] == "discr":
                for val, tb in t["targets"]:
                    if val == 1:
                        return tb
                # switch written as [0 -> none] otherwise -> some
                return t["otherwise"]
            return None
        def hook(cal, args):
            # the lookups written as combinators (`.get(id).and_then(|q| q.iter().find(..)).is_some_and(|s| ..)`): the "found" side, as
            # for the switches above
            nm = cal.get("name")
            if nm in ("is_some_and", "and_then", "map", "map_or", "is_none_or") and last_seg(cal.get("self_adt")) == "Option" and args and args[-1][0] == "closure":
                a0 = args[0]
                if a0[0] == "variant" and a0[1] == "Option":
                    if a0[2] == "None":
                        return None
                    payload = a0[3][0]
                else:
                    payload = ("proj", a0, "Some")
                r = ev._call_closure(args[-1], [payload])
                if nm == "map":
                    return ("variant", "Option", "Some", (r,)) if r is not None else None
                return r
            return None
        ev = dtable.Evaluator(f, classify, relation, opaque_switch, call_hook=hook, prog=prog,
                              inline=lambda t, *a: t.crate == "mdk_core" and not t.is_test_like() and t.file == f.file and not t.is_closure()
                              and (t.ret == "bool" or "Ordering" in (t.ret or "")))     # comparison helpers of the same module
        try:
            res = ev.run(dict(env0))
        except dtable.Undecided as e:
            undec = str(e)
            break
        if not res or res[0] != "int":
            undec = "non-constant result %r" % (res,)
            break
        table[(ts_rel, id_rel)] = bool(res[1])
    if undec is not None:
        rep.violation("mip03-decision-table", "EpochSnapshotManager::is_better_candidate",
                      "comparator is no longer a pure comparison of (timestamp, event id) that the decision-table evaluator can "
                      "enumerate: %s" % undec, f.loc())
        return
    sym = {-1: "<", 0: "=", 1: ">"}
    for (ts_rel, id_rel), got in sorted(table.items()):
        want = ts_rel < 0 or (ts_rel == 0 and id_rel < 0)
        inst = "is_better_candidate/ts%sid%s" % (sym[ts_rel], sym[id_rel])
        rep.check(got == want, "mip03-decision-table", inst,
                  "candidate ts %s incumbent, id %s incumbent -> better=%s (MIP-03: earliest timestamp, then smallest id)" % (sym[ts_rel], sym[id_rel], got),
                  "candidate ts %s incumbent, id %s incumbent -> better=%s but MIP-03 says %s" % (sym[ts_rel], sym[id_rel], got, want),
                  f.loc())
    rep.extra["mip03_decision_table"] = {"ts%s,id%s" % (sym[a], sym[b]): v for (a, b), v in sorted(table.items())}


FOLLOW_MUST = ["invalidate_messages_after_epoch", "invalidate_processed_messages_after_epoch", "find_failed_messages_for_retry"]
FOLLOW_EXISTS = ["mark_processed_message_retryable"]


def clause_rollback_arm(prog, rep):
    scope = K.core_scope(prog)
    sites = [c for c in A.sink_sites(prog, lambda c: c.name == "rollback_to_epoch" and last_seg(c.self_adt) == "EpochSnapshotManager", scope)]
    rep.floor("rollback-arm", "EpochSnapshotManager::rollback_to_epoch call sites", len(sites), 1)
    for c in sites:
        f = c.fn
        entry = f.label()
        # (a) rollback is gated by the comparator saying "better"
        cmp_calls = [x for x in f.live_calls() if x.name == "is_better_candidate" and last_seg(x.self_adt) == "EpochSnapshotManager"]
        gated = False
        for x in cmp_calls:
            if not x.dst:
                continue
            fl = f.flows_from({x.dst[0]}, through_calls=False)
            for w in range(f.nblocks()):
                t = f.term(w)
                if t["k"] == "switch" and A._opl(t["discr"]) in fl:
                    tg = dict((v, b) for v, b in t["targets"])
                    false_side = tg.get(0)
                    true_side = t["otherwise"] if 0 in tg else None
                    if false_side is not None and true_side is not None and c.bb in f.reachable_from(true_side) \
                            and c.bb not in A.reach_without_edges(f, 0, {(w, true_side)}):
                        gated = True
        rep.check(gated, "rollback-arm", "%s/gated-by-comparator" % entry,
                  "rollback_to_epoch is reachable only on the true side of is_better_candidate",
                  "rollback_to_epoch is reachable without is_better_candidate having answered true", c.loc())
        # (a2) the comparator is consulted before the WrongEpoch arm can return at all (own-commit shortcuts must not pre-empt it)
        for w, arm in A.variant_arms(prog, f, "Error", "ProcessMessageWrongEpoch"):
            cb = frozenset(x.bb for x in cmp_calls)
            r = A.reach_without_edges(f, arm, set(), cb)
            early = any(f.term(b)["k"] == "return" for b in r)
            rep.check(bool(cb) and not early, "rollback-arm", "%s/comparator-first" % entry,
                      "every path through the WrongEpoch arm consults is_better_candidate before returning",
                      "the WrongEpoch arm can return without consulting is_better_candidate: a member whose own (or already applied) commit "
                      "is recorded answers early and never adopts / re-applies the MIP-03 winner", c.loc())
        # (b) same epoch value drives comparator, rollback and invalidation
        def epoch_src(call, idx_from_end):
            a = call.args[idx_from_end]
            if "p" not in a:
                return set()
            return set(x for x in A.copy_sources(f, a["p"][0]) if isinstance(x, tuple))
        roll_src = set(x for x in A.copy_sources(f, c.args[-1]["p"][0]) if isinstance(x, tuple)) if "p" in c.args[-1] else set()
        variant_payload = set(x for x in roll_src if any(isinstance(e, str) and e.startswith("as ") for e in x))
        rep.check(bool(variant_payload), "rollback-arm", "%s/target-epoch-from-error" % entry,
                  "rollback target is a pure copy of the epoch carried by the error variant %s" % sorted(variant_payload),
                  "rollback target epoch is not a pure copy of the message epoch carried by the WrongEpoch error", c.loc())
        # success region of the rollback call
        tests, _ = A.result_tests(f, {c.dst[0]})
        succ_starts = set()
        for w, oks in tests.items():
            succ_starts |= oks
        if not succ_starts:
            rep.violation("rollback-arm", "%s/result-checked" % entry, "result of rollback_to_epoch is not inspected", c.loc())
            continue
        region = set()
        for s in succ_starts:
            region |= f.reachable_from(s)
        reg_calls = [x for x in f.live_calls() if x.bb in region]
        # must-pass calls: every path from the success edge to a return passes them
        for name in FOLLOW_MUST + ["process_message"]:
            # the call itself, or an mdk-core helper every Ok path of which makes it (bookkeeping moved into `finish_rollback(..)`)
            mp = A.MustPass(prog, lambda y, name=name: K.is_storage_trait_call(y, name))
            blocks = frozenset(x.bb for x in reg_calls if
                               (x.name == name and (K.is_storage_trait_call(x, name) or (name == "process_message" and last_seg(x.self_adt) == "MDK")))
                               or (name != "process_message" and any(t.crate == "mdk_core" and not t.is_test_like() and mp.fn(t) for t in prog.call_targets(x))))
            esc = False
            for s in succ_starts:
                r = A.reach_without_edges(f, s, set(), blocks) if s not in blocks else set()
                if any(f.term(b)["k"] == "return" for b in r):
                    esc = True
            rep.check(bool(blocks) and not esc, "rollback-arm", "%s/after-rollback/%s" % (entry, name),
                      "every path from a successful rollback to a return passes %s" % name,
                      "after a successful rollback a return is reachable without %s" % name, c.loc())
            # epoch argument of invalidation = rollback target
            if name.startswith("invalidate") and blocks:
                for x in reg_calls:
                    if x.name == name and K.is_storage_trait_call(x, name):
                        src = set(y for y in A.copy_sources(f, x.args[-1]["p"][0]) if isinstance(y, tuple)) if "p" in x.args[-1] else set()
                        rep.check(bool(src & variant_payload), "rollback-arm", "%s/after-rollback/%s/epoch-arg" % (entry, name),
                                  "invalidation threshold is the rollback target epoch",
                                  "invalidation threshold is not the rollback target epoch", x.loc())
                    elif x.bb in blocks:
                        # made inside a helper: the helper's threshold is one of its parameters, and the caller passes the target epoch there
                        for t in prog.call_targets(x):
                            if t.crate != "mdk_core" or t.is_test_like():
                                continue
                            for y in t.live_calls():
                                if not K.is_storage_trait_call(y, name) or "p" not in y.args[-1]:
                                    continue
                                ps = [l for l in A.copy_sources(t, y.args[-1]["p"][0]) if isinstance(l, int) and 1 <= l <= t.nargs]
                                ok_arg = False
                                for l in ps:
                                    if l - 1 < len(x.args) and "p" in x.args[l - 1]:
                                        src = set(z for z in A.copy_sources(f, x.args[l - 1]["p"][0]) if isinstance(z, tuple))
                                        ok_arg = ok_arg or bool(src & variant_payload)
                                rep.check(ok_arg, "rollback-arm", "%s/after-rollback/%s/epoch-arg" % (entry, name),
                                          "invalidation threshold (through %s) is the rollback target epoch" % t.name,
                                          "invalidation threshold is not the rollback target epoch", y.loc())
        for name in FOLLOW_EXISTS:
            xs = [x for x in reg_calls if K.is_storage_trait_call(x, name)]
            ok = False
            ff = [x for x in reg_calls if K.is_storage_trait_call(x, "find_failed_messages_for_retry")]
            for x in xs:
                if ff and "p" in x.args[-1]:
                    dep, _, _ = f.depends_on(x.args[-1]["p"][0])
                    if any(y.dst and y.dst[0] in dep for y in ff):
                        ok = True
            # ... or both inside one helper called on the success side
            for x in reg_calls:
                for t in prog.call_targets(x):
                    if t.crate != "mdk_core" or t.is_test_like():
                        continue
                    hx = [y for y in t.live_calls() if K.is_storage_trait_call(y, name)]
                    hf = [y for y in t.live_calls() if K.is_storage_trait_call(y, "find_failed_messages_for_retry")]
                    for y in hx:
                        if hf and "p" in y.args[-1]:
                            dep, _, _ = t.depends_on(y.args[-1]["p"][0])
                            if any(z.dst and z.dst[0] in dep for z in hf):
                                ok = True
            # ... or applied by a closure over the returned ids (`ids.iter().filter(|id| storage.mark_..(id).is_err()).for_each(warn)`)
            for x in reg_calls:
                if not x.args or "p" not in x.args[0] or not ff:
                    continue
                bodies = [q for g in A.closure_args(prog, x) for q in prog.family(g)]
                if any(K.is_storage_trait_call(y, name) for q in bodies for y in q.live_calls()):
                    dep, _, _ = f.depends_on(x.args[0]["p"][0])
                    if any(y.dst and y.dst[0] in dep for y in ff):
                        ok = True
            rep.check(ok, "rollback-arm", "%s/after-rollback/%s" % (entry, name),
                      "records returned by find_failed_messages_for_retry are marked retryable",
                      "records needing a re-fetch are not marked retryable after rollback", c.loc())
        cbs = [x for x in reg_calls if x.name == "on_rollback" and last_seg(x.trait) == "MdkCallback"]
        rep.check(bool(cbs), "rollback-arm", "%s/after-rollback/on_rollback" % entry,
                  "application is notified (MdkCallback::on_rollback) on the rollback path",
                  "no MdkCallback::on_rollback notification on the rollback path", c.loc())


def clause_snapshot_args(prog, rep):
    """C01.5: the incumbent recorded with a snapshot is the commit being applied: (epoch before merge, wrapper id, wrapper created_at)"""
    core = K.core_scope(prog)
    sites = [c for c in A.sink_sites(prog, lambda c: c.name == "create_snapshot" and last_seg(c.self_adt) == "EpochSnapshotManager", core)]
    rep.floor("snapshot-records-incumbent", "EpochSnapshotManager::create_snapshot call sites", len(sites), 2)
    for c in sites:
        f = c.fn
        ents = sorted(set(e.label() for e in prog.nontest_fns(("mdk_core",)) if K.api_boundary(e) and last_seg(e.self_adt) == "MDK" and f.path in prog.reachable([e])))
        inst = "%s/%s" % ("+".join(ents), "staged" if any(K.is_mls_call(x, "merge_staged_commit") for x in f.live_calls()) else "pending")
        # signature: (&self, storage, group_id, current_epoch, commit_id, commit_ts)
        if len(c.args) < 6:
            rep.violation("snapshot-records-incumbent", inst, "create_snapshot signature changed", c.loc())
            continue
        ep, cid, cts = c.args[3], c.args[4], c.args[5]
        og_e = A.origins(prog, f, ep["p"][0], scope=None, max_frames=0) if "p" in ep else None
        og_i = A.origins(prog, f, cid["p"][0], scope=None, max_frames=0) if "p" in cid else None
        og_t = A.origins(prog, f, cts["p"][0], scope=None, max_frames=0) if "p" in cts else None
        fl_i = set(e[1:] for e in cid.get("p", [])[1:] if isinstance(e, str) and e.startswith(".")) | (og_i.fields if og_i else set())
        ok_e = bool(og_e) and og_e.has_call(lambda x: x.name == "epoch" and last_seg(x.self_adt) == "MlsGroup")
        ok_i = "id" in fl_i and bool(og_i) and not og_i.has_call(lambda x: x.name in ("now", "generate", "all_zeros"))
        ok_t = bool(og_t) and "created_at" in og_t.fields and not og_t.has_call(lambda x: x.name == "now")
        rep.check(ok_e, "snapshot-records-incumbent", inst + "/epoch", "snapshot epoch = MlsGroup::epoch() before the merge",
                  "the snapshot is filed under something other than the group's epoch before the merge", c.loc())
        rep.check(ok_i, "snapshot-records-incumbent", inst + "/commit-id", "incumbent id = the wrapper event's id",
                  "the incumbent commit id recorded with the snapshot is not the wrapper event's id", c.loc())
        rep.check(ok_t, "snapshot-records-incumbent", inst + "/commit-ts", "incumbent timestamp = the wrapper event's created_at",
                  "the incumbent timestamp recorded with the snapshot is not the wrapper event's created_at (e.g. the local clock): the MIP-03 "
                  "comparison against late competitors is then made with the wrong incumbent", c.loc())


def clause_hydrated_incumbent(prog, rep):
    """the incumbent timestamp of a re-hydrated snapshot may be unknown (placeholder, C11's finding) or parsed from the persisted
    name, but never some other clock (e.g. the snapshot row's creation time): the comparison would be made against a wrong incumbent"""
    n = 0
    for f in prog.nontest_fns(("mdk_core",)):
        root = prog.fns.get(f.root, f)
        if last_seg(root.self_adt) != "EpochSnapshotManager":
            continue
        if any(K.is_storage_trait_call(c, "create_group_snapshot") for c in f.live_calls()):
            continue
        for bb, s in f.aggregates("EpochSnapshot"):
            if not s.get("fields"):
                continue
            n += 1
            o = A.agg_field_operand(s, "applied_commit_ts")
            if o is None:
                continue
            ok = True
            names = []
            if "p" in o:
                pr = A.producers(prog, f, o["p"][0], scope=K.core_scope(prog))
                names = sorted(set(x.name for x in pr["calls"]))
                ok = all(x.name in ("parse", "from_str", "from_str_radix") for x in pr["calls"])
            rep.check(ok, "snapshot-records-incumbent", "hydrated/commit-ts",
                      "a re-hydrated snapshot's incumbent timestamp is a placeholder or parsed from the persisted name",
                      "a re-hydrated snapshot's incumbent timestamp is produced by %s (e.g. the snapshot row's creation time), not the applied "
                      "commit's own timestamp: after a restart an already applied commit compares as better than itself" % names,
                      "%s:%s" % (f.file, s.get("line")))
    rep.floor("snapshot-records-incumbent", "EpochSnapshot reconstruction sites", n, 1)


def clause_wrong_epoch_source(prog, rep, rule="rollback-arm"):
    """the race-resolution arm is entered with Error::ProcessMessageWrongEpoch; that error stands for exactly OpenMLS'
    ValidationError::WrongEpoch (a handshake message of another epoch).  Any other rejection filed under it — a replayed application
    message that cannot be decrypted again, a bad signature ... — would be weighed as a competing commit and could roll the group back."""
    n = 0
    for f in prog.nontest_fns(("mdk_core",)):
        for bb, s in f.aggregates("Error", "ProcessMessageWrongEpoch"):
            if f.name == "sanitize_error_reason":
                continue
            n += 1
            ok = A.arm_only(prog, f, bb, "ValidationError", {"WrongEpoch"})
            rep.check(ok, rule, "%s/wrong-epoch-source" % prog.fns.get(f.root, f).label(),
                      "Error::ProcessMessageWrongEpoch is raised only on the ValidationError::WrongEpoch arm",
                      "Error::ProcessMessageWrongEpoch is also raised for other OpenMLS rejections (not only ValidationError::WrongEpoch): such an event "
                      "is then treated as a competing commit of an earlier epoch and can trigger a rollback", "%s:%s" % (f.file, s.get("line")))
    rep.floor(rule, "constructions of Error::ProcessMessageWrongEpoch", n, 1)


def clause_future_epoch(prog, rep):
    """C01.4: a WrongEpoch commit from a *future* epoch must not be filed as terminally Failed."""
    scope = K.core_scope(prog)
    hits = 0
    for p in sorted(scope):
        f = prog.fns[p]
        arms = A.variant_arms(prog, f, "Error", "ProcessMessageWrongEpoch")
        if not arms:
            continue
        # only the handler (the arm region contains the rollback machinery or a failure write)
        for w, arm in arms:
            region = f.reachable_from(arm)
            fails = [c for c in f.live_calls() if c.bb in region and c.fn is f and
                     any(A.ReachCache(prog, lambda x: K.is_storage_trait_call(x, "save_processed_message")).fn(t.path) for t in prog.call_targets(c))
                     and not any(t.name == "process_message" for t in prog.call_targets(c))]
            if not fails:
                continue
            hits += 1
            # payload locals of the variant
            payload = set()
            for bb, s in f.stmts():
                for o in s.get("o", []):
                    pl = o.get("p")
                    if pl and any(e == "as ProcessMessageWrongEpoch" for e in pl[1:]):
                        payload.add(s["d"][0])
            payload = f.flows_from(payload, through_calls=False)
            cmp_calls = set(c.dst[0] for c in f.live_calls() if c.name == "is_better_candidate" and c.dst)
            for c in fails:
                cds = [x for x in A.control_dependent_switches(f, c.bb, within=region)]
                dep_ok = False
                for x in cds:
                    l = A._opl(f.term(x)["discr"])
                    # dependence through pure comparisons only (not through rollback/lookup calls)
                    dep, calls, _ = f.depends_on(l, call_filter=lambda x: x.name in ("lt", "gt", "le", "ge", "eq", "ne", "cmp", "partial_cmp", "clone", "deref"))
                    if dep & payload and not (dep & cmp_calls):
                        dep_ok = True
                rep.check(dep_ok, "future-epoch-not-terminal", "MDK::process_message/Error::ProcessMessageWrongEpoch-arm",
                          "the terminal failure on the WrongEpoch arm is control-dependent on the message's epoch",
                          "a commit (or message) that is merely ahead of the receiver's epoch takes the same WrongEpoch path as a "
                          "stale one and is filed as Failed; Failed is absorbing in the dedup step, so re-offering it after the "
                          "predecessor was applied changes nothing (no branch on the message epoch guards the failure write)",
                          c.loc())
    rep.floor("future-epoch-not-terminal", "WrongEpoch handler arms with a failure write", hits, 1)


def run(ctx, rep):
    prog = ctx.prog()
    rep.fns_analysed = len(K.core_scope(prog))
    rep.clause("C01.1 a checked storage snapshot success-dominates every MlsGroup merge (interprocedural, per calling context)")
    rep.clause("C01.2 MIP-03 decision table of is_better_candidate over the 3x3 orderings of (timestamp, event id)")
    rep.clause("C01.3 rollback arm: gated by comparator, target epoch = message epoch, followed on every path by invalidation, retry marking, notification and re-processing")
    rep.clause("C01.5 the snapshot records the commit being applied as incumbent: epoch before merge, wrapper id, wrapper created_at")
    rep.clause("C01.4 terminal failure on the WrongEpoch arm must depend on the message epoch (commits ahead of their predecessor)")
    rep.clause("C01.3b a rollback is decided only for an authenticated, authorised competing commit (known finding F16: it is decided on the wrapper's timestamp / id alone)")
    rep.not_decided = "convergence of real delivery schedules, MLS-state equality across members, fork-depth behaviour, OpenMLS internals"
    clause_snapshot_before_merge(prog, rep)
    clause_comparator(prog, rep)
    clause_rollback_arm(prog, rep)
    clause_wrong_epoch_source(prog, rep)
    import os, sys
    sys.path.insert(0, os.path.dirname(os.path.abspath(__file__)))
    import c05
    c05.clause_rollback_authenticated(prog, rep, "rollback-arm")
    clause_snapshot_args(prog, rep)
    clause_hydrated_incumbent(prog, rep)
    clause_future_epoch(prog, rep)
    # whichever way a member applies its own commit, the record it ends with is the one the metadata sync wrote: a record loaded before
    # the merge and saved after the sync puts the committer's stored epoch / group data back behind everybody else's (shared with C08)
    rep.clause("C01.6 a group record saved after the metadata sync was re-read after it (the committer's stored state is the synced one on every apply route)")
    import c08
    c08.clause_no_stale_overwrite(prog, rep, c08.sync_fns(prog))
    # the incumbent a late commit is compared with is the entry is_better_candidate finds first: a placeholder queued ahead of the real
    # entry (hydration run after the method's own write) answers "not better" for good (shared with C11)
    rep.clause("C01.7 manager methods hydrate before they write (no placeholder entry ahead of the real incumbent)")
    import c11
    c11.clause_hydrate_first(prog, rep)
    # a fork is resolved by processing the better commit for the fork epoch, whose wrapper is encrypted with a *past* epoch's exporter
    # secret: the outer-layer look-back has to reach as far back as the configured window (shared with C02)
    rep.clause("C01.8 the outer-layer look-back window covers exactly the configured number of past epochs (a fork as deep as the window is still resolvable)")
    import c02
    _roots, _scope = c02.recv_scope(prog)
    c02.clause_lookback(prog, rep, _scope)
