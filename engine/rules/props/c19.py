"""C19 — storage backends are safe to share between threads: lock-nesting / critical-section rules over guard live ranges
in MIR, plus Send+Sync witnesses."""
from ir import last_seg
import analysis as A
import witness

STORAGE = ("mdk_memory_storage", "mdk_sqlite_storage")
ACQ = ("read", "write", "lock", "upgradable_read")
# trait methods allowed to use more than one critical section: (backend adt, method) -> reason
MULTI_SECTION_OK = {
    ("MdkMemoryStorage", "create_group_snapshot"): "reads the live state under inner.read(), then stores the copy under group_snapshots.write(); the copy is "
                                                     "consistent (single read guard) and the snapshot map is keyed by (group, name)",
    ("MdkMemoryStorage", "rollback_group_to_snapshot"): "removes the snapshot from group_snapshots, then restores under one inner.write(); the removed snapshot is owned",
    ("MdkMemoryStorage", "save_message"): "existence check of the group (read) then insert (write): groups are only removed by a rollback of a group created after the "
                                          "snapshot, and a message for a vanished group is unreachable through the group-keyed API (benign check-then-act, F15)",
    ("MdkSqliteStorage", "*"): "SQLite methods that first verify the group exists (find_group_by_mls_group_id, read-only) and then act in a second acquisition of "
                               "the connection mutex; the second statement is guarded by the FOREIGN KEY on groups(mls_group_id) or is read-only. Only that "
                               "existence pre-check is exempt: any other split is reported",
}


def is_acq(c):
    return c.name in ACQ and last_seg(c.self_adt) in ("RwLock", "Mutex")


def guard_local(f, c):
    """the local that holds the guard: the call's destination, or the result of unwrapping a LockResult"""
    if not c.dst:
        return None
    g = c.dst[0]
    if "Guard" in f.locals[g] and "Result" not in f.locals[g]:
        return g
    for x in f.live_calls():
        if x.name in ("unwrap", "expect", "branch", "map_err", "unwrap_or_else") and x.args and "p" in x.args[0] and x.args[0]["p"][0] == g and x.dst:
            if "Guard" in f.locals[x.dst[0]]:
                if "Result" in f.locals[x.dst[0]] or "ControlFlow" in f.locals[x.dst[0]]:
                    r = guard_local(f, x)
                    if r is not None:
                        return r
                else:
                    return x.dst[0]
    # `?` payload: a use of (cf as Continue).0
    fl = f.flows_from({g}, through_calls=True, stop_calls=lambda x: x.krate not in ("core", "std", "alloc"))
    for l in sorted(fl):
        if "Guard" in f.locals[l] and "Result" not in f.locals[l] and "ControlFlow" not in f.locals[l] and not f.locals[l].startswith("&"):
            return l
    return g


def live_region(f, c):
    g = guard_local(f, c)
    start = c.t.get("to")
    if start is None:
        return set(), g
    drops = set(bb for bb in range(f.nblocks()) if f.term(bb)["k"] == "drop" and f.term(bb)["place"] == [g] and not f.is_cleanup(bb))
    # the guard moved by value into a call (mem::drop(guard), or handed to a consumer) ends its live range here
    # (MIR moves the guard into a temporary first: `_t = move guard; drop(move _t)`)
    moved = {g}
    for bb, s_ in f.stmts():
        if s_.get("k") == "use" and len(s_["d"]) == 1 and s_["o"] and s_["o"][0].get("p") == [g] and s_["o"][0].get("m") and f.locals[s_["d"][0]] == f.locals[g]:
            moved.add(s_["d"][0])
    for x in f.live_calls():
        if any("p" in a and len(a["p"]) == 1 and a["p"][0] in moved and a.get("m") for a in x.args) and x is not c:
            if "to" in x.t:
                drops.add(x.t["to"])
    drops = frozenset(drops)
    region = A.reach_without_edges(f, start, set(), drops)
    return region, g


class Acquires:
    def __init__(self, prog):
        self.prog = prog
        self.rc = A.ReachCache(prog, is_acq)

    def fn(self, path):
        return self.rc.fn(path)

    def call(self, c):
        if is_acq(c):
            return True
        if any(self.rc.fn(t.path) for t in self.prog.call_targets(c)):
            return True
        # closures / fn items handed to the callee may be invoked by it
        f = c.fn
        for a in c.args:
            if "p" in a:
                for bb, kind, x in f.defs().get(a["p"][0], []):
                    if kind == "stmt" and x.get("k") == "closure" and x["closure"] in self.prog.fns and self.rc.fn(x["closure"]):
                        return True
            elif "c" in a and a["c"].get("fn") in self.prog.fns and self.rc.fn(a["c"]["fn"]):
                return True
        return False


def clause_no_nesting(prog, rep, crates=STORAGE, rule="no-nested-locks"):
    acq = Acquires(prog)
    n = 0
    hits = []
    # functions that invoke a caller-supplied callback while holding a guard
    cb_under_lock = set()
    for f in prog.nontest_fns(crates + ("mdk_verif_witness",)):
        for c in f.live_calls():
            if not is_acq(c):
                continue
            region, g = live_region(f, c)
            for x in f.live_calls():
                if x.bb in region and x.name in ("call_once", "call_mut", "call") and last_seg(x.trait) in ("FnOnce", "FnMut", "Fn") and not x.callee.get("resolved"):
                    cb_under_lock.add(f.path)
    for f in prog.nontest_fns(crates + ("mdk_verif_witness",)):
        for c in f.live_calls():
            if not is_acq(c):
                continue
            n += 1
            region, g = live_region(f, c)
            for x in f.live_calls():
                if x is c or x.bb not in region:
                    continue
                if x.name in ("unwrap", "expect", "deref", "deref_mut", "branch", "drop"):
                    continue
                if acq.call(x):
                    hits.append((f, c, x))
        # closures handed to a function that calls its callback under a lock
        for x in f.live_calls():
            ts = prog.call_targets(x)
            if any(t.path in cb_under_lock for t in ts):
                for a in x.args:
                    if "p" in a:
                        for bb, kind, d in f.defs().get(a["p"][0], []):
                            if kind == "stmt" and d.get("k") == "closure" and d["closure"] in prog.fns and acq.fn(d["closure"]):
                                hits.append((f, x, x))
    control = False
    for f, c, x in hits:
        root = prog.fns.get(f.root, f)
        if f.crate == "mdk_verif_witness":
            control = True
            continue
        rep.violation(rule, "%s/%s-inside-%s" % (root.label(), x.name, c.name),
                      "a lock is acquired (through %s) while the guard taken by %s is still alive: self-deadlock on a non-reentrant lock, or a "
                      "lock-order cycle between threads" % (x.resolved, c.resolved), x.loc())
    if not [h for h in hits if h[0].crate != "mdk_verif_witness"]:
        rep.ok(rule, "all-acquisitions", "no acquisition (direct, in a callee or in a passed closure) inside any of the %d guard live ranges" % n)
    rep.floor(rule, "lock acquisition sites in the storage crates", n, 40)
    rep.extra["callback_under_lock_fns"] = sorted(last_seg(p) for p in cb_under_lock)
    return control


def clause_sections(prog, rep):
    for adt in ("MdkMemoryStorage", "MdkSqliteStorage"):
        crate = "mdk_memory_storage" if adt == "MdkMemoryStorage" else "mdk_sqlite_storage"
        k = 0
        for trait in ("GroupStorage", "MessageStorage", "WelcomeStorage", "MdkStorageProvider", "StorageProvider"):
            for f in prog.find(adt=adt, trait=trait):
                ext = [prog.fns[p] for p in prog.extent(f) if p in prog.fns and prog.fns[p].crate == crate]
                sites = set()
                for g in ext:
                    for c in g.live_calls():
                        if is_acq(c):
                            sites.add((g.path, c.bb))
                k += 1
                # count acquisitions on one execution: approximate by the number of distinct acquisition call sites reached from f
                nacq = count_sections(prog, f, crate)
                if nacq <= 1:
                    rep.ok("one-critical-section", "%s::%s" % (adt, f.name), "the operation runs in %d critical section" % nacq, f.loc())
                else:
                    reason = MULTI_SECTION_OK.get((adt, f.name))
                    if reason is None and adt == "MdkSqliteStorage" and count_sections(prog, f, crate, skip=("find_group_by_mls_group_id",)) <= 1:
                        reason = MULTI_SECTION_OK[(adt, "*")]
                    if reason:
                        rep.ok("one-critical-section", "%s::%s" % (adt, f.name), "%d critical sections — listed exception: %s" % (nacq, reason), f.loc())
                    else:
                        rep.violation("one-critical-section", "%s::%s" % (adt, f.name),
                                      "the operation takes the backend lock %d times on one call: another thread can interleave between the sections "
                                      "(lost update / check-then-act) — not a listed exception" % nacq, f.loc())
        rep.floor("one-critical-section", "%s trait methods" % adt, k, 60)


def count_sections(prog, f, crate, seen=None, skip=()):
    """max number of lock acquisitions along one call of f (sum over call sites on the worst path is over-approximated by the
    number of distinct sites in f plus, per workspace callee call site, the callee's count)"""
    seen = seen or set()
    if f.path in seen:
        return 0
    seen = seen | {f.path}
    total = 0
    for c in f.live_calls():
        if is_acq(c):
            total += 1
            continue
        best = 0
        if c.name in skip:
            continue
        for t in prog.call_targets(c):
            if t.crate == crate and not t.is_test_like():
                best = max(best, count_sections(prog, t, crate, seen, skip))
        total += best
    # closures created here run where they are passed: count those that acquire
    for bb, s in f.stmts():
        if s.get("k") == "closure" and s["closure"] in prog.fns:
            total += count_sections(prog, prog.fns[s["closure"]], crate, seen, skip)
    return total


def clause_snapshot_single_guard(prog, rep):
    """the function that builds the group snapshot reads the live state under exactly one acquisition of the state lock — its own
    read guard, with every read of the live maps inside that guard's live range, and no further acquisition through a callee
    (e.g. a public getter that locks again after the guard was released)"""
    fs = prog.find(adt="MdkMemoryStorage", name="create_group_snapshot", trait="MdkStorageProvider")
    inner = prog.adt("MdkMemoryStorageInner")
    names = set(fd["name"] for fd in inner["variants"][0]["fields"])
    acq = Acquires(prog)
    n = 0
    for f in fs:
        for p in sorted(prog.extent(f)):
            g = prog.fns.get(p)
            if not g or g.crate != "mdk_memory_storage" or g.is_closure():
                continue
            if not any(True for _ in g.aggregates("GroupScopedSnapshot")):
                continue
            n += 1
            acqs = [c for c in g.live_calls() if is_acq(c) and c.args and "p" in c.args[0]]
            # acquisitions hidden in callees (workspace functions that lock the same state)
            indirect = [c for c in g.live_calls() if not is_acq(c) and any(t.crate == "mdk_memory_storage" and acq.fn(t.path) for t in prog.call_targets(c))]
            if not acqs and not indirect and any("MdkMemoryStorageInner" in str(g.locals[i]) for i in range(1, g.nargs + 1) if i < len(g.locals)):
                # a builder that is handed the locked state (`fn snapshot_group(inner: &MdkMemoryStorageInner, ..)`): the guard is its
                # caller's; each caller must make the call inside the live range of exactly one guard of its own
                callers = [prog.fns[q] for q in sorted(prog.redges().get(g.path, ())) if q in prog.fns and not prog.fns[q].is_test_like()]
                okc = bool(callers)
                for cf in callers:
                    cacq = [c for c in cf.live_calls() if is_acq(c) and c.args and "p" in c.args[0]]
                    sites = [c for c in cf.live_calls() if any(t.path == g.path for t in prog.call_targets(c))]
                    held = [a for a in cacq if all(c.bb in live_region(cf, a)[0] or c.bb == a.bb for c in sites)]
                    if len(held) != 1:
                        okc = False
                rep.check(okc, "snapshot-one-instant", g.label(),
                          "the snapshot is assembled from the locked state handed in by its caller, which holds exactly one guard across the call",
                          "the snapshot builder takes the state by reference but a caller does not hold exactly one guard across the call", g.loc())
                continue
            rep.check(len(acqs) == 1 and not indirect, "snapshot-one-instant", g.label(),
                      "the snapshot is assembled under a single read guard",
                      "the snapshot is assembled under %d lock acquisitions (%d direct, %d through %s): a concurrent writer or restore can slip in "
                      "between, so the snapshot mixes two states" % (len(acqs) + len(indirect), len(acqs), len(indirect), sorted(set(c.name for c in indirect))), g.loc())
            if acqs:
                region, _ = live_region(g, acqs[0])
                outside = [bb for bb, s in g.stmts() if bb not in region and bb != acqs[0].bb and
                           any("p" in o and any(isinstance(e, str) and e[1:] in names for e in o["p"][1:]) for o in s.get("o", []))]
                rep.check(not outside, "snapshot-one-instant", g.label() + "/all-reads-under-guard", "every read of the live maps happens while the guard is alive",
                          "live maps are read outside the guard's live range (blocks %s)" % outside[:5], g.loc())
    rep.floor("snapshot-one-instant", "functions building a GroupScopedSnapshot", n, 1)


def clause_manager_sections(prog, rep):
    """the snapshot manager's bookkeeping: what a function learns under the manager mutex (is the group hydrated? how long is the queue?)
    must be acted on under the same guard — each manager function takes the mutex at most once itself"""
    mg = [f for f in prog.nontest_fns(("mdk_core",)) if last_seg(f.self_adt) == "EpochSnapshotManager" and not f.is_closure()]
    n = 0
    for f in mg:
        acqs = [c for c in f.live_calls() if is_acq(c)]
        if not acqs:
            continue
        n += 1
        rep.check(len(acqs) == 1, "one-critical-section", "manager/%s" % f.label(),
                  "the manager mutex is taken once in this function",
                  "the manager mutex is taken %d times in %s: a check made under the first guard (hydrated? retention reached?) is acted on under "
                  "a later one, so concurrent first uses interleave (double hydration, wrong prune)" % (len(acqs), f.label()), f.loc())
    rep.floor("one-critical-section", "snapshot-manager functions taking the mutex", n, 4)


def clause_layering(prog, rep):
    bad = []
    for f in prog.nontest_fns(STORAGE + ("mdk_storage_traits",)):
        for c in f.live_calls():
            for t in prog.call_targets(c):
                if t.crate in ("mdk_core", "mdk_uniffi"):
                    bad.append("%s -> %s" % (f.label(), t.label()))
    rep.check(not bad, "lock-order", "storage-never-calls-up", "storage code never calls back into mdk-core / bindings: the lock order (bindings mutex -> snapshot-manager mutex -> storage locks) is acyclic",
              "storage code calls up into %s: lock-order cycle possible" % bad[:3])
    # the manager holds its mutex while calling storage, never the reverse: storage crates have no reference to the manager
    mg = [f for f in prog.nontest_fns(("mdk_core",)) if last_seg(f.self_adt) == "EpochSnapshotManager" or (f.is_closure() and "EpochSnapshotManager" in (f.root or ""))]
    mgp = set(f.path for f in mg)
    # manager functions that take the manager's mutex themselves or through another manager function
    locking = set(f.path for f in mg if any(is_acq(c) for c in f.live_calls()))
    changed = True
    while changed:
        changed = False
        for f in mg:
            if f.path not in locking and any(t.path in locking for c in f.live_calls() for t in prog.call_targets(c)):
                locking.add(f.path)
                changed = True
    nested = 0
    for f in mg:
        for c in f.live_calls():
            if is_acq(c):
                region, _ = live_region(f, c)
                for x in f.live_calls():
                    if x.bb in region and x is not c and (is_acq(x) or any(t.path in locking and t.path in mgp for t in prog.call_targets(x))):
                        nested += 1
    rep.check(nested == 0, "lock-order", "manager-mutex-not-reentered", "the snapshot manager never re-locks its own mutex while holding it",
              "the snapshot manager acquires its mutex %d time(s) while already holding it (std::sync::Mutex is not reentrant)" % nested)


def run(ctx, rep):
    prog = ctx.prog_with_witness()
    rep.fns_analysed = len(list(prog.nontest_fns(STORAGE)))
    rep.clause("C19.1 inside a backend no lock is acquired (directly, in a callee, or in a closure run under the lock) while a guard of that backend is alive")
    rep.clause("C19.2 each trait method is one critical section (frozen exception table with reasons)")
    rep.clause("C19.3 the memory snapshot copies all group-scoped maps under a single read guard")
    rep.clause("C19.4 lock order across layers is acyclic: storage never calls up; the manager does not re-enter its mutex")
    rep.clause("C19.5 witnesses: both storages and MDK over them are Send + Sync (compile-pass, with a compile-fail control)")
    rep.not_decided = "linearizability under real interleavings, torn updates inside SQLite, cross-process first-open races"
    control = clause_no_nesting(prog, rep)
    clause_manager_sections(prog, rep)
    rep.check(control, "positive-control", "nested-locks-witness", "the nesting rule reports the witness function that locks b while holding a",
              "the positive control (nested locks) was NOT reported: the lock rule is blind")
    clause_sections(prog, rep)
    clause_snapshot_single_guard(prog, rep)
    clause_layering(prog, rep)
    witness.check_examples(rep, ctx.witness(), ["ok_send_sync", "cf_send_sync_control"])
