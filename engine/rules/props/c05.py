"""C05 — only admins change roster or group data; identities never change (structural clauses)."""
import itertools
from ir import last_seg
import analysis as A
import common as K
import dtable

BUILDERS = ("add_members", "remove_members", "update_group_context_extensions")
SWEEPERS = BUILDERS + ("self_update_with_new_signer", "self_update", "commit_to_pending_proposals")
STORE_EVIDENCE = ("clear_pending_proposals", "pending_proposals", "consume_proposal_store")
WRITE_PREFIXES = ("save_", "replace_", "invalidate_", "mark_", "rollback_", "release_", "create_group_snapshot", "delete_", "prune_")
ADMIN_EXEMPT = {"MDK::create_group": "the creator is an admin by construction (creator validation) and the group is brand new"}
SWEEP_EXEMPT = {"MDK::create_group": "a group that was just created has an empty proposal store"}


def recv_scope(prog):
    roots = prog.find(adt="MDK", name="process_message", crate="mdk_core")
    core = K.core_scope(prog)
    return roots, set(p for p in prog.reachable(roots) if p in core)


def admin_test_fns(prog):
    """functions whose boolean result is `admins.contains(..)` of the group-data extension (directly or via callee)"""
    out = set()
    for f in prog.nontest_fns(("mdk_core",)):
        if f.is_closure() or "bool" not in (f.ret or ""):
            continue
        og = A.origins(prog, f, 0, scope=None, max_frames=2)
        if og.has_call(lambda c: c.name == "contains") and "admins" in og.fields:
            out.add(f.path)
    return out


def admin_edges(prog, f, admin_fns, admin_res):
    """edges of f taken only when the local admin test held: the true side of a boolean admin test, or the success side of a
    checked call to a helper that cannot return Ok unless the test held"""
    edges = set()
    for g in f.live_calls():
        ts = prog.call_targets(g)
        if any(t.path in admin_fns for t in ts):
            edges |= A.bool_true_edges(f, g)
        if ts and all(t.path in admin_res for t in ts):
            edges |= A.success_edges(f, [g])
    return edges


def admin_result_fns(prog, admin_fns):
    """Result-returning mdk-core functions whose every Ok return lies behind an admin-true edge (fixpoint over helpers of helpers)"""
    res = set()
    changed = True
    while changed:
        changed = False
        for g in prog.nontest_fns(("mdk_core",)):
            if g.is_closure() or g.path in res or "Result<" not in (g.ret or ""):
                continue
            edges = admin_edges(prog, g, admin_fns, res)
            if not edges:
                continue
            r = A.reach_without_edges(g, 0, edges, A.err_exit_blocks(g))
            if not any(g.term(b)["k"] == "return" for b in r):
                res.add(g.path)
                changed = True
    return res


def entries_of(prog, f):
    ls = [e.label() for e in prog.nontest_fns(("mdk_core",)) if K.api_boundary(e) and last_seg(e.self_adt) == "MDK" and f.path in prog.reachable([e])]
    return sorted(set(ls))


def clause_receive_guards(prog, rep, scope):
    core = K.core_scope(prog)
    sinks = A.sink_sites(prog, lambda c: K.is_mls_call(c, "merge_staged_commit"), scope)
    rep.floor("guards-before-merge", "MlsGroup::merge_staged_commit sites on the receive path", len(sinks), 1)
    gsets = {}
    for V in ("CommitFromNonAdmin", "IdentityChangeNotAllowed"):
        guards = A.variant_guard_fns(prog, "Error", V)
        gsets[V] = guards
        rep.floor("guards-before-merge", "functions that may fail with Error::%s" % V, len(guards), 1)
        for c in sinks:
            ga = A.GuardAnalysis(prog, lambda x, g=guards: any(t.path in g for t in prog.call_targets(x)), K.api_boundary, core)
            ok, chain = ga.site_ok(c.fn, c.bb)
            rep.check(ok, "guards-before-merge", "MDK::process_message/merge_staged_commit/%s" % V,
                      "a checked %s guard success-dominates the merge of a received commit" % V,
                      "a received commit can be merged without a checked %s guard on every path" % V, c.loc(), chain)
    # no storage write / MLS mutation precedes the two guards in the merging function
    for c in sinks:
        f = c.fn
        allg = set().union(*gsets.values())
        gcalls = [x for x in f.live_calls() if any(t.path in allg for t in prog.call_targets(x))]
        wr = A.ReachCache(prog, lambda x: (x.trait or "").startswith("mdk_storage_traits::") and x.name.startswith(WRITE_PREFIXES))
        for x in f.live_calls():
            if x in gcalls:
                continue
            if wr.call(x) or K.is_mls_call(x, "merge_staged_commit", "merge_pending_commit", "store_pending_proposal"):
                ok = all(A.succ_dominated(f, x.bb, [g for g in gcalls if any(t.path in gsets[V] for t in prog.call_targets(g))]) for V in gsets)
                rep.check(ok, "rejected-commit-no-effect", "MDK::process_message/%s" % (x.name),
                          "state-changing call is success-dominated by both commit guards",
                          "state-changing call %s can run before the commit was authorised" % x.name, x.loc())


def unauthenticated_rollbacks(prog):
    """rollbacks on the receive path that are decided before the incoming commit was authenticated / authorised: the call to
    EpochSnapshotManager::rollback_to_epoch is not success-dominated (in any calling context below process_message) by a commit
    guard nor by a successful MlsGroup::process_message of the candidate.  Returns [(fn, call, chain)]."""
    core = K.core_scope(prog)
    roots = prog.find(adt="MDK", name="process_message", crate="mdk_core")
    scope = set(p for p in prog.reachable(roots) if p in core)
    guards = A.variant_guard_fns(prog, "Error", "CommitFromNonAdmin")
    out = []
    for p in sorted(scope):
        f = prog.fns[p]
        for c in f.live_calls():
            if c.name == "rollback_to_epoch" and last_seg(c.self_adt) == "EpochSnapshotManager":
                ga = A.GuardAnalysis(prog, lambda x: any(t.path in guards for t in prog.call_targets(x)), K.api_boundary, core, mode="success")
                ok, chain = ga.site_ok(f, c.bb)
                if not ok:
                    out.append((f, c, chain))
    return out


def clause_rollback_authenticated(prog, rep, rule, prefix=""):
    rbs = prog.all_calls(lambda c: c.name == "rollback_to_epoch" and last_seg(c.self_adt) == "EpochSnapshotManager", crates=("mdk_core",))
    rep.floor(rule, "EpochSnapshotManager::rollback_to_epoch call sites", len([c for c in rbs if not c.fn.is_test_like()]), 1)
    bad = unauthenticated_rollbacks(prog)
    for f, c, chain in bad:
        rep.violation(rule, "%s%s/rollback-before-authorisation" % (prefix, prog.fns.get(f.root, f).label()),
                      "the group is rolled back on the strength of the wrapper's timestamp and id alone, before the candidate commit was "
                      "decrypted, authenticated or authorised: any kind-445 event carrying a handshake message of an already left epoch with an "
                      "earlier created_at (e.g. the applied commit re-wrapped by a member removed since) rolls the receiver back; when the "
                      "candidate is then refused, nothing restores the state, the applied commit's record is invalidated and the receiver "
                      "stays behind for good", c.loc(), chain)
    if not bad:
        rep.ok(rule, "%srollback-before-authorisation" % prefix, "every rollback is preceded by a successful authorisation of the candidate commit")


def clause_decision(prog, rep):
    n = 0
    pred_fns = []
    for f in prog.nontest_fns(("mdk_core",)):
        for bb, s in f.aggregates("Error", "CommitFromNonAdmin"):
            if f.name == "sanitize_error_reason":
                continue
            n += 1
            cds = A.control_dependent_switches(f, bb)
            calls = []
            fields = set()
            deps = set()
            for w in cds:
                l = A._opl(f.term(w)["discr"])
                og = A.origins(prog, f, l, scope=None, max_frames=0)
                calls += og.calls
                fields |= og.fields
            has_admins = any(c.name == "contains" for c in calls) and "admins" in fields
            # the admin set must be that of the *current* epoch: decoded from the live MlsGroup, never from the staged
            # commit's (post-commit) group context, which already contains the commit's own extension proposal
            from_staged = any(c.name == "group_context" and last_seg(c.self_adt) == "StagedCommit" for c in calls)
            cur_group = not from_staged and (
                any(c.name == "from_group" and last_seg(c.self_adt) == "NostrGroupDataExtension" for c in calls)
                or (any(c.name == "from_group_context" and last_seg(c.self_adt) == "NostrGroupDataExtension" for c in calls)
                    and any(c.name in ("export_group_context", "group_context") and last_seg(c.self_adt) == "MlsGroup" for c in calls)))
            sender = any(c.name == "member_at" and last_seg(c.self_adt) == "MlsGroup" for c in calls) and \
                any(c.name == "identity" and last_seg(c.self_adt) == "BasicCredential" for c in calls)
            rep.check(has_admins and cur_group and sender, "guards-before-merge", "CommitFromNonAdmin/decision",
                      "the refusal depends on admins.contains(identity of MlsGroup::member_at(commit sender)) read from the current group's data extension",
                      "the CommitFromNonAdmin decision no longer tests the commit sender's identity against the current group's admin set "
                      "(admins.contains=%s, from_group=%s, sender identity=%s)" % (has_admins, cur_group, sender), f.loc())
            for c in calls:
                for t in prog.call_targets(c):
                    if t.crate == "mdk_core" and t.ret == "bool" and not t.is_closure():
                        if any(x.name == "queued_proposals" for x in t.live_calls()):
                            pred_fns.append(t)
    rep.floor("guards-before-merge", "constructions of Error::CommitFromNonAdmin", n, 1)
    # decision table of the authorisation function over (sender is admin, commit is a pure self-update)
    pred_paths = set(t.path for t in pred_fns)
    for f in prog.nontest_fns(("mdk_core",)):
        if f.name == "sanitize_error_reason" or not any(True for _ in f.aggregates("Error", "CommitFromNonAdmin")):
            continue
        if not any(any(t.path in pred_paths for t in prog.call_targets(c)) for c in f.live_calls()):
            continue
        adt_of_discr = {}
        for bb, s in f.stmts():
            if s.get("k") == "discr":
                adt_of_discr[bb] = last_seg(s.get("adt"))

        def opaque_switch(bb, v, t):
            a = adt_of_discr.get(bb)
            pick = {"ControlFlow": 0, "Result": 0, "Option": 1}.get(a)
            if a == "Sender":
                snd = [x for p_, x in prog.adts.items() if last_seg(p_) == "Sender" and p_.startswith("openmls")][0]
                pick = [x["discr"] for x in snd["variants"] if x["name"] == "Member"][0]
            if pick is None:
                return None
            for val, tb in t["targets"]:
                if val == pick:
                    return tb
            return t["otherwise"]
        for A_, B_ in itertools.product((0, 1), repeat=2):
            def hook(cal, args, A_=A_, B_=B_):
                if cal.get("name") == "contains":
                    return ("int", A_)
                if (cal.get("resolved") or cal.get("path")) in pred_paths:
                    return ("int", B_)
                return None
            ev = dtable.Evaluator(f, lambda v: None, lambda a, b: None, opaque_switch, call_hook=hook)
            try:
                results = ev.run_all({l: ("param", "arg%d" % l, l) for l in range(1, f.nargs + 1)})
            except dtable.Undecided as e:
                rep.violation("authorisation-table", "admin=%d,self-update=%d" % (A_, B_), "authorisation function cannot be enumerated: %s" % e, f.loc())
                continue
            outs = set()
            for r in results:
                if r and r[0] == "variant" and r[1] == "Result":
                    if r[2] == "Ok":
                        outs.add("Ok")
                    else:
                        inner = r[3][0] if len(r) > 3 and r[3] else None
                        outs.add("Err(%s)" % (inner[2] if inner and inner[0] == "variant" else "?"))
                else:
                    outs.add("?")
            want = {"Ok"} if (A_ or B_) else {"Err(CommitFromNonAdmin)"}
            rep.check(outs == want, "authorisation-table", "admin=%d,self-update=%d" % (A_, B_),
                      "member commit with (sender admin=%d, pure self-update=%d) -> %s on all %d explored paths" % (A_, B_, sorted(outs), len(results)),
                      "member commit with (sender admin=%d, pure self-update=%d) can end in %s; the property requires %s" % (A_, B_, sorted(outs), sorted(want)),
                      f.loc())
    return pred_fns


def eval_closure(prog, cl, choose, call_hook=None):
    """evaluate a closure body: `choose(adt_last)` picks the variant taken at a discriminant switch; returns 0/1/None"""
    def opaque_switch(bb, v, t):
        if v[0] != "discr":
            return None
        # find the ADT of this discr
        for b2, s in cl.stmts():
            if b2 == bb and s.get("k") == "discr":
                adt = prog.adts.get(s.get("adt"))
                want = choose(last_seg(s.get("adt")))
                if adt and want is not None:
                    dv = [x["discr"] for x in adt["variants"] if x["name"] == want]
                    if dv:
                        for val, tb in t["targets"]:
                            if val == dv[0]:
                                return tb
                        return t["otherwise"]
        return None
    ev = dtable.Evaluator(cl, lambda v: None, lambda a, b: None, opaque_switch, call_hook=call_hook)
    env = {l: ("param", "arg%d" % l, l) for l in range(1, cl.nargs + 1)}
    res = ev.run(env)
    if res and res[0] == "int":
        return res[1]
    return None


def whitelist_worlds(prog, max_len=2):
    """the commits the whitelist predicate is evaluated on: update path present / absent x up to two queued proposals, each of any
    Proposal kind; an Update proposal additionally carries its sender (any Sender kind; a Member sender is the committer or another leaf)"""
    prop = [a for p, a in prog.adts.items() if last_seg(p) == "Proposal" and a["kind"] == "enum" and p.startswith("openmls")][0]
    snd = [a for p, a in prog.adts.items() if last_seg(p) == "Sender" and p.startswith("openmls")][0]
    elems = []
    for v in prop["variants"]:
        if v["name"] == "Update":
            for sv in snd["variants"]:
                if sv["name"] == "Member":
                    elems.append(("Update", "Member", "own"))
                    elems.append(("Update", "Member", "other"))
                else:
                    elems.append(("Update", sv["name"], "n/a"))
        else:
            elems.append((v["name"], "Member", "own"))
    lists = [()]
    for n in range(1, max_len + 1):
        lists += list(itertools.product(elems, repeat=n))
    return [(path, q) for path in (0, 1) for q in lists]


def whitelist_spec(path, queued):
    ups = [e for e in queued if e[0] == "Update"]
    return int(bool(path or ups) and all(e[0] == "Update" for e in queued) and all(e[1] == "Member" and e[2] == "own" for e in ups))


def eval_whitelist(prog, f, path, queued):
    """run the predicate on one symbolic commit; iterators over the commit's proposals yield the world's elements (works for
    `.all(|p| ..)` closures and for explicit loops alike)"""
    pos = {}
    sc_param = [l for l in range(1, f.nargs + 1) if "StagedCommit" in f.locals[l]]
    idx_param = [l for l in range(1, f.nargs + 1) if "LeafNodeIndex" in f.locals[l]]

    def elems_of(kind):
        return [e for e in queued if kind == "queued" or e[0] == {"update": "Update", "add": "Add", "remove": "Remove"}.get(kind, "?")]

    def hook(cal, args):
        nm = cal.get("name")
        adt = last_seg(cal.get("self_adt"))
        a0 = args[0] if args else None
        if adt == "StagedCommit":
            if nm == "update_path_leaf_node":
                return ("variant", "Option", "Some" if path else "None", (("leafnode",),) if path else ())
            if nm in ("queued_proposals", "update_proposals", "add_proposals", "remove_proposals"):
                key = (id(cal), len(pos))
                pos[key] = 0
                return ("iter", key, tuple(("qp",) + e for e in elems_of(nm.split("_")[0])))
            return None
        if nm in ("into_iter", "iter", "by_ref") and a0 is not None and a0[0] == "iter":
            return a0
        if nm == "next" and a0 is not None and a0[0] == "iter":
            i = pos[a0[1]]
            pos[a0[1]] = i + 1
            return ("variant", "Option", "Some", (a0[2][i],)) if i < len(a0[2]) else ("variant", "Option", "None", ())
        if nm in ("all", "any") and a0 is not None and a0[0] == "iter" and len(args) == 2:
            i = pos[a0[1]]
            pos[a0[1]] = len(a0[2])
            vals = []
            for e in a0[2][i:]:
                r = ev._call_closure(args[1], [e])
                if not (r and r[0] == "int"):
                    raise dtable.Undecided("closure result %r" % (r,))
                vals.append(r[1])
            return ("int", int(all(vals) if nm == "all" else any(vals)))
        if nm == "count" and a0 is not None and a0[0] == "iter":
            return ("int", len(a0[2]) - pos[a0[1]])
        if nm in ("is_none", "is_some") and a0 is not None and a0[0] == "variant" and a0[1] == "Option":
            return ("int", int((a0[2] == "None") == (nm == "is_none")))
        if a0 is not None and a0[0] == "qp":
            if nm == "proposal":
                return ("variant", "Proposal", a0[1], (("payload",),))
            if nm == "sender":
                return ("variant", "Sender", a0[2], (("leaf", a0[3]),))
        if nm in ("eq", "ne") and len(args) == 2 and all(x[0] == "leaf" for x in args):
            r = int(args[0] == args[1])
            return ("int", r if nm == "eq" else 1 - r)
        if nm in ("eq", "ne") and len(args) == 2 and all(x[0] == "variant" and x[1] == "Sender" for x in args):
            # whole-value comparison of two senders (`*p.sender() == Sender::Member(*own)`): same variant and same leaf
            pa, pb = args[0][3], args[1][3]
            if args[0][2] != args[1][2]:
                r = 0
            elif all(x[0] == "leaf" for x in pa + pb) and len(pa) == len(pb):
                r = int(pa == pb)
            else:
                return None
            return ("int", r if nm == "eq" else 1 - r)
        return None
    ev = dtable.Evaluator(f, lambda v: None, lambda a, b: None, lambda bb, v, t: None, call_hook=hook, prog=prog, max_steps=4000)
    env = {l: ("param", "arg%d" % l, l) for l in range(1, f.nargs + 1)}
    for l in idx_param:
        env[l] = ("leaf", "own")
    res = ev.run(env)
    return res[1] if res and res[0] == "int" else None


def clause_whitelist(prog, rep, pred_fns):
    rep.floor("non-admin-whitelist", "self-update whitelist predicate", len(pred_fns), 1)
    for f in pred_fns[:1]:
        worlds = whitelist_worlds(prog, 3 if rep.tier == "thorough" else 2)
        rows, bad = {}, None
        for path, q in worlds:
            try:
                rows[(path, q)] = eval_whitelist(prog, f, path, q)
            except dtable.Undecided as e:
                bad = "%s on commit (path=%d, proposals=%s)" % (e, path, [x[0] for x in q])
                break
        if bad is not None:
            rep.violation("non-admin-whitelist", "decision-table", "whitelist predicate can no longer be enumerated: %s" % bad, f.loc())
            continue
        rep.extra["whitelist_worlds"] = len(rows)

        def show(k):
            return "path=%d [%s]" % (k[0], ", ".join(e[0] if e[0] != "Update" else "Update(%s%s)" % (e[1], "" if e[2] == "n/a" else ":" + e[2]) for e in k[1]))
        # (a) which single proposal kinds a non-admin may commit (with an update path, so that only the kind matters)
        kinds = sorted(set(e[0] for (pth, q), r in rows.items() if pth == 1 and len(q) == 1 and r == 1 for e in q))
        rep.check(kinds == ["Update"], "non-admin-whitelist", "proposal-kinds", "a non-admin commit may only carry Update proposals (accepted kinds: %s)" % kinds,
                  "the non-admin whitelist accepts more than Proposal::Update (accepted kinds: %s)" % kinds, f.loc())
        # (b) whose Update proposals
        own = sorted(set((e[1], e[2]) for (pth, q), r in rows.items() if len(q) == 1 and r == 1 for e in q if e[0] == "Update"))
        rep.check(own == [("Member", "own")], "non-admin-whitelist", "own-leaf-only",
                  "update proposals must come from the committer itself (accepted senders: %s)" % own,
                  "the whitelist no longer requires every Update proposal to be the committer's own: accepted senders %s" % own, f.loc())
        # (c) the whole table
        diff = [k for k, r in rows.items() if r != whitelist_spec(*k)]
        rep.check(not diff, "non-admin-whitelist", "decision-table",
                  "accept iff (update path or update proposal present) and all proposals are Update and all updates are the committer's own (%d symbolic commits)" % len(rows),
                  "whitelist decision differs from the spec on %d commit(s), e.g. %s" % (len(diff), "; ".join("%s -> %s" % (show(k), rows[k]) for k in diff[:4])), f.loc())


def context_ok(prog, f, bb, test, scope, seen=None):
    """test(fn, bb) holds in f, or (f not an API boundary and) holds at every call site of f in scope"""
    seen = seen or set()
    if test(f, bb):
        return True
    if K.api_boundary(f) or f.path in seen:
        return False
    seen = seen | {f.path}
    callers = [prog.fns[p] for p in prog.redges().get(f.path, ()) if p in scope]
    if not callers:
        return False
    for cf in callers:
        for c in cf.live_calls():
            if any(t.path == f.path for t in prog.call_targets(c)):
                if not context_ok(prog, cf, c.bb, test, scope, seen):
                    return False
    return True


def clause_proposals(prog, rep, scope):
    core = K.core_scope(prog)
    sites = A.sink_sites(prog, lambda c: K.is_mls_call(c, "store_pending_proposal"), core)
    rep.floor("proposal-triage", "MlsGroup::store_pending_proposal sites", len(sites), 1)
    for c in sites:
        ok = context_ok(prog, c.fn, c.bb, lambda f, bb: A.arm_only(prog, f, bb, "Proposal", {"Add", "Remove"}), core)
        ents = entries_of(prog, c.fn)
        rep.check(ok and ents == ["MDK::process_message"], "proposal-triage", "store_pending_proposal",
                  "proposals are queued only on the Add / Remove arms of the proposal triage (entry: %s)" % ents,
                  "a proposal can be queued outside the Add/Remove arms of the triage (entries: %s): Update / GroupContextExtensions / other "
                  "proposals must never enter the pending store" % ents, c.loc())
    autos = A.sink_sites(prog, lambda c: K.is_mls_call(c, "commit_to_pending_proposals"), core)
    rep.floor("proposal-triage", "MlsGroup::commit_to_pending_proposals sites", len(autos), 1)
    admin_fns = admin_test_fns(prog)
    rep.floor("proposal-triage", "admin-test functions (admins.contains)", len(admin_fns), 1)
    for c in autos:
        only_remove = context_ok(prog, c.fn, c.bb, lambda f, bb: A.arm_only(prog, f, bb, "Proposal", {"Remove"}), core)

        def gated(f, bb):
            cds = A.control_dependent_switches(f, bb)
            self_rm = admin = False
            for w in cds:
                l = A._opl(f.term(w)["discr"])
                dep, calls, _ = f.depends_on(l)
                if any(x.name == "removed" for x in calls) and any(x.name in ("eq", "ne") for x in calls):
                    self_rm = True
                if any(any(t.path in admin_fns for t in prog.call_targets(x)) for x in calls):
                    admin = True
            return self_rm and admin
        ok_gate = context_ok(prog, c.fn, c.bb, gated, core)
        rep.check(only_remove and ok_gate, "proposal-triage", "auto-commit",
                  "auto-commit happens only on the Remove arm, when remover == removed and the receiver is an admin",
                  "commit_to_pending_proposals is reachable outside (Remove arm && self-remove && receiver is admin) [remove-arm=%s gate=%s]" % (only_remove, ok_gate),
                  c.loc())


def clause_sender_side(prog, rep):
    core = K.core_scope(prog)
    admin_fns = admin_test_fns(prog)
    sinks = A.sink_sites(prog, lambda c: K.is_mls_call(c, *BUILDERS), core)
    rep.floor("sender-admin-guard", "MlsGroup commit builders (add/remove/update extensions)", len(sinks), 3)
    admin_res = admin_result_fns(prog, admin_fns)
    rep.extra["admin_guard_helpers"] = sorted(prog.fns[p].label() for p in admin_res)
    for c in sinks:
        def test(f, bb):
            edges = admin_edges(prog, f, admin_fns, admin_res)
            return bool(edges) and bb not in A.reach_without_edges(f, 0, edges)
        for entry in entries_of(prog, c.fn):
            # per public entry: context restricted to that entry's extent
            ext = prog.reachable(prog.find(adt="MDK", name=entry.split("::")[-1], crate="mdk_core")) & core
            ok = context_ok(prog, c.fn, c.bb, test, ext)
            inst = "%s/MlsGroup::%s" % (entry, c.name)
            if not ok and entry in ADMIN_EXEMPT:
                rep.ok("sender-admin-guard", inst, "exempt: " + ADMIN_EXEMPT[entry], c.loc())
                continue
            rep.check(ok, "sender-admin-guard", inst,
                      "the commit is built only on the true side of an admins.contains(own identity) test",
                      "a roster / group-data commit can be built without the local admin test succeeding", c.loc())


def clause_no_sweep(prog, rep):
    core = K.core_scope(prog)
    sinks = A.sink_sites(prog, lambda c: K.is_mls_call(c, *SWEEPERS), core)
    rep.floor("no-foreign-sweep", "commit-creating MlsGroup calls that consume the proposal store", len(sinks), 4)
    for c in sinks:
        def test(f, bb):
            ev = [x for x in f.live_calls() if x.name in STORE_EVIDENCE and last_seg(x.self_adt) in ("MlsGroup", "CommitBuilder")]
            return bool(ev) and A.plain_dominated(f, bb, ev)
        for entry in entries_of(prog, c.fn):
            ext = prog.reachable(prog.find(adt="MDK", name=entry.split("::")[-1], crate="mdk_core")) & core
            ok = context_ok(prog, c.fn, c.bb, test, ext)
            inst = "%s/MlsGroup::%s" % (entry, c.name)
            if not ok and entry in SWEEP_EXEMPT:
                rep.ok("no-foreign-sweep", inst, "exempt: " + SWEEP_EXEMPT[entry], c.loc())
                continue
            rep.check(ok, "no-foreign-sweep", inst,
                      "the proposal store is inspected / cleared / not consumed before this commit is built",
                      "MlsGroup::%s commits the group's whole pending-proposal store (OpenMLS default consume_proposal_store=true) and nothing on "
                      "the path clears or inspects it: an operation entered through %s also carries out Add/Remove proposals merely queued by "
                      "other members" % (c.name, entry), c.loc())


def run(ctx, rep):
    prog = ctx.prog()
    roots, scope = recv_scope(prog)
    rep.fns_analysed = len(K.core_scope(prog))
    rep.clause("C05.1 checked CommitFromNonAdmin and IdentityChangeNotAllowed guards success-dominate every merge of a received commit; the refusal tests the commit sender's identity against the current group's admins; no state change precedes the guards")
    rep.clause("C05.2 non-admin whitelist: decision table of the predicate (16 rows), accepted proposal kinds = {Update}, updates are the committer's own")
    rep.clause("C05.3 proposals are queued only on the Add/Remove arms; auto-commit only for Remove && self-remove && admin receiver")
    rep.clause("C05.4 sender side: add/remove/update-extensions commits are built only on the true side of the local admin test")
    rep.clause("C05.5 commit builders that consume the whole proposal store must be preceded by evidence that nothing foreign is in it")
    rep.clause("C05.7 a refused commit leaves the group as it was also on the error path: no rollback is decided before the candidate commit was authorised (known finding F16)")
    rep.not_decided = "value-level correctness of the admin set computation; validation performed inside OpenMLS"
    clause_receive_guards(prog, rep, scope)
    clause_rollback_authenticated(prog, rep, "rejected-commit-no-effect")
    preds = clause_decision(prog, rep)
    clause_whitelist(prog, rep, preds)
    clause_proposals(prog, rep, scope)
    clause_sender_side(prog, rep)
    clause_no_sweep(prog, rep)
