"""C15 — wire formats round-trip and parsers accept nothing ambiguous (structural clauses)."""
from ir import last_seg
import analysis as A
import common as K

RENAME = {"admins": "admin_pubkeys"}      # NostrGroupDataExtension field -> TlsNostrGroupDataExtension field
OPTIONAL = {"image_hash": "InvalidImageHashLength", "image_key": "InvalidImageKeyLength", "image_nonce": "InvalidImageNonceLength",
            "image_upload_key": "InvalidImageUploadKeyLength"}


def _ref_chain(f, local):
    """the locals a reference / copy chain leads back to (`&mut *(&mut rest)` -> rest)"""
    seen, todo = set(), [local]
    while todo:
        l = todo.pop()
        if l in seen:
            continue
        seen.add(l)
        for bb, kind, x in f.defs().get(l, []):
            if kind == "stmt" and x.get("k") in ("ref", "use", "cast") and x.get("o") and "p" in x["o"][0]:
                todo.append(x["o"][0]["p"][0])
    return seen


def _remainder_checked(f, locs):
    """some `is_empty()` on one of the locals guards every Ok return (its false side only reaches error exits)"""
    for e in f.live_calls():
        if e.name == "is_empty" and e.args and "p" in e.args[0] and (_ref_chain(f, e.args[0]["p"][0]) & locs) and e.dst:
            edges = A.bool_true_edges(f, e)
            r = A.reach_without_edges(f, 0, edges, A.err_exit_blocks(f))
            if edges and not any(f.term(b)["k"] == "return" for b in r):
                return True
    # the same test written as a slice pattern (`(value, []) => ..`): the remainder's length compared with 0
    for w in range(f.nblocks()):
        t = f.term(w)
        if t["k"] != "switch":
            continue
        dl = A._opl(t["discr"])
        for bb, kind, x in f.defs().get(dl, []) if dl is not None else []:
            if kind != "stmt" or x.get("k") != "binop" or x.get("op") not in ("Eq", "Ne") or len(x.get("o", [])) != 2:
                continue
            lens = set()
            zero = False
            for o in x["o"]:
                if "p" in o:
                    dep, _, consts = f.depends_on(o["p"][0])
                    for l in dep | {o["p"][0]}:
                        for b2, k2, y in f.defs().get(l, []):
                            if k2 == "stmt" and ((y.get("k") == "unop" and y.get("op") == "PtrMetadata") or y.get("k") == "len"):
                                src = y["o"][0]["p"][0] if y.get("o") and "p" in y["o"][0] else None
                                if src is not None:
                                    lens |= _ref_chain(f, src) | set(z for q in _ref_chain(f, src) for b3, k3, yy in f.defs().get(q, [])
                                                                     if k3 == "stmt" and yy.get("k") == "rawptr" and yy.get("o") and "p" in yy["o"][0]
                                                                     for z in _ref_chain(f, yy["o"][0]["p"][0]))
                    if any(isinstance(k, dict) and k.get("int") == 0 for _, k in consts) and not (dep - {o["p"][0]}):
                        zero = True
                elif isinstance(o.get("c"), dict) and o["c"].get("int") == 0:
                    zero = True
            if not zero or not (lens & locs):
                continue
            tg = dict((v, b) for v, b in t["targets"])
            want = 1 if x["op"] == "Eq" else 0
            empty_side = tg.get(want, t["otherwise"])
            edges = {(w, empty_side)}
            r = A.reach_without_edges(f, 0, edges, A.err_exit_blocks(f))
            if not any(f.term(b)["k"] == "return" for b in r):
                return True
    return False


def exact_decode_verdict(f, c):
    """(is exact?, how) for one tls_codec decode call: the _exact forms; tls_deserialize_bytes whose remainder is tested empty;
    tls_deserialize(&mut reader) whose reader is tested empty afterwards — in both manual forms the non-empty side must be an error exit"""
    if c.name in ("tls_deserialize_exact", "tls_deserialize_exact_bytes"):
        return True, "exact TLS decode (trailing bytes are an error)"
    if c.name == "tls_deserialize_bytes" and c.dst:
        fl = f.flows_from({c.dst[0]}, through_calls=True, stop_calls=lambda x: x.krate not in ("core", "alloc", "std"))
        return _remainder_checked(f, fl), "the remainder is checked empty before the value is used"
    if c.name == "tls_deserialize" and c.args and "p" in c.args[0]:
        # the reader variable itself: the `&[u8]` local at the end of the `&mut` chain handed to the decoder
        readers = set(l for l in _ref_chain(f, c.args[0]["p"][0]) if f.locals[l].replace(" ", "") in ("&[u8]", "&'_[u8]") or f.locals[l].endswith("&[u8]") and not f.locals[l].startswith("&mut"))
        if readers:
            return _remainder_checked(f, readers), "the reader is checked empty after the decode (leftover bytes are an error)"
    return False, ""


def is_exact_decode(c):
    return (c.trait or "").startswith("tls_codec::") and c.name.startswith("tls_deserialize") and exact_decode_verdict(c.fn, c)[0]


def clause_exact_decode(prog, rep):
    n = 0
    for f in prog.nontest_fns(("mdk_core", "mdk_uniffi")):
        if (f.impl_trait or "").startswith("tls_codec::") or f.derived:
            continue   # derived field-by-field decoders of the wire structs themselves
        for c in f.live_calls():
            if (c.trait or "").startswith("tls_codec::") and c.name.startswith("tls_deserialize"):
                n += 1
                what = "%s::%s" % (last_seg((c.gen or ["?"])[0]), c.name)
                root = prog.fns.get(f.root, f)
                inst = "%s/%s" % (root.label(), what)
                ok, how = exact_decode_verdict(f, c)
                rep.check(ok, "exact-decode", inst, how,
                          "%s stops at the end of the structure and the bytes after it are never required to be absent: the same logical value "
                          "has many accepted encodings (use tls_deserialize_exact or test the remainder)" % what, c.loc())
    rep.floor("exact-decode", "TLS decode sites of external bytes", n, 4)


def passes(prog, f, pred):
    return A.MustPass(prog, pred).fn(f)


def err_depends_on(prog, f, pred_og, within=None):
    """is some Err exit of f's extent control-dependent on a condition whose origins satisfy pred_og?"""
    fns = [prog.fns[p] for p in prog.extent(f) if p in prog.fns and prog.fns[p].crate == "mdk_core" and not prog.fns[p].is_test_like()]
    for g in fns:
        for eb in A.err_exit_blocks(g):
            for w in A.control_dependent_switches(g, eb):
                l = A._opl(g.term(w)["discr"])
                if l is None:
                    continue
                og = A.origins(prog, g, l, scope=None, max_frames=1)
                if pred_og(og, g):
                    return True
    return False


def clause_key_package(prog, rep):
    fs = prog.find(adt="MDK", name="parse_key_package", crate="mdk_core")
    rep.floor("key-package-bound", "MDK::parse_key_package", len(fs), 1)
    for f in fs:
        must = [
            ("encoding-tag", lambda c: c.name == "from_tags" and last_seg(c.self_adt) == "ContentEncoding", "the mandatory encoding tag is looked up"),
            ("exact-decode", is_exact_decode, "the content is decoded exactly"),
            ("kp-validate", lambda c: c.name == "validate" and last_seg(c.self_adt) == "KeyPackageIn", "OpenMLS validates the package signature / lifetime"),
            ("credential-identity", lambda c: c.name == "identity" and last_seg(c.self_adt) == "BasicCredential", "the credential identity is read"),
        ]
        hr = A.ReachCache(prog, lambda c: c.name == "hash_ref" and last_seg(c.self_adt) == "KeyPackage")

        def with_parsed_package(c):
            if not hr.call(c) or (c.name == "hash_ref"):
                return False
            for a in c.args:
                if "p" in a:
                    _, _, consts = f.depends_on(a["p"][0], call_filter=lambda x: False)
                    if any(isinstance(k, dict) and k.get("variant") == "Some" for _, k in consts):
                        return True
            return False
        must.append(("hash-ref", with_parsed_package, "the tag validation is repeated with the parsed package (KeyPackageRef recomputed)"))
        for key, pred, txt in must:
            rep.check(passes(prog, f, pred), "key-package-bound", "must-pass/%s" % key, "every Ok return of parse_key_package: " + txt,
                      "parse_key_package can return Ok although not on every path %s" % txt, f.loc())
        dec = [
            ("kind-443", lambda og, g: "kind" in og.fields and any(isinstance(k, dict) and k.get("variant") == "MlsKeyPackage" for _, _, k in og.consts),
             "a wrong event kind is refused"),
            ("identity-vs-author", lambda og, g: "pubkey" in og.fields and og.has_call(lambda c: c.name == "identity" and last_seg(c.self_adt) == "BasicCredential")
             and og.has_call(lambda c: c.name in ("eq", "ne")), "credential identity != event author is refused"),
            # whole-value (in)equality of the decoded tag bytes and the computed reference: an element-wise comparison over zip()
            # only covers the shorter of the two (a prefix of the reference would be accepted)
            ("i-tag-vs-hash-ref", lambda og, g: og.has_call(lambda c: c.name == "hash_ref") and og.has_call(lambda c: c.name == "decode" and c.krate == "hex")
             and og.has_call(lambda c: c.name in ("eq", "ne") and any(("[u8" in x or "Vec<u8" in x) for x in (c.gen or []) + [c.self_ty or ""]))
             and not og.has_call(lambda c: c.name in ("zip", "starts_with", "ends_with")), "an i tag different from the computed KeyPackageRef is refused"),
            ("protocol-version", lambda og, g: any(isinstance(k, dict) and k.get("str") == "1.0" for _, _, k in og.consts) and og.has_call(lambda c: c.name in ("eq", "ne")),
             "a protocol version other than 1.0 is refused"),
            ("ciphersuite", lambda og, g: any(isinstance(k, dict) and str(k.get("item", "")).endswith("DEFAULT_CIPHERSUITE") for _, _, k in og.consts),
             "a ciphersuite tag other than DEFAULT_CIPHERSUITE is refused"),
            ("extensions", lambda og, g: any(isinstance(k, dict) and str(k.get("item", "")).endswith("TAG_EXTENSIONS") for _, _, k in og.consts)
             or (og.has_call(lambda c: c.name == "contains") and og.has_call(lambda c: c.name == "to_nostr_tag")),
             "a missing required extension is refused"),
            # the length test sits in the function that also parses the relay URLs (another tag's length check must not satisfy this)
            ("relays-nonempty", lambda og, g: og.has_call(lambda c: c.name in ("len", "is_empty")) and og.has_call(lambda c: c.name == "as_slice" and last_seg(c.self_adt) == "Tag")
             and any(x.name == "parse" and last_seg(x.self_adt) == "RelayUrl" for x in g.live_calls()),
             "an empty relays tag is refused"),
        ]
        for key, pred, txt in dec:
            rep.check(err_depends_on(prog, f, pred), "key-package-bound", "refuses/%s" % key, txt, "no error exit depends on the check that %s" % txt, f.loc())
        clause_strict_numerals(prog, rep, f)
        vg = A.variant_guard_fns(prog, "Error", "KeyPackageIdentityMismatch")
        rep.check(f.path in vg, "key-package-bound", "identity-mismatch-propagates", "KeyPackageIdentityMismatch propagates out of parse_key_package",
                  "parse_key_package no longer fails with KeyPackageIdentityMismatch", f.loc())


INT_TYPES = ("u8", "u16", "u32", "u64", "u128", "usize", "i8", "i16", "i32", "i64", "i128", "isize")


def _sign_tolerant_parse(c):
    """std's integer parsers accept a leading `+` (and `-` for signed types): `u16::from_str_radix("+00a", 16)` is 10"""
    if c.krate not in ("core", "std", "alloc"):
        return False
    if c.name == "from_str_radix":
        return True
    if c.name in ("parse", "from_str") and any(x in INT_TYPES for x in (c.gen or []) + [last_seg(c.self_ty or "")]):
        return True
    return False


def _digit_test_closures(prog, fam):
    out = set()
    for g in fam:
        if g.is_closure() and any(x.name in ("is_ascii_hexdigit", "is_ascii_digit", "is_digit") for x in g.live_calls()):
            out.add(g.path)
            # the closure that wraps it (`.filter(|h| h.chars().all(|c| c.is_ascii_hexdigit()))`)
            if g.parent:
                out.add(g.parent)
    return out


def clause_strict_numerals(prog, rep, entry):
    """a tag value that names a number (ciphersuite, extension ids) has one spelling: where the key-package validation hands a string to
    one of std's sign-tolerant integer parsers, the string was first checked to consist of digits only"""
    n = 0
    for p in sorted(prog.extent(entry)):
        g = prog.fns.get(p)
        if not g or g.crate != "mdk_core" or g.is_test_like():
            continue
        for c in g.live_calls():
            if not _sign_tolerant_parse(c):
                continue
            n += 1
            roots = A.creators(prog, g) or [g]
            root = roots[0]
            fam = [q for r_ in roots for q in prog.family(r_)]
            digit = _digit_test_closures(prog, fam)
            ok = False
            # (a) in the same chain: `.filter(|h| .. all hexdigit ..).and_then(|h| from_str_radix(h, 16))`
            hosts = [(h, x) for h in fam for x in h.live_calls() if x.name in ("filter", "take_while") and any(q.path in digit for q in A.closure_args(prog, x))]
            for a in c.args[:1]:
                if "p" in a:
                    og = A.origins(prog, g, a["p"][0], scope=set(q.path for q in fam), max_frames=3)
                    if any(og.has_call(lambda y, x=x: y is x) for _, x in hosts):
                        ok = True
            # (b) guarded: the parse runs only on the true side of `s.chars().all(|c| c.is_ascii_hexdigit())`
            for x in g.live_calls():
                if x.name == "all" and any(q.path in digit for q in A.closure_args(prog, x)):
                    te = A.bool_true_edges(g, x)
                    if te and c.bb not in A.reach_without_edges(g, 0, te):
                        ok = True
            rep.check(ok, "key-package-bound", "strict-numerals/%s" % last_seg(root.path),
                      "the string handed to %s was checked to consist of digits only" % c.name,
                      "%s hands a tag value to %s without first checking that it consists of digits only: std's integer parsers accept a leading "
                      "`+`, so one number has several accepted spellings (`0x+00a`)" % (root.label(), c.name), c.loc())
    rep.extra["sign_tolerant_parses_in_key_package_validation"] = n


def clause_welcome(prog, rep):
    fs = prog.find(adt="MDK", name="process_welcome", crate="mdk_core")
    rep.floor("welcome-bound", "MDK::process_welcome", len(fs), 1)
    for f in fs:
        for key, pred, txt in [
            ("encoding-tag", lambda c: c.name == "from_tags" and last_seg(c.self_adt) == "ContentEncoding", "the mandatory encoding tag is looked up"),
            ("exact-decode", is_exact_decode, "the welcome is decoded exactly"),
        ]:
            # only on the path that actually parses (a recorded wrapper id returns early): use the preview's extent
            prev = [t for c in f.live_calls() for t in prog.call_targets(c) if any(x.name == "build_from_welcome" for p in prog.extent(t) if p in prog.fns for x in prog.fns[p].live_calls())]
            ok = bool(prev) and all(passes(prog, t, pred) for t in prev)
            rep.check(ok, "welcome-bound", "must-pass/%s" % key, "every successful welcome preview: " + txt, "a welcome can be staged although not on every path %s" % txt, f.loc())
        dec = [
            ("kind-444", lambda og, g: "kind" in og.fields and any(isinstance(k, dict) and k.get("variant") == "MlsWelcome" for _, _, k in og.consts), "a wrong rumor kind is refused"),
            ("encoding-base64", lambda og, g: any(isinstance(k, dict) and k.get("str") == "base64" for _, _, k in og.consts), "an encoding tag other than base64 is refused"),
        ]
        for key, pred, txt in dec:
            rep.check(err_depends_on(prog, f, pred), "welcome-bound", "refuses/%s" % key, txt, "no error exit depends on the check that %s" % txt, f.loc())
        # every encoding tag is inspected: inside the validator that raises InvalidWelcomeMessage, an error exit is control-dependent both on
        # a tag being the `encoding` tag and on its value differing from "base64" (a helper that merely *finds* one valid tag is not enough:
        # a second, conflicting encoding tag would go unnoticed)
        vals = [g for g in prog.nontest_fns(("mdk_core",)) if not g.is_closure() and any(True for _ in g.aggregates("Error", "InvalidWelcomeMessage"))
                and g.path in prog.extent(f)]
        strict = False
        for g in vals:
            for eb in A.err_exit_blocks(g):
                seen_consts = set()
                for w in A.control_dependent_switches(g, eb):
                    l = A._opl(g.term(w)["discr"])
                    og = A.origins(prog, g, l, scope=None, max_frames=0)
                    seen_consts |= set(k.get("str") for _, _, k in og.consts if isinstance(k, dict) and k.get("str"))
                if {"encoding", "base64"} <= seen_consts:
                    strict = True
                # or nested: the test against "base64" that controls the exit is itself only reached for an `encoding` tag
                for w in A.control_dependent_switches(g, eb):
                    og = A.origins(prog, g, A._opl(g.term(w)["discr"]), scope=None, max_frames=0)
                    if not any(isinstance(k, dict) and k.get("str") == "base64" for _, _, k in og.consts):
                        continue
                    for w2 in A.control_dependent_switches(g, w):
                        og2 = A.origins(prog, g, A._opl(g.term(w2)["discr"]), scope=None, max_frames=0)
                        if any(isinstance(k, dict) and k.get("str") == "encoding" for _, _, k in og2.consts):
                            strict = True
        rep.check(strict, "welcome-bound", "refuses/every-encoding-tag",
                  "the welcome validator itself rejects any `encoding` tag whose value is not base64",
                  "the welcome validator no longer rejects a non-base64 `encoding` tag by itself (it only looks for one acceptable tag): a rumor "
                  "carrying conflicting encoding tags is accepted", f.loc())


def clause_extension_wiring(prog, rep):
    ext = prog.adt("NostrGroupDataExtension", crate="mdk_core")
    raw = prog.adt("TlsNostrGroupDataExtension", crate="mdk_core")
    fields = [fd["name"] for fd in ext["variants"][0]["fields"]]
    rawf = [fd["name"] for fd in raw["variants"][0]["fields"]]
    rawf_set = set(rawf)
    rep.check(sorted(RENAME.get(x, x) for x in fields) == sorted(rawf), "extension-wiring", "field-sets",
              "typed and wire structs have the same %d fields (admins<->admin_pubkeys)" % len(fields),
              "field sets differ: typed %s vs wire %s" % (fields, rawf))
    ar = prog.find(adt="NostrGroupDataExtension", name="as_raw", crate="mdk_core")
    fr = prog.find(adt="NostrGroupDataExtension", name="from_raw", crate="mdk_core")
    rep.floor("extension-wiring", "as_raw / from_raw", min(len(ar), len(fr)), 1)
    if not ar or not fr:
        return
    for f, adt_last, mapping, side in ((ar[0], "TlsNostrGroupDataExtension", {RENAME.get(x, x): x for x in fields}, "as_raw"),
                                       (fr[0], "NostrGroupDataExtension", {x: RENAME.get(x, x) for x in fields}, "from_raw")):
        aggs = [(bb, s) for bb, s in f.aggregates(adt_last) if s.get("fields")]
        rep.floor("extension-wiring", "%s aggregate" % side, len(aggs), 1)
        for bb, s in aggs[:1]:
            for dst_field, src_field in sorted(mapping.items()):
                o = A.agg_field_operand(s, dst_field)
                flds = set()
                if o and "p" in o:
                    og = A.origins(prog, f, o["p"][0], scope=None, max_frames=1)
                    flds = og.fields | set(e[1:] for e in o["p"][1:] if isinstance(e, str) and e.startswith("."))
                others = (set(mapping.values()) - {src_field}) & flds
                rep.check(src_field in flds and not (others - {"version"} if src_field != "version" else others), "extension-wiring", "%s/%s" % (side, dst_field),
                          "%s.%s <- %s" % (side, dst_field, src_field),
                          "%s wires %s from %s (expected %s): the extension does not round-trip" % (side, dst_field, sorted(flds & set(mapping.values())), src_field),
                          "%s:%s" % (f.file, s.get("line")))
    # presence of an optional field is decided by that field alone (as_raw writes it whatever the version): a None chosen on any other
    # condition (e.g. the extension version) makes from_raw(as_raw(x)) != x and skips the field's length check
    fr0 = fr[0]
    final = [(bb, s_) for bb, s_ in fr0.aggregates("NostrGroupDataExtension") if s_.get("fields")]
    for bb, s_ in final[:1]:
        for fld in sorted(OPTIONAL):
            o = A.agg_field_operand(s_, fld)
            if not o or "p" not in o:
                continue
            foreign = set()
            nsw = 0
            # where the field's value is made: `None` constructions on one side, a `Some` construction — or, through Result plumbing
            # (`helper(raw.x, err)?`, `.try_into().map(Some)`), the call that produces the present value — on the other
            none_b, some_b = set(), set()
            todo, seen_l = [o["p"][0]], set()
            PLUMB = ("branch", "map", "map_err", "ok", "ok_or", "ok_or_else", "and_then", "unwrap_or_default", "into", "from", "clone", "transpose")
            while todo:
                l = todo.pop()
                if l in seen_l:
                    continue
                seen_l.add(l)
                for dbb, kind, x in fr0.defs().get(l, []):
                    if kind == "stmt" and x.get("k") == "agg" and last_seg(x.get("adt")) == "Option":
                        (none_b if x.get("variant") == "None" else some_b).add(dbb)
                    elif kind == "stmt" and x.get("k") == "agg" and last_seg(x.get("adt")) in ("Result", "ControlFlow") and x.get("variant") in ("Ok", "Continue") and x.get("o"):
                        if "p" in x["o"][0]:
                            todo.append(x["o"][0]["p"][0])
                    elif kind == "stmt" and x.get("k") in ("use", "ref", "cast") and x["o"] and "p" in x["o"][0]:
                        todo.append(x["o"][0]["p"][0])
                    elif kind == "call" and x.dst and x.dst[0] == l:
                        if x.name in PLUMB and x.args and "p" in x.args[0]:
                            if x.name == "map" and any(isinstance(a.get("c"), dict) and "Some" in str(a["c"].get("fn") or a["c"].get("ty") or "") for a in x.args[1:]):
                                some_b.add(dbb)
                            todo.append(x.args[0]["p"][0])
                        elif x.name in ("try_into", "try_from"):
                            some_b.add(dbb)
            # the switches that decide between the None and the Some construction of this field
            for w in range(fr0.nblocks()):
                t = fr0.term(w)
                if t["k"] != "switch":
                    continue
                sides = []
                for sx in fr0.succs()[w]:
                    r = fr0.reachable_from(sx)
                    sides.append((bool(r & none_b), bool(r & some_b)))
                if not (any(n_ and not s__ for n_, s__ in sides) and any(s__ for n_, s__ in sides)):
                    continue
                dl = A._opl(t["discr"])
                if dl is None:
                    continue
                og = A.origins(prog, fr0, dl, scope=None, max_frames=0)
                rawf = set(x for x in og.fields if x in rawf_set)
                if rawf:
                    nsw += 1
                    foreign |= rawf - {fld}
            rep.check(nsw > 0 and not foreign, "extension-wiring", "presence/%s" % fld,
                      "whether %s is present depends on the wire field %s alone" % (fld, fld),
                      "whether %s is present also depends on %s: as_raw writes the field unconditionally, so the extension no longer round-trips "
                      "and the field's length check is skipped in that case" % (fld, sorted(foreign) or "no test of the field itself"), fr0.loc())
    # fixed-length conversions fail with the matching variant
    fam = prog.family(fr[0])
    built = set(s["variant"] for g in fam for bb, s in g.aggregates("Error"))
    for fld, var in sorted(OPTIONAL.items()):
        rep.check(var in built, "extension-wiring", "length/%s" % fld, "a wrong %s length fails with Error::%s" % (fld, var),
                  "from_raw no longer reports Error::%s for a wrong %s length" % (var, fld), fr[0].loc())
    rep.check("InvalidExtensionVersion" in built, "extension-wiring", "version-zero", "version 0 is refused", "version 0 is no longer refused", fr[0].loc())
    # every optional fixed-size field is produced by an exact-length conversion (`TryFrom<Vec<u8>>`/`TryFrom<&[u8]>` for `[u8; N]`
    # fail on any other length) and by no prefix-taking call (`first_chunk`, `split_at`, `truncate`, `[..N]`): a longer wire field
    # must be refused, not cut. Decided per field on the data path of the value stored in the typed struct, helpers included.
    PREFIX = ("first_chunk", "last_chunk", "split_first_chunk", "split_last_chunk", "split_at", "split_at_checked", "truncate",
              "resize", "copy_from_slice", "clone_from_slice", "take", "chunks", "chunks_exact", "array_chunks", "as_chunks")
    for bb, s_ in final[:1]:
        for fld in sorted(OPTIONAL):
            o = A.agg_field_operand(s_, fld)
            if not o or "p" not in o:
                continue
            og = A.origins(prog, fr0, o["p"][0], scope=None, max_frames=3, _follow_callers=False)
            std = [c for c in og.calls if c.krate in ("core", "alloc", "std")]
            exact = [c for c in std if c.name in ("try_into", "try_from")]
            cut = [c for c in std if c.name in PREFIX or (c.name in ("index", "get", "index_mut", "get_mut") and "Range" in str(c.gen))]
            rep.check(bool(exact) and not cut, "extension-wiring", "checked-conversions/%s" % fld,
                      "%s is produced by an exact-length conversion (%s) and by no prefix-taking call" % (fld, sorted(set(c.name for c in exact))),
                      "%s is no longer produced by an exact-length conversion alone (exact conversions on its data path: %s; prefix-taking calls: %s): "
                      "a wire field longer than the fixed size is cut and accepted instead of refused"
                      % (fld, sorted(set(c.name for c in exact)) or "none", sorted(set("%s @%s" % (c.name, c.loc()) for c in cut)) or "none"), fr0.loc())


def clause_imeta(prog, rep):
    w = prog.find(name="create_imeta_tag", crate="mdk_core")
    r = prog.find(name="parse_imeta_tag", crate="mdk_core")
    if not w and not r:
        rep.note("imeta writer/reader not compiled in this configuration (feature mip04 off)")
        return
    rep.floor("imeta-tables", "create_imeta_tag / parse_imeta_tag", min(len(w), len(r)), 1)
    if not w or not r:
        return
    wkeys = []
    for bb, pieces in w[0].fmt_templates():
        if pieces and pieces[0].endswith(" "):
            wkeys.append(pieces[0].strip())
    rkeys = set(s for _, s in r[0].str_consts() if s and " " not in s and len(s) <= 12 and s != "imeta")
    rep.floor("imeta-tables", "keys written by create_imeta_tag", len(wkeys), 6)
    rep.check(set(wkeys) <= rkeys, "imeta-tables", "written-keys-parsed", "every written key %s is understood by the parser" % sorted(set(wkeys)),
              "keys written but unknown to the parser: %s" % sorted(set(wkeys) - rkeys), w[0].loc())
    # entries are written as "<key> <value>" where the value may itself contain spaces (file names): the parser must cut each
    # entry at the FIRST space only
    g0 = r[0]
    fam0 = prog.family(g0)
    spl = [c for g_ in fam0 for c in g_.live_calls() if c.name in ("splitn", "split_once") and (c.krate in ("core", "alloc", "std"))]
    okspl = False
    for c in spl:
        ints = [a["c"]["int"] for a in c.args if "c" in a and "int" in a["c"]]
        if (c.name == "splitn" and 2 in ints and 32 in ints) or (c.name == "split_once" and 32 in ints):       # n = 2, separator ' '
            okspl = True
    bad = [c.name for g_ in fam0 for c in g_.live_calls() if c.name in ("split_whitespace", "split_ascii_whitespace", "rsplit_once", "rsplitn")]
    rep.check(okspl and not bad, "imeta-tables", "entry-split-at-first-space",
              "each entry is split with splitn(2, ' '): values containing spaces survive the round trip",
              "imeta entries are not split at the first space only (%s): a value containing a space (file name, URL) is truncated when parsed back"
              % (bad or "no splitn(2, ' ')"), g0.loc())
    # keys always written (dominating the final tag construction) = keys the parser requires
    f = w[0]
    always = set()
    ret = [b for b in f.return_blocks()]
    for bb, pieces in f.fmt_templates():
        if pieces and pieces[0].endswith(" ") and ret and all(f.dominates(bb, b) for b in ret):
            always.add(pieces[0].strip())
    g = r[0]
    # required by the parser: ok_or(InvalidImetaTag) on the Option holding the parsed key -> count the `ok_or` unwraps
    required_msgs = sorted(set(s for g_ in prog.family(g) for _, s in g_.str_consts() if s.startswith("Missing")))
    rep.check(len(always) == len(required_msgs), "imeta-tables", "required-keys",
              "keys always written %s match the %d fields the parser requires" % (sorted(always), len(required_msgs)),
              "the writer always writes %s but the parser requires %d fields: a tag produced by the library may not parse back" % (sorted(always), len(required_msgs)), f.loc())
    # version literal written is supported
    sup = prog.find(name="is_scheme_version_supported", crate="mdk_core")
    ver = [k.get("str") for pr in f.promoted for k in pr if "str" in k]
    if sup:
        svals = set(s for _, s in sup[0].str_consts())
        rep.check(bool(ver) and all(v in svals for v in ver), "imeta-tables", "version-supported", "written scheme version %s is accepted by the reader" % ver,
                  "written scheme version %s is not in the supported set %s" % (ver, sorted(svals)), f.loc())


def clause_encoding(prog, rep):
    enc = prog.adt("ContentEncoding", crate="mdk_core")
    vs = [v["name"] for v in enc["variants"]]
    rep.check(vs == ["Base64"], "encoding", "single-variant", "ContentEncoding has the single variant Base64 (no hex fallback)",
              "ContentEncoding variants are %s: more than one accepted content encoding makes parsing ambiguous" % vs)
    e = prog.find(name="encode_content", crate="mdk_core")
    d = prog.find(name="decode_content", crate="mdk_core")
    rep.floor("encoding", "encode_content / decode_content", min(len(e), len(d)), 1)
    if e and d:
        ee = set(c.resolved for c in e[0].live_calls() if c.krate == "base64")
        dd = set(c.resolved for c in d[0].live_calls() if c.krate == "base64")
        def engines(g):
            """the base64 engine constants the function refers to (operands and promoted constants): item paths, e.g. ...::STANDARD"""
            out = set()
            for bb, s_ in g.stmts():
                for o in s_.get("o", []):
                    if isinstance(o, dict) and "c" in o and "base64" in str(o["c"].get("item") or ""):
                        out.add(o["c"]["item"])
            for pr in g.promoted:
                for k in pr:
                    if "base64" in str(k.get("item") or ""):
                        out.add(k["item"])
            return out
        eng_e, eng_d = engines(e[0]), engines(d[0])
        rep.check(bool(eng_e) and bool(eng_d), "encoding", "engine-identified", "the base64 engine constant of both directions is identified (%s)" % sorted(eng_e | eng_d),
                  "cannot identify the base64 engine used by encode_content / decode_content", e[0].loc())
        rep.check(bool(ee) and bool(dd) and eng_e == eng_d, "encoding", "same-engine", "encode and decode use the same base64 engine %s" % sorted(eng_e),
                  "encode uses %s but decode uses %s" % (sorted(eng_e), sorted(eng_d)), e[0].loc())


NORMALISERS = ("trim", "trim_start", "trim_end", "trim_matches", "trim_start_matches", "trim_end_matches", "to_lowercase", "to_uppercase",
               "to_ascii_lowercase", "to_ascii_uppercase", "replace", "replacen", "strip_prefix", "strip_suffix", "split_whitespace", "lines",
               "trim_ascii", "trim_ascii_start", "trim_ascii_end")


def clause_content_verbatim(prog, rep):
    """an event's content is decoded as written: a normaliser (trim, case folding, replace ...) between the event's content and the
    base64 / hex decoder makes several distinct contents (hence distinct event ids) parse to the same object"""
    core = K.core_scope(prog)
    n = 0
    for f in prog.nontest_fns(("mdk_core",)):
        if f.name != "decode_content" and not (f.is_closure() and "::decode_content::" in f.path):
            continue
        for c in f.live_calls():
            if not (c.name == "decode" and (c.krate in ("base64", "hex") or "base64" in (c.trait or ""))):
                continue
            if len(c.args) < 1:
                continue
            a = c.args[-1]
            if "p" not in a:
                continue
            n += 1
            og = A.origins(prog, f, a["p"][0], scope=core, max_frames=3)
            bad = sorted(set(x.name for x in og.calls if x.name in NORMALISERS and x.krate in ("core", "alloc", "std")))
            rep.check(not bad, "encoding", "content-verbatim/%s" % c.krate,
                      "the decoder is given the event's content as written (no trimming / case folding on the way)",
                      "the content is normalised (%s) before it is decoded: contents that differ only in what the normaliser drops (and "
                      "therefore have different event ids) are accepted as the same object" % ", ".join(bad), c.loc())
    rep.floor("encoding", "content decoders in decode_content", n, 1)


def run(ctx, rep):
    prog = ctx.prog()
    rep.fns_analysed = len(K.core_scope(prog))
    rep.clause("C15.1 every TLS decode of external bytes is exact or remainder-checked")
    rep.clause("C15.2 parse_key_package: encoding tag, exact decode, OpenMLS validation, credential identity and hash_ref are on every Ok path; error exits depend on kind, identity-vs-author, i-tag-vs-hash_ref, protocol version, ciphersuite, extensions, relays; welcomes: kind 444, base64, exact decode")
    rep.clause("C15.3 as_raw / from_raw wire the 10 extension fields as the identity (admins<->admin_pubkeys); wrong fixed lengths fail with the matching variant; version 0 refused")
    rep.clause("C15.4 imeta keys written are parsed; keys always written = keys required; written scheme version is supported")
    rep.clause("C15.5 a single content encoding (base64), same engine for encode and decode")
    rep.not_decided = "value equality after encode->decode for arbitrary values (RelayUrl normalisation, UTF-8)"
    clause_exact_decode(prog, rep)
    clause_key_package(prog, rep)
    clause_welcome(prog, rep)
    clause_extension_wiring(prog, rep)
    clause_imeta(prog, rep)
    clause_encoding(prog, rep)
    clause_content_verbatim(prog, rep)
