"""C06 — hostile or malformed input never panics and a refused event has no effect (structural clauses)."""
import re
from ir import last_seg
import analysis as A
import common as K

LIB = ("mdk_core", "mdk_memory_storage", "mdk_sqlite_storage", "mdk_storage_traits", "mdk_uniffi")
PANIC_CALLS = {"unwrap", "expect", "unwrap_err", "expect_err"}
VEC_PANICS = {"remove", "insert", "swap_remove", "split_off", "drain", "truncate_front", "swap"}      # on Vec / VecDeque only
SLICE_PANICS = {"copy_from_slice", "clone_from_slice", "split_at", "split_at_mut", "from_slice", "chunks", "chunks_exact", "windows", "rotate_left", "rotate_right"}
# documented configuration panics (builder-time, not reachable with hostile *input*): (adt last segment, reason)
CONFIG_PANICS = {"ValidationLimits": "documented builder-time panic on a zero / absurd limit (programmer configuration, not input)",
                 "MdkMemoryStorage::with_limits": "documented: panics when the configured cache size is zero (configuration)"}
# named exceptions: (function label, callee) -> reason
NAMED = {
    ("<MdkMemoryStorage as MdkStorageProvider>::prune_expired_snapshots", "assert-overflow-Sub"): "count before retain() minus count after retain(): retain never grows the map",
    ("MdkMemoryStorage::create_group_scoped_snapshot", "expect"): "MlsCodec::serialize of a GroupId (byte-vector newtype) into a fresh Vec cannot fail",
    ("MdkMemoryStorage::restore_group_scoped_snapshot", "expect"): "same serialisation of a GroupId as in snapshot creation",
}
DECODERS = [("from_group", "NostrGroupDataExtension"), ("from_group_context", "NostrGroupDataExtension"), ("from_json", None), ("try_from", "BasicCredential")]
STATE_ADVANCING = ("merge_staged_commit", "merge_pending_commit", "store_pending_proposal")
INT_TY = re.compile(r"^(u8|u16|u32|u64|u128|usize|i8|i16|i32|i64|i128|isize)$")


def site_key(prog, f, what):
    root = prog.fns.get(f.root, f)
    return "%s/%s" % (root.label(), what)


def derives_from_params(f, local, through=("len", "count", "is_empty", "capacity")):
    """does the value depend on a parameter (or closure capture) other than through a length/count?"""
    dep, calls, _ = f.depends_on(local, call_filter=lambda c: c.name not in through)
    return any(1 <= l <= f.nargs for l in dep), calls


def dominating_compare(f, bb, locals_of_interest):
    """a switch dominating bb whose condition involves (a copy of) one of the locals — the value was range/len checked"""
    dom = f.dominators()[bb]
    for w in dom:
        t = f.term(w)
        if t["k"] != "switch" or w == bb:
            continue
        l = A._opl(t["discr"])
        if l is None:
            continue
        dep, calls, _ = f.depends_on(l)
        if dep & locals_of_interest:
            return True
    return False


def base_locals(f, local):
    """locals the value is a view of (refs / derefs / as_slice / index bases)"""
    seen = set()
    st = [local]
    while st:
        l = st.pop()
        if l in seen:
            continue
        seen.add(l)
        for bb, kind, x in f.defs().get(l, []):
            if kind == "stmt" and x.get("k") in ("use", "ref", "cast", "rawptr") and x["o"] and "p" in x["o"][0]:
                st.append(x["o"][0]["p"][0])
            elif kind == "call" and x.name in ("deref", "deref_mut", "as_slice", "as_ref", "as_mut", "borrow", "as_mut_slice", "index", "as_bytes", "to_vec", "clone", "collect", "iter", "into_iter") and x.args and "p" in x.args[0]:
                st.append(x.args[0]["p"][0])
    return seen


def upvar_len_checked(prog, f, coll_local):
    """closure body indexing a *captured* collection: the length check that guards it sits in the function that creates the closure
    (`.map_err(|_| format!("..", parts[1]))` after `if parts.len() != 2 { continue }`). The capture is a borrow or a move of the checked
    value, so the check made before the closure was created still holds when it runs."""
    if not f.is_closure():
        return False
    fields = set()
    for l in base_locals(f, coll_local):
        for bb0, kind0, x0 in f.defs().get(l, []):
            pls = [o["p"] for o in x0.get("o", []) if "p" in o] if kind0 == "stmt" else [a["p"] for a in x0.args if "p" in a]
            for pl in pls:
                if pl[0] == 1:
                    idx = [e for e in pl[1:] if isinstance(e, str) and e.startswith(".") and e[1:].isdigit()]
                    if idx:
                        fields.add(int(idx[0][1:]))
    if not fields:
        return False
    for cp in sorted(prog.redges().get(f.path, ())):
        cf = prog.fns.get(cp)
        if cf is None:
            continue
        for bb, s in cf.stmts():
            if s.get("k") == "closure" and s.get("closure") == f.path:
                ops = s.get("o", [])
                if all(n < len(ops) and "p" in ops[n] and (len_checked(cf, bb, ops[n]["p"][0]) or upvar_len_checked(prog, cf, ops[n]["p"][0])) for n in fields):
                    return True
    return False


def len_checked(f, bb, coll_local):
    """a dominating comparison on len()/is_empty() of (a view of) the same collection"""
    bases = base_locals(f, coll_local)
    dom = f.dominators()[bb]
    for w in dom:
        t = f.term(w)
        if t["k"] != "switch" or w == bb:
            continue
        l = A._opl(t["discr"])
        if l is None:
            continue
        dep, calls, _ = f.depends_on(l)
        for c in calls:
            if c.name in ("len", "is_empty") and c.args and "p" in c.args[0]:
                if base_locals(f, c.args[0]["p"][0]) & bases:
                    return True
    # slice length metadata (PtrMetadata / Len rvalues)
    for w in dom:
        t = f.term(w)
        if t["k"] == "switch":
            l = A._opl(t["discr"])
            dep, _, _ = f.depends_on(l) if l is not None else (set(), [], [])
            for d in dep:
                for b2, kind, x in f.defs().get(d, []):
                    if kind == "stmt" and x.get("k") == "unop" and x.get("op") == "PtrMetadata":
                        if x["o"] and "p" in x["o"][0] and base_locals(f, x["o"][0]["p"][0]) & bases:
                            return True
    return False


def len_eq_checked(f, bb, coll_local):
    """a dominating `len == N` / `len != N` test on (a view of) the same collection"""
    bases = base_locals(f, coll_local)
    lens = _len_locals(f, bases)
    dom = f.dominators()[bb]
    for w in dom:
        t = f.term(w)
        if t["k"] != "switch" or w == bb:
            continue
        l = A._opl(t["discr"])
        for b2, kind, x in f.defs().get(l, []) if l is not None else []:
            if kind == "stmt" and x.get("k") == "binop" and x.get("op") in ("Eq", "Ne"):
                for o in x.get("o", []):
                    if "p" in o and (o["p"][0] in lens or (f.depends_on(o["p"][0])[0] & lens)):
                        return True
            if kind == "call" and x.name in ("eq", "ne") and any("p" in a_ and ((f.depends_on(a_["p"][0])[0] | {a_["p"][0]}) & lens) for a_ in x.args):
                return True
    return False


def _len_locals(f, bases):
    """locals holding the length of (a view of) one of the base collections: len() results and PtrMetadata / Len rvalues"""
    out = set()
    for c in f.live_calls():
        if c.name == "len" and c.dst and c.args and "p" in c.args[0] and base_locals(f, c.args[0]["p"][0]) & bases:
            out.add(c.dst[0])
    for bb, x in f.stmts():
        if x.get("k") == "unop" and x.get("op") == "PtrMetadata" and x["o"] and "p" in x["o"][0] and base_locals(f, x["o"][0]["p"][0]) & bases:
            out.add(x["d"][0])
        if x.get("k") == "len" and x.get("o") and "p" in x["o"][0] and base_locals(f, x["o"][0]["p"][0]) & bases:
            out.add(x["d"][0])
    # copies
    changed = True
    while changed:
        changed = False
        for bb, x in f.stmts():
            if x.get("k") in ("use", "cast") and len(x["d"]) == 1 and x["o"] and "p" in x["o"][0] and x["o"][0]["p"] == [x["o"][0]["p"][0]] and x["o"][0]["p"][0] in out and x["d"][0] not in out:
                out.add(x["d"][0])
                changed = True
    return out


def len_lower_bound(f, bb, coll_local):
    """the least length of the collection that the dominating branch conditions guarantee at block bb (0 if nothing is known):
    `len() >= k`, `len() > k`, `len() == k`, `len() != 0`, `!is_empty()` and their mirrored / negated forms, on the edge actually taken"""
    bases = base_locals(f, coll_local)
    lens = _len_locals(f, bases)
    dom = f.dominators()[bb]
    best = 0
    for w in dom:
        t = f.term(w)
        if t["k"] != "switch" or w == bb:
            continue
        dl = A._opl(t["discr"])
        if dl is None:
            continue
        # which way did we come? the successor of w that dominates bb (or is bb)
        taken = [s_ for s_ in f.succs()[w] if s_ == bb or s_ in dom]
        if len(taken) != 1:
            continue
        tg = dict((v, b) for v, b in t["targets"])
        vals = [v for v, b in tg.items() if b == taken[0]]
        if len(vals) == 1 and t["otherwise"] != taken[0]:
            truth = vals[0] != 0
        elif not vals and t["otherwise"] == taken[0] and set(tg) == {0}:
            truth = True
        elif not vals and t["otherwise"] == taken[0] and set(tg) == {1}:
            truth = False
        else:
            continue
        # peel negations
        cur = dl
        for _ in range(4):
            ds = [x for b2, k2, x in f.defs().get(cur, []) if k2 == "stmt"]
            if len(ds) == 1 and ds[0].get("k") == "unop" and ds[0].get("op") == "Not" and "p" in ds[0]["o"][0]:
                truth = not truth
                cur = ds[0]["o"][0]["p"][0]
            elif len(ds) == 1 and ds[0].get("k") in ("use",) and "p" in ds[0]["o"][0] and len(ds[0]["o"][0]["p"]) == 1:
                cur = ds[0]["o"][0]["p"][0]
            else:
                break
        lb = None
        for b2, k2, x in f.defs().get(cur, []):
            if k2 == "stmt" and x.get("k") == "binop" and x["op"] in ("Lt", "Le", "Gt", "Ge", "Eq", "Ne") and len(x["o"]) == 2:
                a, b = x["o"]
                op = x["op"]
                if "p" in a and a["p"][0] in lens and "c" in b and "int" in b["c"]:
                    k = b["c"]["int"]
                elif "p" in b and b["p"][0] in lens and "c" in a and "int" in a["c"]:
                    k = a["c"]["int"]
                    op = {"Lt": "Gt", "Le": "Ge", "Gt": "Lt", "Ge": "Le", "Eq": "Eq", "Ne": "Ne"}[op]   # mirror: k op len  ==  len op' k
                else:
                    continue
                if not truth:
                    op = {"Lt": "Ge", "Le": "Gt", "Gt": "Le", "Ge": "Lt", "Eq": "Ne", "Ne": "Eq"}[op]
                lb = {"Ge": k, "Gt": k + 1, "Eq": k}.get(op)
                if op == "Ne" and k == 0:
                    lb = 1
            elif k2 == "call" and x.name == "is_empty" and x.args and "p" in x.args[0] and base_locals(f, x.args[0]["p"][0]) & bases:
                lb = 1 if not truth else None
            elif k2 == "call" and x.name in ("ge", "gt", "eq", "ne", "lt", "le") and len(x.args) == 2:
                pass
        if lb is not None:
            best = max(best, lb)
    return best


def classify_call(prog, f, c):
    """returns (is_site, discharge reason or None)"""
    r = c.resolved or ""
    root = prog.fns.get(f.root, f)
    label = root.label()
    if c.name in PANIC_CALLS and last_seg(c.self_adt) in ("Option", "Result"):
        if (label, c.name) in NAMED:
            return True, "named exception: " + NAMED[(label, c.name)]
        if c.args and "p" in c.args[0]:
            dep, calls, _ = f.depends_on(c.args[0]["p"][0])
            if any(x.name in ("lock", "read", "write", "get_or_init") and last_seg(x.self_adt) in ("Mutex", "RwLock", "OnceLock") for x in calls):
                return True, "lock-poison unwrap (can only follow an earlier panic)"
            if any(x.name == "duration_since" for x in calls) and any(x.name == "now" for x in calls):
                return True, "clock after UNIX_EPOCH (not input dependent)"
            frm, _ = derives_from_params(f, c.args[0]["p"][0])
            if not frm and not calls:
                return True, "constant value"
        for key, why in CONFIG_PANICS.items():
            if label.startswith(key) or last_seg(root.self_adt or "") == key:
                return True, "configuration: " + why
        return True, None
    if r.startswith("core::panicking") or r.startswith("std::rt::begin_panic") or r.startswith("core::option::expect_failed") or r.startswith("core::result::unwrap_failed"):
        for key, why in CONFIG_PANICS.items():
            if label.startswith(key) or last_seg(root.self_adt or "") == key:
                return True, "configuration: " + why
        if (root.impl_trait or "").startswith("tls_codec::"):
            return True, "derive-generated debug assertion of the wire struct serialiser (written == computed length)"
        return True, None
    if c.name in ("index", "index_mut") and last_seg(c.trait) in ("Index", "IndexMut"):
        st = c.self_ty or ""
        if "HashMap" in st or "BTreeMap" in st:
            return True, None
        if not ("Vec" in st or "VecDeque" in st or st.startswith("[") or "str" in st or "String" in st):
            return False, None
        coll = c.args[0]["p"][0] if c.args and "p" in c.args[0] else None
        idx = c.args[1] if len(c.args) > 1 else None
        if any("RangeFull" in str(x) for x in (c.gen or [])) or (idx is not None and "p" in idx and "RangeFull" in f.locals[idx["p"][0]]) \
                or (idx is not None and isinstance(idx.get("c"), dict) and "RangeFull" in str(idx["c"].get("ty", ""))):
            return True, "the whole range (`v[..]`) — cannot be out of bounds"
        if coll is not None and len_checked(f, c.bb, coll):
            return True, "index guarded by a dominating length check on the same collection"
        if coll is not None and upvar_len_checked(prog, f, coll):
            return True, "index into a captured collection; the length check dominates the creation of the closure"
        if idx is not None and "p" in idx:
            dep, calls, _ = f.depends_on(idx["p"][0])
            if any(x.name in ("position", "rposition", "binary_search", "iter_position") for x in calls) or _position_through_closures(prog, f, idx["p"][0]):
                return True, "index obtained from position() on the collection"
            if any(x.name == "min" for x in calls) and any(x.name == "len" for x in calls):
                return True, "bounds clamped with min(.., len)"
        return True, None
    if c.name in VEC_PANICS and last_seg(c.self_adt) in ("Vec", "VecDeque"):
        idx = c.args[1] if len(c.args) > 1 else None
        if idx is not None and "p" in idx:
            dep, calls, _ = f.depends_on(idx["p"][0])
            if any(x.name in ("position", "rposition") for x in calls) or _position_through_closures(prog, f, idx["p"][0]):
                return True, "index obtained from position() on the collection"
        if c.name in ("drain",):
            return False, None
        return True, None
    if c.name in SLICE_PANICS and (c.krate in ("core", "alloc", "std", "generic_array", "aead", "crypto_common", "chacha20poly1305")):
        if c.name in ("chunks", "chunks_exact", "windows"):
            a = c.args[1] if len(c.args) > 1 else None
            if a is not None and "c" in a and a["c"].get("int", 0) > 0:
                return True, "constant non-zero chunk size"
            return True, None
        # source of fixed size, or guarded by a length comparison
        on_str = c.name in ("split_at", "split_at_mut") and ((c.self_ty or "") in ("str", "&str") or "str" == (c.self_ty or "").strip("&mut ") or "::str::" in (c.resolved or ""))
        if on_str:
            # str::split_at also panics when the index is not a char boundary: a byte-length check does not rule that out, only a
            # dominating is_char_boundary / is_ascii test does
            dom = f.dominators()[c.bb]
            okb = any(x.name in ("is_char_boundary", "is_ascii") and x.bb in dom for x in f.live_calls())
            return True, ("index checked to be a char boundary" if okb else None)
        for a in c.args:
            if "p" in a:
                if c.name in ("copy_from_slice", "clone_from_slice"):
                    # panics unless both lengths are *equal*: an upper bound on the source (`len > N => Err`) is not enough
                    if len_eq_checked(f, c.bb, a["p"][0]):
                        return True, "guarded by a dominating equality test of the length"
                    continue
                if len_checked(f, c.bb, a["p"][0]):
                    return True, "guarded by a dominating length check"
                for b in base_locals(f, a["p"][0]):
                    ty = f.locals[b]
                    if re.search(r"\[u8; \d+\]", ty) and c.name == "from_slice":
                        return True, "source is a fixed-size array of the required length (%s)" % re.search(r"\[u8; \d+\]", ty).group(0)
        if c.name == "from_slice" and last_seg(c.self_adt or c.trait or "") not in ("GenericArray",) and "generic_array" not in r:
            return False, None   # fallible from_slice constructors return Result
        return True, None
    return False, None


def _position_through_closures(prog, f, local):
    """the index is what a closure of this function found with position() (`map.get_mut(id).and_then(|q| { let i = q.iter().position(..)?; Some((q, i)) })`)"""
    scope = set(g.path for g in prog.family(prog.fns.get(f.root, f)))
    og = A.origins(prog, f, local, scope=scope, max_frames=2)
    return og.has_call(lambda x: x.name in ("position", "rposition") and x.krate in ("core", "alloc", "std"))


def filter_guaranteed_len(prog, cl, coll):
    """inside a closure handed to an iterator adaptor (`.find_map(|s| .. s[1] ..)`): the least length of the item that an immediately
    upstream `.filter(|s| s.len() >= k && ..)` of the same chain guarantees (0 if there is none)"""
    if not cl.is_closure() or cl.nargs < 2 or not (base_locals(cl, coll) & {2}):
        return 0
    parent = prog.fns.get(cl.parent)
    if parent is None:
        return 0
    best = 0
    for bb, st in parent.stmts():
        if st.get("k") != "closure" or st.get("closure") != cl.path:
            continue
        fl = parent.flows_from({st["d"][0]}, through_calls=False)
        for ad in parent.live_calls():
            if not (len(ad.args) >= 2 and any("p" in a and a["p"][0] in fl for a in ad.args[1:]) and "p" in ad.args[0]):
                continue
            # the adaptor's receiver: produced (through copies) by a `filter` call?
            for l in [x for x in A.copy_sources(parent, ad.args[0]["p"][0]) if isinstance(x, int)]:
                for b2, kind, x in parent.defs().get(l, []):
                    if kind != "call" or x.name != "filter" or len(x.args) < 2 or "p" not in x.args[1]:
                        continue
                    pred = None
                    for l2 in [y for y in A.copy_sources(parent, x.args[1]["p"][0]) if isinstance(y, int)]:
                        for b3, k3, d3 in parent.defs().get(l2, []):
                            if k3 == "stmt" and d3.get("k") == "closure":
                                pred = prog.fns.get(d3.get("closure"))
                    if pred is None or pred.nargs < 2:
                        continue
                    # the predicate answers true only where its result is not the constant false: the least guaranteed length there
                    lbs = []
                    for b4, s4 in pred.stmts():
                        if s4["d"] == [0] and s4.get("o"):
                            o4 = s4["o"][0]
                            if "c" in o4 and o4["c"].get("int") == 0:
                                continue
                            lbs.append(len_lower_bound(pred, b4, 2))
                    for c4 in pred.live_calls():
                        if c4.dst == [0]:
                            lbs.append(len_lower_bound(pred, c4.bb, 2))
                    if lbs:
                        best = max(best, min(lbs))
    return best


def classify_assert(prog, f, bb, t):
    kind = t["kind"]
    if kind.startswith("other:"):
        return False, None        # compiler-inserted pointer checks in debug builds (not reachable from safe code)
    root = prog.fns.get(f.root, f)
    if (root.impl_trait or "").startswith("tls_codec::"):
        return True, "derive-generated length arithmetic of the wire struct serialiser"
    ops = [o for o in t.get("ops", []) if "p" in o]
    if kind == "bounds":
        # (len, index)
        if len(t["ops"]) == 2:
            ln, ix = t["ops"]
            if "c" in ix and "c" in ln and ix["c"].get("int", 1 << 60) < ln["c"].get("int", -1):
                return True, "constant index into a fixed-size array"
            if "p" in ln:
                # the collection whose length this is (`_len = PtrMetadata(slice)` / `Len(place)`)
                colls = set()
                for b2, kindd, x in f.defs().get(ln["p"][0], []):
                    if kindd == "stmt":
                        for o in x.get("o", []):
                            if "p" in o:
                                colls.add(o["p"][0])
                kconst = None
                if "c" in ix and "int" in ix["c"]:
                    kconst = ix["c"]["int"]
                elif "p" in ix and len(ix["p"]) == 1:
                    ds = [x for b2, k2, x in f.defs().get(ix["p"][0], []) if k2 == "stmt"]
                    if len(ds) == 1 and ds[0].get("k") == "use" and ds[0]["o"] and "c" in ds[0]["o"][0] and "int" in ds[0]["o"][0]["c"] and len(f.defs().get(ix["p"][0], [])) == 1:
                        kconst = ds[0]["o"][0]["c"]["int"]
                if kconst is not None:
                    # constant index k: the dominating conditions must guarantee len > k (an `!is_empty()` covers index 0 only)
                    k = kconst
                    for coll in colls:
                        if len_lower_bound(f, bb, coll) >= k + 1:
                            return True, "constant index %d below the length guaranteed by the dominating check" % k
                        if filter_guaranteed_len(prog, f, coll) >= k + 1:
                            return True, "constant index %d into an item that passed an upstream `.filter(|x| x.len() >= ..)` of the same iterator chain" % k
                    return True, None
                for coll in colls:
                    if len_checked(f, bb, coll):
                        return True, "index guarded by a dominating length check on the same collection"
                if "p" in ix:
                    dep, calls, _ = f.depends_on(ix["p"][0])
                    if any(x.name in ("position", "rposition") for x in calls):
                        return True, "index obtained from position() on the collection"
        return True, None
    if (root.label(), "assert-" + kind.replace(":", "-")) in NAMED:
        return True, "named exception: " + NAMED[(root.label(), "assert-" + kind.replace(":", "-"))]
    if kind.startswith("overflow") or kind in ("div0", "rem0"):
        unguarded = []
        for o in ops:
            l = o["p"][0]
            frm, calls = derives_from_params(f, l)
            ext = [c for c in calls if c.name not in ("len", "count", "min", "max", "saturating_sub", "saturating_add", "next", "into_iter", "iter", "enumerate", "deref", "clone",
                                                      "as_secs", "as_u64", "elapsed", "now", "duration_since", "capacity", "tls_serialized_len", "try_from", "from", "into")]
            if not frm and not ext and not kind.endswith("Sub"):
                continue          # counters, lengths, constants, the clock (additions of those cannot realistically overflow)
            if kind.endswith("Sub") and "c" in [k for o2 in t.get("ops", []) for k in o2] and False:
                continue
            # widening cast: value cast up from a narrower integer cannot overflow the wider arithmetic (Mul of two u32 in u64, ...)
            widened = False
            for b2, kindd, x in f.defs().get(l, []):
                if kindd == "stmt" and x.get("k") == "cast" and "IntToInt" in x.get("cast", "") and x["o"] and "p" in x["o"][0]:
                    src = f.locals[x["o"][0]["p"][0]]
                    dst = x.get("to", "")
                    bits = {"u8": 8, "u16": 16, "u32": 32, "u64": 64, "usize": 64, "i32": 32, "i64": 64, "u128": 128}
                    if bits.get(src, 99) * 2 <= bits.get(dst, 0):
                        widened = True
            if widened:
                continue
            # the operand itself (its copies), not merely a struct it was read from, took part in a dominating range check
            ints = set(x for x in base_locals(f, l) if INT_TY.match(f.locals[x].lstrip("&")))
            if ints and dominating_compare(f, bb, ints):
                continue
            unguarded.append(l)
        if not unguarded:
            return True, "operands are counters / lengths / the clock, widened, or range-checked on a dominating branch"
        return True, None
    return True, None


def clause_no_panic(prog, rep, prog_w=None):
    fns = [f for f in (prog_w or prog).nontest_fns(LIB + ("mdk_verif_witness",)) if not f.derived]
    n = 0
    control = False
    classes = {}
    for f in fns:
        # scaffolding generated by uniffi macros is outside the library's own code
        if f.crate == "mdk_uniffi" and any("uniffi" in e for e in f.expn):
            continue
        if any("refinery" in e for e in f.expn):
            continue      # `embed_migrations!` output (build-time embedded SQL), not library logic
        reach = f.reachable_from(0)
        for c in f.live_calls():
            is_site, why = classify_call(prog, f, c)
            if not is_site:
                continue
            if f.crate == "mdk_verif_witness":
                if why is None:
                    control = True
                continue
            n += 1
            inst = site_key(prog, f, "%s" % (c.name if c.name not in ("index", "index_mut") else "index<%s>" % last_seg((c.self_ty or "").split("<")[0])))
            if why:
                classes[why.split(":")[0][:40]] = classes.get(why.split(":")[0][:40], 0) + 1
                rep.ok("no-panic", inst, why, c.loc())
            else:
                rep.violation("no-panic", inst, "potential panic site (%s) reachable with caller- or peer-supplied data and not in any discharged class "
                              "(lock poison, guarded index, non-input arithmetic, documented configuration panic, named exception)" % (c.resolved), c.loc())
        for bb in sorted(reach):
            t = f.term(bb)
            if t["k"] != "assert" or f.is_cleanup(bb):
                continue
            is_site, why = classify_assert(prog, f, bb, t)
            if not is_site:
                continue
            if f.crate == "mdk_verif_witness":
                if why is None:
                    control = True
                continue
            n += 1
            inst = site_key(prog, f, "assert-%s" % t["kind"].replace(":", "-"))
            if why:
                classes[why[:40]] = classes.get(why[:40], 0) + 1
                rep.ok("no-panic", inst, why, "%s:%s" % (t.get("file"), t.get("line")))
            else:
                rep.violation("no-panic", inst, "%s check on a value derived from a parameter / decoded input with no dominating guard: the "
                              "library panics instead of returning an error" % t["kind"], "%s:%s" % (t.get("file"), t.get("line")))
    rep.floor("no-panic", "potential panic sites examined", n, 60)
    rep.extra["panic_site_classes"] = classes
    return control


def clause_unsafe(prog, rep):
    for crate in ("mdk_core", "mdk_memory_storage", "mdk_sqlite_storage", "mdk_storage_traits"):
        lvl = prog.crate_info.get(crate, {}).get("unsafe_code_level", "?")
        rep.check(lvl in ("Forbid", "Deny"), "forbid-unsafe", crate, "unsafe_code lint level at the crate root is %s" % lvl,
                  "crate %s no longer forbids/denies unsafe code (lint level %s)" % (crate, lvl))
    rep.note("mdk-uniffi is exempt from forbid(unsafe_code): the generated FFI scaffolding needs unsafe (lint level %s)" % prog.crate_info.get("mdk_uniffi", {}).get("unsafe_code_level"))


def clause_length_before_decode(prog, rep):
    core = K.core_scope(prog)
    # hex::decode of the h tag
    n = 0
    for p in sorted(core):
        f = prog.fns[p]
        for c in f.live_calls():
            if c.name in ("decode", "decode_to_slice") and c.krate == "hex" and c.args and "p" in c.args[0]:
                og = A.origins(prog, f, c.args[0]["p"][0], scope=None, max_frames=0)
                if not og.has_call(lambda x: x.name == "content" and last_seg(x.self_adt) == "Tag"):
                    # the decode may live in a helper that is handed the tag's content (`.and_then(decode_nostr_group_id_hex)`)
                    og = A.origins(prog, f, c.args[0]["p"][0], scope=core, max_frames=2)
                    if not og.has_call(lambda x: x.name == "content" and last_seg(x.self_adt) == "Tag"):
                        continue
                root = prog.fns.get(f.root, f)
                if not any(True for g in prog.family(root) for _ in g.aggregates("Error", "InvalidGroupIdFormat")):
                    continue
                n += 1
                if c.name == "decode_to_slice":
                    # decodes into a caller-provided buffer and refuses any other length before writing: nothing is allocated
                    rep.ok("length-before-decode", "h-tag/hex-decode", "the h tag is decoded into a fixed-size buffer (hex::decode_to_slice refuses other lengths; no allocation)", c.loc())
                    continue
                rep.check(len_checked(f, c.bb, c.args[0]["p"][0]), "length-before-decode", "h-tag/hex-decode",
                          "the h tag's length is checked before it is hex-decoded (no unbounded allocation)",
                          "the h tag is hex-decoded without a preceding length check", c.loc())
    rep.floor("length-before-decode", "h-tag hex decode", n, 1)
    # credential identity -> public key
    m = 0
    for p in sorted(core):
        f = prog.fns[p]
        for c in f.live_calls():
            if c.name == "from_slice" and last_seg(c.self_adt) == "PublicKey" and c.args and "p" in c.args[0]:
                dep, _, _ = f.depends_on(c.args[0]["p"][0])
                if not any(1 <= l <= f.nargs for l in dep):
                    continue
                m += 1
                rep.check(len_checked(f, c.bb, c.args[0]["p"][0]), "length-before-decode", "credential-identity/%s" % prog.fns.get(f.root, f).label(),
                          "the credential identity's length is checked (32 bytes) before it is parsed as a public key",
                          "a credential identity is parsed as a public key without a preceding length check", c.loc())
    rep.floor("length-before-decode", "credential identity parses", m, 1)


def clause_validate_then_apply(prog, rep):
    """after a state-advancing MLS call on the receive path, no fallible *input decoder* may still follow on the Ok spine"""
    core = K.core_scope(prog)
    roots = prog.find(adt="MDK", name="process_message", crate="mdk_core")
    scope = set(p for p in prog.reachable(roots) if p in core)
    dec = A.ReachCache(prog, lambda c: any(c.name == n and (a is None or last_seg(c.self_adt) == a) for n, a in DECODERS))
    n = 0
    for p in sorted(scope):
        f = prog.fns[p]
        for c in f.live_calls():
            if not K.is_mls_call(c, *STATE_ADVANCING):
                continue
            n += 1
            after = f.reachable_from(c.t["to"]) if "to" in c.t else set()
            bad = [x for x in f.live_calls() if x.bb in after and x is not c and dec.call(x) and A.call_is_checked(f, x)]
            # a decoder that runs again after the merge is harmless if the same data was already decoded, checked, from the
            # *staged* state before the merge (pre-validation success-dominates the merge)
            def is_pre_decoder(x):
                return (any(x.name == n_ and (a_ is None or last_seg(x.self_adt) == a_) for n_, a_ in DECODERS) and x.args and "p" in x.args[0]
                        and any(y.name == "group_context" and last_seg(y.self_adt) == "StagedCommit" for y in x.fn.depends_on(x.args[0]["p"][0])[1]))
            gpre = A.Guarantee(prog, is_pre_decoder)
            # directly, or inside a helper that cannot return Ok without the decode having succeeded
            pre = [x for x in f.live_calls() if x is not c and gpre.call(x)]
            if pre and A.succ_dominated(f, c.bb, pre):
                bad = [x for x in bad if not _decodes_group_data(prog, x)]
            if c.name == "merge_pending_commit":
                # own commit: the extension it installs was built locally from the typed struct (update_group_data), not decoded from a peer
                bad = [x for x in bad if not _decodes_group_data(prog, x)]
            ents = "MDK::process_message"
            # beyond decoders: no *data-dependent refusal* after the state change — an explicit `Err(..)` in a function called after the
            # merge whose condition depends on the decoded group data rejects the event when it is too late to leave the group untouched
            late = []
            for x in f.live_calls():
                if x.bb not in after or x is c:
                    continue
                for t in prog.call_targets(x):
                    if t.crate != "mdk_core":
                        continue
                    for q in sorted(prog.extent(t)):
                        g = prog.fns.get(q)
                        if not g or g.crate != "mdk_core" or g.is_test_like():
                            continue
                        explicit = set(bb2 for bb2, s2 in g.stmts() if s2.get("k") == "agg" and s2["d"] == [0] and last_seg(s2.get("adt")) == "Result" and s2.get("variant") == "Err")
                        for eb in sorted(explicit):
                            for w in A.control_dependent_switches(g, eb):
                                og = A.origins(prog, g, A._opl(g.term(w)["discr"]), scope=None, max_frames=1)
                                if og.has_call(lambda y: y.name in ("from_group", "from_group_context") and last_seg(y.self_adt) == "NostrGroupDataExtension"):
                                    late.append((x, g))
            for x, g in late[:3]:
                rep.violation("validate-then-apply", "%s/MlsGroup::%s/late-refusal/%s" % (ents, c.name, g.name),
                              "after MlsGroup::%s, %s can still refuse the event on a condition computed from the decoded group data: the event is "
                              "reported as failed although the MLS epoch already advanced" % (c.name, g.label()), g.loc())
            for x in bad:
                rep.violation("validate-then-apply", "%s/MlsGroup::%s/%s" % (ents, c.name, x.name),
                              "after MlsGroup::%s the call to %s still decodes peer-supplied data and can fail: the event is then reported as "
                              "failed although the MLS epoch already advanced (a refused event has an effect)" % (c.name, x.name), x.loc())
            if not bad and not late:
                rep.ok("validate-then-apply", "%s/MlsGroup::%s" % (ents, c.name), "no fallible input decoder follows the state change on the Ok spine", c.loc())
    rep.floor("validate-then-apply", "state-advancing MLS calls on the receive path", n, 3)
    clause_storage_bounds_after_merge(prog, rep, scope)


def _is_group_data_decode(y):
    return y.name in ("from_group", "from_group_context") and last_seg(y.self_adt) == "NostrGroupDataExtension"


def _pre_merge_bounds(prog, pre_calls):
    """{extension field: smallest integer bound} enforced by explicit refusals inside the pre-merge decoders (none today)"""
    out = {}
    for x in pre_calls:
        for t in prog.call_targets(x):
            for q in sorted(prog.extent(t)):
                g = prog.fns.get(q)
                if not g or g.crate != "mdk_core" or g.is_test_like():
                    continue
                for eb in sorted(A.err_exit_blocks(g) | set(bb for bb, st in g.stmts() if st.get("k") == "agg" and last_seg(st.get("adt")) == "Result" and st.get("variant") == "Err")):
                    for w in A.control_dependent_switches(g, eb):
                        l = A._opl(g.term(w)["discr"])
                        if l is None:
                            continue
                        og = A.origins(prog, g, l, scope={g.path}, max_frames=0, _follow_callers=False)
                        ints = [c["int"] for _, _, c in og.consts if isinstance(c, dict) and isinstance(c.get("int"), int) and c["int"] > 1 and c.get("ty") in ("usize", "u64", "u32")]
                        if not ints or not og.has_call(lambda y: y.name == "len"):
                            continue
                        for fld in og.fields:
                            out[fld] = min(out.get(fld, min(ints)), min(ints))
    return out


def clause_storage_bounds_after_merge(prog, rep, scope, rule="validate-then-apply"):
    """the storage layer refuses records it finds too large (name / description length, admin and relay counts).  The group data a peer's
    commit installs is written by the metadata sync *after* MlsGroup::merge_staged_commit: a value above the receiver's storage bound makes
    the sync fail when the MLS epoch has already advanced, so every such bound must already have been enforced before the merge"""
    import os
    import sys
    sys.path.insert(0, os.path.dirname(os.path.abspath(__file__)))
    import c16
    limits = c16.limit_defaults(prog)
    examined = 0
    seen = set()
    for p in sorted(scope):
        f = prog.fns[p]
        for c in f.live_calls():
            if not K.is_mls_call(c, "merge_staged_commit") or "to" not in c.t:
                continue
            after = f.reachable_from(c.t["to"])
            pre = [x for x in f.live_calls() if x is not c and x.bb not in after and A.ReachCache(prog, _is_group_data_decode).call(x) and A.succ_dominated(f, c.bb, [x])]
            pre_bounds = _pre_merge_bounds(prog, pre)
            for x in f.live_calls():
                if x.bb not in after or x is c:
                    continue
                for t in prog.call_targets(x):
                    if t.crate != "mdk_core":
                        continue
                    for q in sorted(prog.extent(t)):
                        g = prog.fns.get(q)
                        if not g or g.crate != "mdk_core" or g.is_test_like():
                            continue
                        for ci in g.live_calls():
                            if not ((ci.trait or "").startswith("mdk_storage_traits::") and ci.name.startswith(("save_", "replace_"))):
                                continue
                            for backend in c16.BACKENDS:
                                impls = [h for h in prog.find(name=ci.name, crate=backend) if not h.is_closure() and "mdk_storage_traits" in h.path]
                                if not impls:
                                    continue
                                refs, _ = c16.validation_refusals(prog, impls[0], limits)
                                for r in refs:
                                    for (ai, fld) in sorted(r["atoms"], key=str):
                                        if ai - 1 >= len(ci.args) or "p" not in ci.args[ai - 1]:
                                            continue
                                        src = _peer_source(prog, g, ci.args[ai - 1]["p"][0], fld)
                                        if src is None:
                                            continue
                                        key = (backend, ci.name, fld or src)
                                        if key in seen:
                                            continue
                                        seen.add(key)
                                        examined += 1
                                        inst = "MDK::process_message/MlsGroup::merge_staged_commit/storage-bound/%s/%s/%s" % (
                                            backend.replace("mdk_", "").replace("_storage", ""), ci.name, fld or src)
                                        pb = pre_bounds.get(src)
                                        rep.check(pb is not None and pb <= r["bound"][0], rule, inst,
                                                  "the decoded group data's `%s` is refused above %d before the merge; %s's bound %s (%d) cannot fire afterwards"
                                                  % (src, pb or 0, ci.name, r["bound"][1], r["bound"][0]),
                                                  "%s backend: %s refuses a record whose %s exceeds %s (%d); the value comes from the group data a peer's commit "
                                                  "installs (`%s`) and is written by %s after MlsGroup::merge_staged_commit, and nothing before the merge enforces that "
                                                  "bound: the event is reported as failed although the MLS epoch advanced, and the stored record no longer mirrors the "
                                                  "MLS state" % (backend, ci.name, fld or src, r["bound"][1], r["bound"][0], src, g.label()), ci.loc())
    rep.floor(rule, "storage bounds on peer-installed group data written after the merge", examined, 5)


def _copies_through_tuples(g, local):
    """copy chain of a local that also looks through `(a, b)` / `let (x, y) = t`: a value taken out of position j of a tuple is the
    j-th operand the tuple was built from.  Returns (locals, places) met on the way."""
    locs, places, todo = set(), [], [local]
    while todo:
        l = todo.pop()
        if l in locs:
            continue
        locs.add(l)
        for x in A.copy_sources(g, l):
            if isinstance(x, int):
                if x not in locs:
                    todo.append(x)
                continue
            places.append(x)
            idx = [e for e in x[1:] if isinstance(e, str) and e.startswith(".") and e[1:].isdigit()]
            if len(x) == 2 and idx:
                j = int(idx[0][1:])
                for tl in [y for y in A.copy_sources(g, x[0]) if isinstance(y, int)]:
                    for bb, kind, d in g.defs().get(tl, []):
                        if kind == "stmt" and d.get("k") == "tuple" and j < len(d.get("o", [])) and "p" in d["o"][j]:
                            places.append(tuple(d["o"][j]["p"]))
                            todo.append(d["o"][j]["p"][0])
    return locs, places


def _peer_source(prog, g, local, fld):
    """the NostrGroupDataExtension field a storage argument (or its field `fld`) is filled from in g, if it comes from the decoded group data"""
    cands = []
    if fld is None:
        locs, places = _copies_through_tuples(g, local)
        named = [pl for pl in places if any(isinstance(e, str) and e.startswith(".") and not e[1:].isdigit() for e in pl[1:])]
        if named:
            og = A.origins(prog, g, named[0][0], scope={g.path}, max_frames=0, _follow_callers=False)
            if og.has_call(_is_group_data_decode):
                return [e[1:] for e in named[0][1:] if isinstance(e, str) and e.startswith(".") and not e[1:].isdigit()][-1]
        cands.append(("whole", local))
    else:
        chain = _copies_through_tuples(g, local)[0]
        for bb, st in g.stmts():
            if st["d"] and st["d"][0] in chain and ("." + fld) in [e for e in st["d"][1:] if isinstance(e, str)]:
                for o in st.get("o", []):
                    if "p" in o:
                        cands.append(("store", o))
            if st.get("k") == "agg" and st.get("fields") and len(st["d"]) == 1 and st["d"][0] in chain:
                o = A.agg_field_operand(st, fld)
                if o and "p" in o:
                    cands.append(("store", o))
    for kind, x in cands:
        l = x if kind == "whole" else x["p"][0]
        og = A.origins(prog, g, l, scope={g.path}, max_frames=0, _follow_callers=False)
        if not og.has_call(_is_group_data_decode):
            continue
        names = []
        if kind == "store":
            names = [e[1:] for e in x["p"][1:] if isinstance(e, str) and e.startswith(".") and not e[1:].isdigit()]
        if not names:
            for gg, pl in og.places:
                names += [e[1:] for e in pl[1:] if isinstance(e, str) and e.startswith(".") and not e[1:].isdigit()]
        return names[-1] if names else "group-data"
    return None


def _decodes_group_data(prog, x):
    rc = A.ReachCache(prog, lambda c: c.name in ("from_group", "from_group_context") and last_seg(c.self_adt) == "NostrGroupDataExtension")
    other = A.ReachCache(prog, lambda c: (c.name == "from_json") or (c.name == "try_from" and last_seg(c.self_adt) == "BasicCredential"))
    return rc.call(x) and not other.call(x)


def clause_ignored_has_no_effect(prog, rep):
    """a result that tells the caller the event was ignored / unprocessable is only produced on paths that did not change the MLS state:
    the block building `IgnoredProposal` is not reachable from the success edge of a state-advancing MLS call (a proposal that is
    reported as ignored but was queued is committed by the next admin operation)"""
    core = K.core_scope(prog)
    roots = prog.find(adt="MDK", name="process_message", crate="mdk_core")
    scope = set(p for p in prog.reachable(roots) if p in core)
    adv = A.ReachCache(prog, lambda c: K.is_mls_call(c, *STATE_ADVANCING))
    n = 0
    for p in sorted(scope):
        f = prog.fns[p]
        for bb, st in f.aggregates("MessageProcessingResult", "IgnoredProposal"):
            n += 1
            before = []
            for c in f.live_calls():
                if not adv.call(c) or "to" not in c.t:
                    continue
                starts = set(sx for (w, sx) in A.success_edges(f, [c])) or {c.t["to"]}
                if any(bb in f.reachable_from(b) or bb == b for b in starts):
                    before.append(c)
            rep.check(not before, "refused-event-writes", "%s/ignored-proposal-not-queued" % prog.fns.get(f.root, f).label(),
                      "the IgnoredProposal answer is given only on paths that did not change the MLS group",
                      "%s answers IgnoredProposal after %s succeeded: the proposal the caller is told was ignored sits in the pending-proposal queue "
                      "and is carried out by the next commit" % (f.label(), ", ".join(sorted(set(c.name for c in before)))), "%s:%s" % (f.file, st.get("line") or f.line))
    rep.floor("refused-event-writes", "IgnoredProposal answers on the receive path", n, 1)


def clause_failure_writes(prog, rep):
    """before the MLS layer accepted the message, the only storage write on a failure path is the processed-message record"""
    pms = prog.find(adt="MDK", name="process_message", crate="mdk_core")
    for f in pms:
        mls = A.ReachCache(prog, lambda c: c.name == "process_message" and last_seg(c.self_adt) == "MlsGroup")
        stop = frozenset(c.bb for c in f.live_calls() if mls.call(c))
        early = A.reach_without_edges(f, 0, set(), stop)
        names = set()
        for c in f.live_calls():
            if c.bb not in early:
                continue
            for t in prog.call_targets(c):
                if mls.fn(t.path):
                    continue
                for q in prog.extent(t):
                    g = prog.fns.get(q)
                    if g and g.crate == "mdk_core":
                        for x in g.live_calls():
                            if (x.trait or "").startswith("mdk_storage_traits::") and x.name.startswith(("save_", "replace_", "invalidate_", "mark_", "delete_")):
                                names.add(x.name)
            if (c.trait or "").startswith("mdk_storage_traits::") and c.name.startswith(("save_", "replace_", "invalidate_", "mark_", "delete_")):
                names.add(c.name)
        allowed = {"save_processed_message", "save_group_exporter_secret"}
        rep.check(names <= allowed, "refused-event-writes", "MDK::process_message/before-mls",
                  "before the MLS layer processed the message the only writes are %s (failure record; cache of the already existing epoch secret)" % sorted(names),
                  "validation / decryption failure paths can write %s" % sorted(names - allowed), f.loc())


def run(ctx, rep):
    prog = ctx.prog()
    prog_w = ctx.prog_with_witness()
    rep.fns_analysed = len(list(prog.nontest_fns(LIB)))
    rep.clause("C06.1 NoPanic: every unwrap/expect/panic!/index/slice-op/overflow-or-bounds assert in non-test library code falls in a discharged class (lock poison, guarded index, non-input arithmetic, documented configuration panic, named exception)")
    rep.clause("C06.2 length checks dominate the h-tag hex decode and the credential-identity public-key parse")
    rep.clause("C06.3 unsafe code is forbidden in the four library crates")
    rep.clause("C06.4 validate-then-apply: no fallible input decoder follows a state-advancing MLS call on the receive path")
    rep.clause("C06.5 before the MLS layer accepted a message, failure paths write only the processed-message record")
    rep.not_decided = "state exactly unchanged for all inputs; panics inside dependencies; storage-fault paths (C12)"
    control = clause_no_panic(prog, rep, prog_w)
    rep.check(control, "positive-control", "witness-indexes-untrusted-input", "the NoPanic rule reports the witness function indexing caller bytes",
              "the positive control (bytes[3] on a caller slice) was NOT reported: the NoPanic rule is blind")
    clause_unsafe(prog, rep)
    clause_length_before_decode(prog, rep)
    clause_validate_then_apply(prog, rep)
    clause_failure_writes(prog, rep)
    # the same for invitations: once process_welcome has written, only a storage error may still make it fail (shared with C16)
    import os, sys
    sys.path.insert(0, os.path.dirname(os.path.abspath(__file__)))
    import c16
    for pw in prog.find(adt="MDK", name="process_welcome", crate="mdk_core"):
        c16.clause_no_refusal_after_write(prog, rep, pw, rule="refused-event-writes")
        c16.clause_storage_refusal_after_write(prog, rep, pw, rule="refused-event-writes")
    clause_ignored_has_no_effect(prog, rep)
