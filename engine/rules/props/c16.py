"""C16 — invitations are idempotent, consent-gated and cannot disturb existing groups (structural clauses)."""
from ir import last_seg
import analysis as A
import common as K
import predicates as P
import dtable

WRITE_PREFIXES = ("save_", "replace_", "invalidate_", "mark_", "rollback_", "release_", "create_group_snapshot", "delete_", "prune_")


def is_write(c):
    return (c.trait or "").startswith("mdk_storage_traits::") and c.name.startswith(WRITE_PREFIXES)


def clause_dedup(prog, rep, pw):
    dd = K.pure_lookup_calls(prog, pw, "find_processed_welcome_by_event_id")
    rep.floor("welcome-dedup", "dedup lookup in MDK::process_welcome", len(dd), 1)
    wr = A.ReachCache(prog, is_write)
    n = 0
    for c in pw.live_calls():
        if c in dd or not wr.call(c):
            continue
        n += 1
        rep.check(A.succ_dominated(pw, c.bb, dd), "welcome-dedup", "MDK::process_welcome/%s" % c.name,
                  "the checked dedup lookup dominates this write", "%s can run before the dedup lookup of the wrapper id" % c.name, c.loc())
    rep.floor("welcome-dedup", "writing calls in process_welcome", n, 3)
    # an already recorded welcome (Some side of the lookup) never reaches a write or the preview
    if dd:
        d = dd[0]
        some_blocks = set()
        for bb in range(pw.nblocks()):
            t = pw.term(bb)
            if t["k"] != "switch":
                continue
            l = A._opl(t["discr"])
            dep, calls, _ = pw.depends_on(l, call_filter=lambda c: c.name in ("branch", "map_err"))
            if d.dst[0] in dep and any(s.get("k") == "discr" and last_seg(s.get("adt")) == "Option" and s["d"][0] == l for b2, s in pw.stmts() if b2 == bb):
                tg = dict((v, b) for v, b in t["targets"])
                some_blocks.add(tg.get(1, t["otherwise"]))
        reach = set()
        for b in some_blocks:
            reach |= pw.reachable_from(b)
        bad = [c.name for c in pw.live_calls() if c.bb in reach and (wr.call(c) or c.name == "preview_welcome")]
        if bad or not some_blocks:
            # the lookup's outcome may travel through wrappers before it is tested (`Ok(Some(..))` of a folded helper, then `?`, then
            # `if let Some`): decide by evaluating process_welcome with the lookup answering "recorded"
            reached = _recorded_reaches(prog, pw, d, lambda c: wr.call(c) or c.name == "preview_welcome")
            if reached is not None and not reached:
                some_blocks, bad = some_blocks or {-1}, []
        rep.check(bool(some_blocks) and not bad, "welcome-dedup", "MDK::process_welcome/recorded-is-final",
                  "a wrapper id that was already recorded returns the stored welcome (or the stored failure) without writing or re-parsing",
                  "a re-delivered invitation can write again / be parsed again: %s" % bad, pw.loc())


def _recorded_reaches(prog, pw, lookup_call, is_sink):
    """symbolic evaluation of process_welcome with the dedup lookup returning Ok(Some(record)): the names of the sink calls some path
    executes ([] = none), or None when the evaluation is undecided"""
    by_callee = {}
    for g in prog.family(pw):
        for c in g.calls():
            by_callee[id(c.callee)] = c

    def hook(cal, args):
        cobj = by_callee.get(id(cal))
        if cobj is lookup_call:
            return ("variant", "Result", "Ok", (("variant", "Option", "Some", (("opaque", "record"),)),))
        if cal.get("name") == "map_err" and args and args[0][0] == "variant" and args[0][1] == "Result":
            return args[0] if args[0][2] == "Ok" else ("variant", "Result", "Err", (("opaque", "mapped"),))
        return None
    ev = dtable.Evaluator(pw, lambda v: None, lambda a, b: None, lambda bb, v, t: None, max_steps=6000, call_hook=hook, prog=prog)

    def log_pred(cal):
        cobj = by_callee.get(id(cal))
        return cobj.name if cobj is not None and cobj is not lookup_call and is_sink(cobj) else None
    ev.log_pred = log_pred
    try:
        ev.run_all({}, fork=True, max_paths=4000)
    except dtable.Undecided:
        return None
    if not ev.path_logs:
        return None
    return sorted(set(x for _, lg in ev.path_logs for x in lg))


def clause_preview_gate(prog, rep, pw):
    core = K.core_scope(prog)
    prev = [c for c in pw.live_calls() if any(_parses_welcome(prog, t) for t in prog.call_targets(c))]
    rep.floor("preview-gates-writes", "welcome preview call in process_welcome", len(prev), 1)
    for c in pw.live_calls():
        if K.is_storage_trait_call(c, "save_group", "replace_group_relays", "save_welcome"):
            rep.check(A.succ_dominated(pw, c.bb, prev), "preview-gates-writes", "MDK::process_welcome/%s" % c.name,
                      "the group / welcome record is written only after the welcome was parsed and staged successfully",
                      "%s can run although the welcome failed to parse" % c.name, c.loc())
    # failure paths of the preview write only the processed-welcome record
    for c in prev:
        for t in prog.call_targets(c):
            ext = [prog.fns[p] for p in prog.extent(t) if p in prog.fns and prog.fns[p].crate == "mdk_core"]
            names = sorted(set(x.name for g in ext for x in g.live_calls() if is_write(x)))
            rep.check(names == ["save_processed_welcome"], "preview-gates-writes", "preview/failure-writes",
                      "the preview only ever writes the processed-welcome (failure) record", "the welcome preview writes %s" % names, t.loc())
            # and that record is Failed
            states = set(s["variant"] for g in ext for bb, s in g.aggregates("ProcessedWelcomeState"))
            rep.check(states == {"Failed"}, "preview-gates-writes", "preview/failure-state", "records written by the preview are Failed",
                      "the preview writes processed-welcome states %s" % sorted(states), t.loc())


def _parses_welcome(prog, t):
    return any(x.name == "build_from_welcome" and last_seg(x.self_adt) == "StagedWelcome" for p in prog.extent(t) if p in prog.fns for x in prog.fns[p].live_calls())


def _active_cmp(g, c):
    """(polarity) for `x.state ==/!= GroupState::Active` comparisons: True if the call's result is true exactly when Active"""
    if c.name not in ("eq", "ne") or c.expn or len(c.args) != 2:
        return None
    ds = [P.describe(g, a) for a in c.args]
    if ("field", "state") in ds and ("const", "Active") in ds:
        return c.name == "eq"
    return None


def _closure_is_active_test(prog, cl):
    """does the bool closure return true exactly when its argument's state is Active (decision table over the comparison
    and every other condition it contains)?  returns polarity (True: closure true <=> Active) or None"""
    cmps = [(c, _active_cmp(cl, c)) for c in cl.live_calls()]
    cmps = [(c, p) for c, p in cmps if p is not None]
    if cl.ret != "bool" or not cmps:
        return None
    outcome = {}
    for active in (0, 1):
        def hook(cal, args, active=active):
            if cal.get("name") in ("eq", "ne") and last_seg(cal.get("trait")) == "PartialEq":
                # only the state comparison is decided; any other comparison forks
                for c, pol in cmps:
                    if c.callee is cal or (c.callee.get("path") == cal.get("path") and "GroupState" in " ".join(cal.get("gen") or [])):
                        r = active if cal.get("name") == "eq" else 1 - active
                        return ("int", r)
            return None
        ev = dtable.Evaluator(cl, lambda v: None, lambda a, b: None, lambda bb, v, t: None, call_hook=hook)
        try:
            res = ev.run_all({l: ("param", "arg%d" % l, l) for l in range(1, cl.nargs + 1)})
        except dtable.Undecided:
            return None
        outs = set(r[1] if r and r[0] == "int" else None for r in res)
        outcome[active] = outs
    if outcome.get(1) == {1} and outcome.get(0) == {0}:
        return True
    if outcome.get(1) == {0} and outcome.get(0) == {1}:
        return False
    return None


WORLDS = ("absent", "Active", "Pending", "Inactive")


def guard_by_worlds(prog, f, is_site):
    """Decide by symbolic evaluation of f, once per state of the stored record for the looked-up group id (absent / Active /
    Pending / Inactive), whether a site call can execute.  Returns {world: reached?} or None when the evaluation is undecided
    (then the structural rule decides).  The lookup is any call reaching GroupStorage::find_group_by_mls_group_id."""
    lookup = A.ReachCache(prog, lambda x: K.is_storage_trait_call(x, "find_group_by_mls_group_id"))
    out = {}
    looked = [False]
    # the evaluator hands hooks the raw callee record; map it back to the Call object (closures are evaluated too)
    by_callee = {}
    # mdk-core helpers through which f reaches a site (`self.save_pending_group(group)?`): evaluated inline, so that a guard that lives
    # inside the helper decides, and the site is the storage call itself
    direct = lambda c: (c.trait or "").startswith("mdk_storage_traits::")
    helpers = {}
    for c in f.live_calls():
        if is_site(c) and not direct(c):
            for t in prog.call_targets(c):
                if t.crate == "mdk_core" and not t.is_closure() and not t.is_test_like() and t.path != f.path:
                    helpers[t.path] = t
    roots = [f] + list(helpers.values())
    for g in [x for r in roots for x in prog.family(r)]:
        for c in g.calls():
            by_callee[id(c.callee)] = c
    WRITES = ("save_group", "replace_group_relays", "save_welcome", "save_processed_welcome")
    for world in WORLDS:
        GROUP = ("symgroup", world)

        def proj(v, e, world=world):
            if v == ("symgroup", world) and e == ".state":
                return ("variant", "GroupState", world, ())
            return None

        def classify(v):
            if v[0] == "variant" and v[1] == "GroupState":
                return v[2]
            return None

        def relation(a, b):
            return 0 if a == b else (1 if a > b else -1)

        def hook(cal, args, world=world, GROUP=GROUP):
            name = cal.get("name")
            cobj = by_callee.get(id(cal))
            if cobj is not None and lookup.call(cobj) and not A.ReachCache(prog, lambda x: K.is_storage_trait_call(x, *WRITES)).call(cobj):
                looked[0] = True
                opt = ("variant", "Option", "None", ()) if world == "absent" else ("variant", "Option", "Some", (GROUP,))
                return ("variant", "Result", "Ok", (opt,))
            if name == "is_some_and" and len(args) == 2 and args[0][0] == "variant" and args[0][1] == "Option":
                if args[0][2] == "None":
                    return ("int", 0)
                return ev._call_closure(args[1], [args[0][3][0]])
            if name in ("is_none_or",) and len(args) == 2 and args[0][0] == "variant" and args[0][1] == "Option":
                if args[0][2] == "None":
                    return ("int", 1)
                return ev._call_closure(args[1], [args[0][3][0]])
            if name == "filter" and len(args) == 2 and args[0][0] == "variant" and args[0][1] == "Option":
                # Option::filter over the looked-up record (`.filter(|g| g.state != GroupState::Active)`)
                if args[0][2] == "None":
                    return args[0]
                r = ev._call_closure(args[1], [args[0][3][0]])
                if r is not None and r[0] == "int":
                    return args[0] if r[1] else ("variant", "Option", "None", ())
                return None
            if name in ("map", "and_then") and len(args) == 2 and args[0][0] == "variant" and args[0][1] == "Option":
                # Option::map / and_then over the looked-up record (`.map(|existing| existing.state)`)
                if args[0][2] == "None":
                    return ("variant", "Option", "None", ())
                r = ev._call_closure(args[1], [args[0][3][0]])
                if name == "and_then":
                    return r
                return ("variant", "Option", "Some", (r,)) if r is not None else None
            if name in ("eq", "ne") and len(args) == 2 and all(a[0] == "variant" for a in args):
                # structural comparison of two fully known enum values (`existing_state != Some(GroupState::Active)`)
                def known(v):
                    return v[0] == "variant" and all(known(x) for x in v[3]) if v[0] == "variant" else False
                if known(args[0]) and known(args[1]):
                    same = args[0] == args[1]
                    return ("int", int(same if name == "eq" else not same))
            if name == "is_some" and args and args[0][0] == "variant" and args[0][1] == "Option":
                return ("int", int(args[0][2] == "Some"))
            if name == "is_none" and args and args[0][0] == "variant" and args[0][1] == "Option":
                return ("int", int(args[0][2] == "None"))
            return None
        ev = dtable.Evaluator(f, classify, relation, lambda bb, v, t: None, max_steps=6000, call_hook=hook, prog=prog,
                              inline=(lambda t, *a: t.path in helpers) if helpers else None)
        ev.proj_hook = proj

        def log_pred(cal):
            cobj = by_callee.get(id(cal))
            if cobj is None or not is_site(cobj):
                return None
            if not direct(cobj) and any(t.path in helpers for t in prog.call_targets(cobj)):
                return None      # inlined: the storage call inside it is the site
            return "site"
        ev.log_pred = log_pred
        try:
            ev.run_all({}, fork=True, max_paths=4000)
        except dtable.Undecided:
            return None
        out[world] = any("site" in log for _, log in ev.path_logs)
    if not looked[0]:
        return {"no-lookup": True, **out}
    return out


def state_guarded(prog, f, site_bb):
    """is the site reachable only when the record found by a lookup of the group id is NOT Active?
    (`existing.state == GroupState::Active` false side, `!=` true side, or `.is_some_and(|g| g.state == Active)` false side;
    a closure test must be exactly the Active test — extra conditions would let an Active group through)"""
    lookup = A.ReachCache(prog, lambda x: K.is_storage_trait_call(x, "find_group_by_mls_group_id"))
    cands = []   # (call, polarity: result true <=> Active)
    for c in f.live_calls():
        pol = _active_cmp(f, c)
        if pol is not None:
            cands.append((c, pol))
        for a in c.args:
            if "p" not in a:
                continue
            for bb, kind, x in f.defs().get(a["p"][0], []):
                if kind == "stmt" and x.get("k") == "closure" and x["closure"] in prog.fns and c.name in ("is_some_and", "map_or", "is_none_or"):
                    pol2 = _closure_is_active_test(prog, prog.fns[x["closure"]])
                    if pol2 is not None and c.name == "is_some_and":
                        cands.append((c, pol2))
    for c, pol in cands:
        dep_ok = False
        for a in c.args:
            if "p" in a:
                dep, calls, _ = f.depends_on(a["p"][0])
                if any(lookup.call(y) for y in calls):
                    dep_ok = True
        if not dep_ok:
            continue
        t_edges = A.bool_true_edges(f, c)
        if not t_edges:
            continue
        f_edges = set()
        for (w, s_) in t_edges:
            for s2 in f.succs()[w]:
                if s2 != s_:
                    f_edges.add((w, s2))
        not_active_edges = f_edges if pol else t_edges
        # every path to the site takes a "not Active" edge
        if site_bb not in A.reach_without_edges(f, 0, not_active_edges):
            return True
    return False


def decide_guard(prog, rep, f, is_site, sites, what, must_write=("Pending",)):
    """the site never executes when the stored record for the looked-up id is Active: decided by evaluating f once per record state;
    if the evaluation is undecided, by the structural rule (the site is only reachable over a `not Active` edge)"""
    w = guard_by_worlds(prog, f, is_site)
    if w is not None:
        rep.extra.setdefault("existing_record_worlds", {})[what] = {k: bool(v) for k, v in w.items()}
        # untouched when Active — and still written in the other states (a stale Inactive / Pending record must be refreshed,
        # otherwise the record a later accept turns Active is not the invitation's)
        return w.get("Active") is False and not w.get("no-lookup") and all(w.get(k) for k in must_write)
    rep.note("%s: symbolic evaluation undecided, structural rule used" % what)
    return all(state_guarded(prog, f, c.bb) for c in sites)


def clause_foreign_routing_id(prog, rep):
    """an invitation for a *new* MLS group id that carries the Nostr group id of a group the user already holds must not touch that
    group: storing the pending record has to collide (error) rather than overwrite — memory refuses explicitly, SQLite by keying the
    upsert on the primary key while nostr_group_id stays unique"""
    import sqlmod
    sch = sqlmod.Schema()
    ups = [s_ for s_ in sqlmod.collect(prog) if s_.stmt.kind == "INSERT" and s_.stmt.table == "groups" and s_.stmt.conflict_cols is not None
           and not (s_.fn.root and "snapshot" in s_.fn.root)]
    rep.floor("existing-group-untouched", "groups upsert (SQLite save_group)", len(ups), 1)
    for s_ in ups:
        rep.check(not s_.stmt.conflict_any and s_.stmt.conflict_cols == sch.pk("groups") and ["nostr_group_id"] in sch.tables["groups"]["unique"],
                  "existing-group-untouched", "sqlite/save_group/foreign-routing-id-collides",
                  "a pending record carrying another group's nostr_group_id is refused by the unique index (upsert keyed by mls_group_id only)",
                  "a pending record carrying another group's nostr_group_id overwrites that group's row (upsert conflict target: %s)"
                  % ("any unique index" if s_.stmt.conflict_any else s_.stmt.conflict_cols), s_.loc())
    fs = prog.find(adt="MdkMemoryStorage", name="save_group", trait="GroupStorage")
    for f in fs:
        refuses = any(True for g in prog.family(f) for _ in g.aggregates("GroupError", "InvalidParameters")) and \
            any(c.name in ("ne", "eq") for g in prog.family(f) for c in g.live_calls())
        rep.check(refuses, "existing-group-untouched", "memory/save_group/foreign-routing-id-collides",
                  "the memory backend refuses a record whose nostr_group_id belongs to a different group",
                  "the memory backend no longer refuses a nostr_group_id that belongs to a different group", f.loc())


def clause_no_refusal_after_write(prog, rep, pw, rule="preview-gates-writes", prefix="MDK::process_welcome"):
    """once process_welcome has started writing (pending group, relays, records), the only way it may still fail is a storage error:
    an input-dependent refusal after the first write (e.g. `rumor.id.ok_or(..)?`) reports failure although a Pending group was left behind"""
    wr = A.ReachCache(prog, is_write)
    writes = [c for c in pw.live_calls() if wr.call(c) and not _parses_welcome_call(prog, c)]
    if not writes:
        return
    after = set()
    for w in writes:
        if "to" in w.t:
            after |= pw.reachable_from(w.t["to"])
    late = []
    n = 0
    for c in pw.live_calls():
        if c.name != "branch" or c.bb not in after or not c.args or "p" not in c.args[0]:
            continue
        n += 1
        # what is being `?`-tested: a storage call's result (possibly through map_err) or something computed from the input
        pr = A.producers(prog, pw, c.args[0]["p"][0], scope=set(), max_frames=0)
        src = []
        todo = list(pr["calls"])
        seen = set()
        while todo:
            x = todo.pop()
            if id(x) in seen:
                continue
            seen.add(id(x))
            if x.name in ("map_err", "ok_or", "ok_or_else", "and_then", "map", "from_residual", "branch") and x.krate in ("core", "std", "alloc") and x.args and "p" in x.args[0]:
                if x.name in ("ok_or", "ok_or_else"):
                    src.append(x)
                    continue
                todo += A.producers(prog, pw, x.args[0]["p"][0], scope=set(), max_frames=0)["calls"]
            else:
                src.append(x)
        st_any = A.ReachCache(prog, lambda y: (y.trait or "").startswith("mdk_storage_traits::"))
        if src and all(wr.call(x) or (x.trait or "").startswith("mdk_storage_traits::") or
                       (st_any.call(x) and all(t.crate == "mdk_core" for t in prog.call_targets(x)) and not any(_parses_welcome(prog, t) for t in prog.call_targets(x)))
                       for x in src):
            continue
        late.append((c, sorted(set(x.name for x in src)) or ["a value computed from the input"]))
    for c, names in late[:3]:
        rep.violation(rule, "%s/refusal-after-write/%s" % (prefix, "+".join(names)),
                      "after the pending group / relays were stored the call can still be refused on %s: the invitation is reported as failed "
                      "but a Pending group stays behind" % ", ".join(names), c.loc())
    if not late:
        rep.ok(rule, "%s/refusal-after-write" % prefix, "after the first write only storage errors can make the call fail (%d `?` sites examined)" % n)
    rep.floor(rule, "`?` sites after the first write in process_welcome", n, 2)


BACKENDS = ("mdk_memory_storage", "mdk_sqlite_storage")


def _innermost(f, ws):
    for w in ws:
        if all(f.dominates(o, w) for o in ws):
            return w
    return ws[-1] if ws else None


def limit_defaults(prog):
    """default value of every configurable limit of the memory backend (the `Default for ValidationLimits` aggregate)"""
    out = {}
    for f in prog.nontest_fns(("mdk_memory_storage",)):
        if f.name != "default":
            continue
        for bb, st in f.aggregates("ValidationLimits"):
            for n, o in zip(st.get("fields") or [], st.get("o", [])):
                c = o.get("c") if isinstance(o, dict) else None
                if isinstance(c, dict) and isinstance(c.get("int"), int):
                    out[n] = c["int"]
    return out


def _describe_condition(prog, f, l, limits, first_arg=2):
    """what an input-validation refusal tests: the argument fields it reads and the bound it compares them with"""
    scope = set(g.path for g in prog.family(f))
    og = A.origins(prog, f, l, scope=scope, _follow_callers=False)
    atoms = set()
    for g, pl in og.places:
        if g.path == f.path and first_arg <= pl[0] <= f.nargs:
            fl = [e[1:] for e in pl[1:] if isinstance(e, str) and e.startswith(".") and not e[1:].isdigit()]
            atoms.add((pl[0], fl[0] if fl else None))
        elif g.path == f.path and pl[0] > f.nargs:
            # read through a reference to the argument (`(&record).name` of a helper folded into the method)
            fl = [e[1:] for e in pl[1:] if isinstance(e, str) and e.startswith(".") and not e[1:].isdigit()]
            for x in A.copy_sources(f, pl[0]):
                if isinstance(x, int) and first_arg <= x <= f.nargs and fl:
                    atoms.add((x, fl[0]))
                elif isinstance(x, tuple) and first_arg <= x[0] <= f.nargs:
                    xf = [e[1:] for e in x[1:] if isinstance(e, str) and e.startswith(".") and not e[1:].isdigit()]
                    if xf or fl:
                        atoms.add((x[0], (xf + fl)[0]))
    dep, _, _ = f.depends_on(l)
    for a in range(first_arg, f.nargs + 1):
        if a in dep and not any(x[0] == a for x in atoms):
            atoms.add((a, None))
    bounds = []
    for _, _, c in og.consts:
        if isinstance(c, dict) and isinstance(c.get("int"), int) and c["int"] > 1 and c.get("ty") in ("usize", "u64", "u32", "i64"):
            bounds.append((c["int"], last_seg(c.get("item") or "") or str(c["int"])))
    for fld in og.fields:
        if fld in limits:
            bounds.append((limits[fld], "limits." + fld))
    return atoms, bounds


def validation_refusals(prog, f, limits, depth=0, first_arg=2):
    """the places where a backend method refuses its *argument* (an InvalidParameters error whose condition compares argument data
    with a size / count bound); refusals that test stored state ("Group not found") carry no bound and are not listed"""
    out = []
    state = 0
    for bb, st in f.stmts():
        if st.get("k") == "agg" and st.get("variant") == "InvalidParameters":
            w = _innermost(f, A.control_dependent_switches(f, bb))
            l = A._opl(f.term(w)["discr"]) if w is not None else None
            if l is None:
                continue
            atoms, bounds = _describe_condition(prog, f, l, limits, first_arg)
            if not bounds or not atoms:
                state += 1
                continue
            out.append({"atoms": atoms, "bound": min(bounds), "loc": "%s:%s" % (f.file, st.get("line") or f.line)})
        if st.get("k") == "closure":
            g = prog.fns.get(st["closure"])
            if not g or not any(x.get("k") == "agg" and x.get("variant") == "InvalidParameters" for _, x in g.stmts()):
                continue
            d = st["d"][0]
            for c in f.live_calls():
                if c.name in ("map_err", "or_else") and any("p" in a and a["p"][0] == d for a in c.args[1:]) and c.args and "p" in c.args[0]:
                    atoms, bounds = _describe_condition(prog, f, c.args[0]["p"][0], limits, first_arg)
                    if not bounds or not atoms:
                        state += 1
                        continue
                    out.append({"atoms": atoms, "bound": min(bounds), "loc": c.loc()})
    # ... or by a named adaptor handed to map_err as a function item (`.map_err(into_invalid_params)`)
    for c in f.live_calls():
        if c.name not in ("map_err", "or_else") or not c.args or "p" not in c.args[0]:
            continue
        for a in c.args[1:]:
            fnp = a.get("c", {}).get("fn") if isinstance(a.get("c"), dict) else None
            g = prog.fns.get(fnp) if fnp else None
            if g is None or not any(x.get("k") == "agg" and x.get("variant") == "InvalidParameters" for _, x in g.stmts()):
                continue
            atoms, bounds = _describe_condition(prog, f, c.args[0]["p"][0], limits, first_arg)
            if not bounds or not atoms:
                state += 1
                continue
            out.append({"atoms": atoms, "bound": min(bounds), "loc": c.loc()})
    # validation moved into a helper of the same crate: its refusals count as this method's, with the helper's parameters mapped back
    if depth < 2:
        for c in f.live_calls():
            for g in prog.call_targets(c):
                if g.crate != f.crate or g.is_closure() or g.is_test_like() or g.path == f.path:
                    continue
                amap = {}
                for i, a in enumerate(c.args):
                    if "p" not in a:
                        continue
                    fl = [e[1:] for e in a["p"][1:] if isinstance(e, str) and e.startswith(".") and not e[1:].isdigit()]
                    roots = set()
                    if 2 <= a["p"][0] <= f.nargs:
                        roots.add((a["p"][0], fl[0] if fl else None))
                    for x in A.copy_sources(f, a["p"][0]):
                        if isinstance(x, int) and 2 <= x <= f.nargs:
                            roots.add((x, fl[0] if fl else None))
                        elif isinstance(x, tuple) and 2 <= x[0] <= f.nargs:
                            xf = [e[1:] for e in x[1:] if isinstance(e, str) and e.startswith(".") and not e[1:].isdigit()]
                            roots.add((x[0], xf[0] if xf else None))
                    if len(roots) == 1:
                        amap[i + 1] = list(roots)[0]
                if not amap:
                    continue
                sub, st2 = validation_refusals(prog, g, limits, depth + 1, first_arg=1)
                for r in sub:
                    atoms = set()
                    for (ai, fld) in r["atoms"]:
                        if ai in amap:
                            atoms.add((amap[ai][0], amap[ai][1] if amap[ai][1] is not None else fld))
                    if atoms:
                        out.append({"atoms": atoms, "bound": r["bound"], "loc": r["loc"]})
    return out, state


def _src_key(pw, o):
    """where process_welcome takes a value from: the named fields of the place it copies (`….nostr_group_data.name`) or the parameter"""
    if not isinstance(o, dict) or "p" not in o:
        return None
    # (only the last named field: `welcome_preview.nostr_group_data.relays` and, after destructuring, `nostr_group_data.relays` are the
    # same source)
    fl = tuple(e[1:] for e in o["p"][1:] if isinstance(e, str) and e.startswith(".") and not e[1:].isdigit())[-1:]
    if fl:
        return fl
    # walk the copy chain backwards; the first named field met is the source (`relays` of a `nostr_group_data` that was itself moved
    # out of the preview is still `relays`)
    todo, seen = [o["p"][0]], set()
    while todo:
        l = todo.pop(0)
        if l in seen:
            continue
        seen.add(l)
        if 1 <= l <= pw.nargs:
            return ("param", pw.local_name(l) or str(l))
        for bb, kind, d in pw.defs().get(l, []):
            src = None
            if kind == "stmt" and d.get("k") in ("use", "ref", "cast") and len(d["d"]) == 1 and d["o"] and "p" in d["o"][0]:
                src = d["o"][0]["p"]
            elif kind == "call" and d.name in ("clone", "deref", "borrow", "as_ref", "into", "from", "to_owned", "as_slice", "branch", "map_err", "unwrap_or_default") and d.args and "p" in d.args[0]:
                src = d.args[0]["p"]
            if src is None:
                continue
            fl = tuple(e[1:] for e in src[1:] if isinstance(e, str) and e.startswith(".") and not e[1:].isdigit())[-1:]
            if fl:
                return fl
            todo.append(src[0])
    return None


def _arg_sources(pw, c):
    """(impl argument index, field) -> source key for a storage call in process_welcome"""
    out = {}
    for i, a in enumerate(c.args):
        if i == 0 or "p" not in a:
            continue
        k = _src_key(pw, a)
        if k:
            out[(i + 1, None)] = k
        for x in A.copy_sources(pw, a["p"][0]):
            if not isinstance(x, int):
                continue
            for bb, kind, d in pw.defs().get(x, []):
                if kind == "stmt" and d.get("k") == "agg" and d.get("fields") and len(d["d"]) == 1:
                    for n, o in zip(d["fields"], d.get("o", [])):
                        k = _src_key(pw, o)
                        if k:
                            out[(i + 1, n)] = k
    return out


class _Item:
    """a storage call made by process_welcome: directly (`outer` is the call) or inside a mdk-core helper it calls (`inner`, in `fn`)"""

    def __init__(self, outer, inner, fn, srcs):
        self.outer, self.inner, self.fn, self.srcs = outer, inner, fn, srcs
        self.call = inner or outer
        self.name = self.call.name


def _storage_items(prog, pw):
    items = []
    for c in pw.live_calls():
        if "to" not in c.t:
            continue
        if (c.trait or "").startswith("mdk_storage_traits::"):
            items.append(_Item(c, None, pw, _arg_sources(pw, c)))
            continue
        for h in prog.call_targets(c):
            if h.crate != "mdk_core" or h.is_closure() or h.is_test_like() or h.path == pw.path:
                continue
            outer_srcs = None
            for ci in h.live_calls():
                if not (ci.trait or "").startswith("mdk_storage_traits::") or "to" not in ci.t:
                    continue
                if outer_srcs is None:
                    outer_srcs = _arg_sources(pw, c)
                srcs = {}
                local = _arg_sources(h, ci)
                for i, a in enumerate(ci.args):
                    if i == 0 or "p" not in a:
                        continue
                    params = [x for x in A.copy_sources(h, a["p"][0]) if isinstance(x, int) and 1 <= x <= h.nargs]
                    if len(params) == 1:
                        for (k, fld), v in outer_srcs.items():
                            if k == params[0]:
                                srcs[(i + 1, fld)] = v
                    else:
                        for (k, fld), v in local.items():
                            if k == i + 1 and v[:1] != ("param",):
                                srcs[(k, fld)] = v
                if not any(it.outer is c and it.inner is ci for it in items):
                    items.append(_Item(c, ci, h, srcs))
    return items


def _reaches(pw, x, y):
    if x.outer is not y.outer:
        # a call inside a helper is followed by the caller's later calls only if the helper can still return Ok after it
        # (the preview's failure record is followed by `return Err`)
        if x.inner is not None and not A.ok_return_reachable(x.fn, x.inner.t["to"], frozenset()):
            return False
        return y.outer.bb in pw.reachable_from(x.outer.t["to"])
    if x.inner is None or y.inner is None or x.inner is y.inner:
        return False
    return y.inner.bb in x.fn.reachable_from(x.inner.t["to"])


def _on_every_path(prog, pw, e, w, r):
    """the success of call e lies on every path from the write w to the call r"""
    if not _reaches(pw, e, r):
        return False
    if e.outer is r.outer:
        return e.inner is not None and r.inner is not None and A.succ_dominated(e.fn, r.inner.bb, [e.inner])
    if e.inner is not None and e.outer is w.outer and w.inner is not None:
        # both inside one helper, r after it: from the write, the helper cannot return Ok without e having succeeded
        cut_h = A.success_edges(e.fn, [e.inner])
        # a tail call whose result *is* the helper's return value succeeds whenever the helper does
        tail = frozenset([e.inner.bb]) if e.inner.dst and (e.inner.dst[0] == 0 or 0 in A.result_tests(e.fn, {e.inner.dst[0]})[1]) else frozenset()
        if not cut_h and not tail:
            return False
        rr = A.reach_without_edges(e.fn, w.inner.t["to"], cut_h, A.err_exit_blocks(e.fn) | tail)
        if any(e.fn.term(b)["k"] == "return" for b in rr):
            return False
    elif e.inner is not None and not A.Guarantee(prog, lambda x: x is e.inner).fn(e.fn):
        return False
    cut = A.success_edges(pw, [e.outer])
    if not cut:
        return False
    start = w.outer.t["to"] if w.outer is not e.outer else w.outer.bb
    return r.outer.bb not in A.reach_without_edges(pw, start, cut)


def clause_storage_refusal_after_write(prog, rep, pw, rule="preview-gates-writes", prefix="MDK::process_welcome"):
    """the storage layer validates what it is given (name / description length, relay and admin counts, JSON sizes) and refuses with
    InvalidParameters.  Once process_welcome stored the pending group, a later storage call may only repeat a check an earlier call
    already made on the same data with a bound at least as strict — otherwise an invitation is refused with the group left behind.
    Decided per backend from the impls of the calls (process_welcome's own and those of the mdk-core helpers it calls), with the data
    matched through the fields process_welcome copies them from."""
    limits = limit_defaults(prog)
    rep.floor(rule, "configurable limits with a default (memory backend)", len(limits), 6)
    items = _storage_items(prog, pw)
    writes = [x for x in items if is_write(x.call)]
    rep.floor(rule, "storage writes made by process_welcome (directly or through a helper)", len(writes), 4)
    first = [w for w in writes if not any(o is not w and _reaches(pw, o, w) for o in writes)]
    rep.floor(rule, "first storage write of process_welcome", len(first), 1)
    examined = 0
    for backend in BACKENDS:
        desc = {}
        for x in items:
            impls = [g for g in prog.find(name=x.name, crate=backend) if not g.is_closure() and "mdk_storage_traits" in g.path]
            if not impls:
                continue
            refs, _ = validation_refusals(prog, impls[0], limits)
            for r in refs:
                r["src"] = frozenset(x.srcs.get(a) or x.srcs.get((a[0], None)) or ("unmatched", x.name) + tuple(str(v) for v in a) for a in r["atoms"])
            desc[id(x)] = refs
        for w in first:
            for x in items:
                if x is w or not _reaches(pw, w, x):
                    continue
                earlier = [w] + [e for e in items if e is not x and e is not w and _reaches(pw, w, e) and _on_every_path(prog, pw, e, w, x)]
                groups = {}
                for r in desc.get(id(x), []):
                    examined += 1
                    groups.setdefault("+".join(sorted("/".join(v) for v in r["src"])), []).append(r)
                for what in sorted(groups):
                    inst = "%s/storage-refusal-after-write/%s/%s/%s" % (prefix, backend.replace("mdk_", "").replace("_storage", ""), x.name, what)
                    late = []
                    for r in groups[what]:
                        imp = [e for e in earlier for q in desc.get(id(e), []) if q["src"] == r["src"] and q["bound"][0] <= r["bound"][0]]
                        if not imp:
                            late.append(r)
                    if not late:
                        rep.ok(rule, inst, "%s refuses %s above %s: already refused before / at the first write (%s)"
                               % (x.name, what, ", ".join("%s (%d)" % (r["bound"][1], r["bound"][0]) for r in groups[what]),
                                  ", ".join(sorted(set(e.name for e in earlier)))), groups[what][0]["loc"])
                    else:
                        rep.violation(rule, inst,
                                      "%s backend: %s refuses an invitation whose %s exceeds %s after %s already stored the pending group, and no "
                                      "earlier call checks that value against a bound at least as strict: the call reports failure, the Pending "
                                      "group (and what was written in between) stays behind"
                                      % (backend, x.name, what, " / ".join("%s (%d)" % (r["bound"][1], r["bound"][0]) for r in late), w.name), late[0]["loc"])
    rep.floor(rule, "argument-validation refusals in storage calls after the first write (both backends)", examined, 8)


def _parses_welcome_call(prog, c):
    return any(_parses_welcome(prog, t) for t in prog.call_targets(c))


def clause_existing_group(prog, rep, pw):
    """writes keyed by the inviter-chosen group id must depend on a lookup of that id (existing Active group untouched)"""
    lookups = [c for c in pw.live_calls() if A.ReachCache(prog, lambda x: K.is_storage_trait_call(x, "find_group_by_mls_group_id")).call(c)
               and not K.is_storage_trait_call(c, "save_group")]
    n = 0
    for wname in ("save_group", "replace_group_relays"):
        wr = A.ReachCache(prog, lambda x, wname=wname: K.is_storage_trait_call(x, wname))
        sites = [c for c in pw.live_calls() if wr.call(c)]
        if not sites:
            continue
        n += 1
        c = sites[0]
        ok = decide_guard(prog, rep, pw, lambda x, wr=wr: wr.call(x), sites, "MDK::process_welcome/%s" % wname, must_write=("absent", "Pending", "Inactive"))
        rep.check(ok, "existing-group-untouched", "MDK::process_welcome/%s" % wname,
                  "the write under the inviter-chosen group id happens unless the existing record for that id is Active (absent / Pending / Inactive records are (re)written)",
                  "process_welcome upserts a Pending record (and relays) under the MLS group id found inside the welcome without looking at an "
                  "existing record: a crafted invitation for a group id the user already holds turns the Active group into Pending with "
                  "foreign data, without consent", c.loc())
    rep.floor("existing-group-untouched", "group / relay writes reachable from process_welcome", n, 2)


def clause_accept_decline(prog, rep):
    acc = prog.find(adt="MDK", name="accept_welcome", crate="mdk_core")
    dec = prog.find(adt="MDK", name="decline_welcome", crate="mdk_core")
    rep.floor("consent", "MDK::accept_welcome / decline_welcome", min(len(acc), len(dec)), 1)
    for f in acc:
        ig = [c for c in f.live_calls() if c.name == "into_group" and last_seg(c.self_adt) == "StagedWelcome"]
        rep.floor("consent", "StagedWelcome::into_group in accept_welcome", len(ig), 1)
        writes = {}
        for adt, v in P.field_const_writes(prog, f, "state") | P.field_const_writes(prog, f, "self_update_state"):
            writes.setdefault(adt, set()).add(v)
        rep.check(writes.get("GroupState") == {"Active"} and writes.get("SelfUpdateState") == {"Required"} and writes.get("WelcomeState") == {"Accepted"},
                  "consent", "accept/states", "accept writes Active + SelfUpdateState::Required + WelcomeState::Accepted",
                  "accept_welcome writes %s" % {k: sorted(v) for k, v in writes.items()}, f.loc())
        for c in f.live_calls():
            if K.is_storage_trait_call(c, "save_group"):
                rep.check(A.succ_dominated(f, c.bb, ig), "consent", "accept/active-after-join",
                          "the group becomes Active only after StagedWelcome::into_group succeeded", "Active can be stored although joining failed", c.loc())
        # joining replaces an MLS group with the same id: must not happen to an active one
        for c in ig[:1]:
            ok = decide_guard(prog, rep, f, lambda x: x.name == "into_group" and last_seg(x.self_adt) == "StagedWelcome", ig, "MDK::accept_welcome/StagedWelcome::into_group")
            rep.check(ok, "existing-group-untouched", "MDK::accept_welcome/StagedWelcome::into_group",
                      "joining depends on the state of an existing group with the same id",
                      "accept_welcome joins with replace_old_group() without looking at an existing record: accepting a crafted invitation "
                      "whose MLS group id equals that of a group the user is active in replaces that group's MLS state", c.loc())
    for f in dec:
        writes = set("%s::%s" % x for x in P.field_const_writes(prog, f, "state"))
        rep.check(writes == {"GroupState::Inactive", "WelcomeState::Declined"}, "consent", "decline/states", "decline writes Inactive + Declined",
                  "decline_welcome writes %s" % sorted(writes), f.loc())
        wr = A.ReachCache(prog, lambda x: K.is_storage_trait_call(x, "save_group"))
        sites = [c for c in f.live_calls() if wr.call(c)]
        for c in sites[:1]:
            ok = decide_guard(prog, rep, f, lambda x, wr=wr: wr.call(x), sites, "MDK::decline_welcome/save_group")
            rep.check(ok, "existing-group-untouched", "MDK::decline_welcome/save_group",
                      "marking the group Inactive depends on the state of the existing record",
                      "decline_welcome stores Inactive under the sender-chosen MLS group id whatever the existing record's state: declining a "
                      "crafted invitation disables a group the user is active in", c.loc())


def clause_pending_only(prog, rep, pw):
    vs = set()
    for g in prog.family(pw):
        for bb, s in g.aggregates("GroupState"):
            vs.add(s["variant"])
    rep.check(vs == {"Pending"} or vs == {"Pending", "Active"} and False or vs <= {"Pending"} | {"Active"} and _active_only_compared(pw), "consent", "process_welcome/state-written",
              "a received invitation creates a Pending group only", "process_welcome builds group states %s" % sorted(vs), pw.loc())


def _active_only_compared(f):
    for bb, s in f.aggregates("GroupState", "Active"):
        fl = f.flows_from({s["d"][0]}, through_calls=False)
        if not any(c.name in ("eq", "ne") and any("p" in a and a["p"][0] in fl for a in c.args) for c in f.live_calls()):
            return False
    return True


def run(ctx, rep):
    prog = ctx.prog()
    rep.fns_analysed = len(K.core_scope(prog))
    pws = prog.find(adt="MDK", name="process_welcome", crate="mdk_core")
    rep.floor("entry", "MDK::process_welcome", len(pws), 1)
    rep.clause("C16.1 the checked dedup lookup dominates every write; an already recorded wrapper id never writes or re-parses")
    rep.clause("C16.2 group / welcome records are written only after a successful preview; preview failure paths write only a Failed processed-welcome record")
    rep.clause("C16.3 writes under the inviter-chosen MLS group id depend on the state of an existing record (process_welcome) / joining depends on it (accept_welcome)")
    rep.clause("C16.4 accept writes Active + SelfUpdateState::Required only after into_group succeeded; decline writes Inactive; process_welcome creates Pending only")
    rep.not_decided = "joiner state = inviter's post-commit state (OpenMLS); ordering relative to the group's other events"
    if not pws:
        return
    pw = pws[0]
    clause_dedup(prog, rep, pw)
    clause_preview_gate(prog, rep, pw)
    clause_existing_group(prog, rep, pw)
    clause_no_refusal_after_write(prog, rep, pw)
    clause_storage_refusal_after_write(prog, rep, pw)
    clause_foreign_routing_id(prog, rep)
    clause_pending_only(prog, rep, pw)
    clause_accept_decline(prog, rep)
