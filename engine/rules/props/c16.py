"""C16 — invitations are idempotent, consent-gated and cannot disturb existing groups (structural clauses)."""
from ir import last_seg
import analysis as A
import common as K
import predicates as P
import dtable

WRITE_PREFIXES = ("save_", "replace_", "invalidate_", "mark_", "rollback_", "release_", "create_group_snapshot", "delete_", "prune_")


def is_write(c):
    return (c.trait or "").startswith("mdk_storage_traits::") and c.name.startswith(WRITE_PREFIXES)


def clause_dedup(prog, rep, pw):
    dd = K.pure_lookup_calls(prog, pw, "find_processed_welcome_by_event_id")
    rep.floor("welcome-dedup", "dedup lookup in MDK::process_welcome", len(dd), 1)
    wr = A.ReachCache(prog, is_write)
    n = 0
    for c in pw.live_calls():
        if c in dd or not wr.call(c):
            continue
        n += 1
        rep.check(A.succ_dominated(pw, c.bb, dd), "welcome-dedup", "MDK::process_welcome/%s" % c.name,
                  "the checked dedup lookup dominates this write", "%s can run before the dedup lookup of the wrapper id" % c.name, c.loc())
    rep.floor("welcome-dedup", "writing calls in process_welcome", n, 3)
    # an already recorded welcome (Some side of the lookup) never reaches a write or the preview
    if dd:
        d = dd[0]
        some_blocks = set()
        for bb in range(pw.nblocks()):
            t = pw.term(bb)
            if t["k"] != "switch":
                continue
            l = A._opl(t["discr"])
            dep, calls, _ = pw.depends_on(l, call_filter=lambda c: c.name in ("branch", "map_err"))
            if d.dst[0] in dep and any(s.get("k") == "discr" and last_seg(s.get("adt")) == "Option" and s["d"][0] == l for b2, s in pw.stmts() if b2 == bb):
                tg = dict((v, b) for v, b in t["targets"])
                some_blocks.add(tg.get(1, t["otherwise"]))
        reach = set()
        for b in some_blocks:
            reach |= pw.reachable_from(b)
        bad = [c.name for c in pw.live_calls() if c.bb in reach and (wr.call(c) or c.name == "preview_welcome")]
        rep.check(bool(some_blocks) and not bad, "welcome-dedup", "MDK::process_welcome/recorded-is-final",
                  "a wrapper id that was already recorded returns the stored welcome (or the stored failure) without writing or re-parsing",
                  "a re-delivered invitation can write again / be parsed again: %s" % bad, pw.loc())


def clause_preview_gate(prog, rep, pw):
    core = K.core_scope(prog)
    prev = [c for c in pw.live_calls() if any(_parses_welcome(prog, t) for t in prog.call_targets(c))]
    rep.floor("preview-gates-writes", "welcome preview call in process_welcome", len(prev), 1)
    for c in pw.live_calls():
        if K.is_storage_trait_call(c, "save_group", "replace_group_relays", "save_welcome"):
            rep.check(A.succ_dominated(pw, c.bb, prev), "preview-gates-writes", "MDK::process_welcome/%s" % c.name,
                      "the group / welcome record is written only after the welcome was parsed and staged successfully",
                      "%s can run although the welcome failed to parse" % c.name, c.loc())
    # failure paths of the preview write only the processed-welcome record
    for c in prev:
        for t in prog.call_targets(c):
            ext = [prog.fns[p] for p in prog.extent(t) if p in prog.fns and prog.fns[p].crate == "mdk_core"]
            names = sorted(set(x.name for g in ext for x in g.live_calls() if is_write(x)))
            rep.check(names == ["save_processed_welcome"], "preview-gates-writes", "preview/failure-writes",
                      "the preview only ever writes the processed-welcome (failure) record", "the welcome preview writes %s" % names, t.loc())
            # and that record is Failed
            states = set(s["variant"] for g in ext for bb, s in g.aggregates("ProcessedWelcomeState"))
            rep.check(states == {"Failed"}, "preview-gates-writes", "preview/failure-state", "records written by the preview are Failed",
                      "the preview writes processed-welcome states %s" % sorted(states), t.loc())


def _parses_welcome(prog, t):
    return any(x.name == "build_from_welcome" and last_seg(x.self_adt) == "StagedWelcome" for p in prog.extent(t) if p in prog.fns for x in prog.fns[p].live_calls())


def _active_cmp(g, c):
    """(polarity) for `x.state ==/!= GroupState::Active` comparisons: True if the call's result is true exactly when Active"""
    if c.name not in ("eq", "ne") or c.expn or len(c.args) != 2:
        return None
    ds = [P.describe(g, a) for a in c.args]
    if ("field", "state") in ds and ("const", "Active") in ds:
        return c.name == "eq"
    return None


def _closure_is_active_test(prog, cl):
    """does the bool closure return true exactly when its argument's state is Active (decision table over the comparison
    and every other condition it contains)?  returns polarity (True: closure true <=> Active) or None"""
    cmps = [(c, _active_cmp(cl, c)) for c in cl.live_calls()]
    cmps = [(c, p) for c, p in cmps if p is not None]
    if cl.ret != "bool" or not cmps:
        return None
    outcome = {}
    for active in (0, 1):
        def hook(cal, args, active=active):
            if cal.get("name") in ("eq", "ne") and last_seg(cal.get("trait")) == "PartialEq":
                # only the state comparison is decided; any other comparison forks
                for c, pol in cmps:
                    if c.callee is cal or (c.callee.get("path") == cal.get("path") and "GroupState" in " ".join(cal.get("gen") or [])):
                        r = active if cal.get("name") == "eq" else 1 - active
                        return ("int", r)
            return None
        ev = dtable.Evaluator(cl, lambda v: None, lambda a, b: None, lambda bb, v, t: None, call_hook=hook)
        try:
            res = ev.run_all({l: ("param", "arg%d" % l, l) for l in range(1, cl.nargs + 1)})
        except dtable.Undecided:
            return None
        outs = set(r[1] if r and r[0] == "int" else None for r in res)
        outcome[active] = outs
    if outcome.get(1) == {1} and outcome.get(0) == {0}:
        return True
    if outcome.get(1) == {0} and outcome.get(0) == {1}:
        return False
    return None


WORLDS = ("absent", "Active", "Pending", "Inactive")


def guard_by_worlds(prog, f, is_site):
    """Decide by symbolic evaluation of f, once per state of the stored record for the looked-up group id (absent / Active /
    Pending / Inactive), whether a site call can execute.  Returns {world: reached?} or None when the evaluation is undecided
    (then the structural rule decides).  The lookup is any call reaching GroupStorage::find_group_by_mls_group_id."""
    lookup = A.ReachCache(prog, lambda x: K.is_storage_trait_call(x, "find_group_by_mls_group_id"))
    out = {}
    looked = [False]
    # the evaluator hands hooks the raw callee record; map it back to the Call object (closures are evaluated too)
    by_callee = {}
    for g in [f] + [prog.fns[p_] for p_ in prog.fns if prog.fns[p_].root == f.path and prog.fns[p_] is not f]:
        for c in g.calls():
            by_callee[id(c.callee)] = c
    WRITES = ("save_group", "replace_group_relays", "save_welcome", "save_processed_welcome")
    for world in WORLDS:
        GROUP = ("symgroup", world)

        def proj(v, e, world=world):
            if v == ("symgroup", world) and e == ".state":
                return ("variant", "GroupState", world, ())
            return None

        def classify(v):
            if v[0] == "variant" and v[1] == "GroupState":
                return v[2]
            return None

        def relation(a, b):
            return 0 if a == b else (1 if a > b else -1)

        def hook(cal, args, world=world, GROUP=GROUP):
            name = cal.get("name")
            cobj = by_callee.get(id(cal))
            if cobj is not None and lookup.call(cobj) and not A.ReachCache(prog, lambda x: K.is_storage_trait_call(x, *WRITES)).call(cobj):
                looked[0] = True
                opt = ("variant", "Option", "None", ()) if world == "absent" else ("variant", "Option", "Some", (GROUP,))
                return ("variant", "Result", "Ok", (opt,))
            if name == "is_some_and" and len(args) == 2 and args[0][0] == "variant" and args[0][1] == "Option":
                if args[0][2] == "None":
                    return ("int", 0)
                return ev._call_closure(args[1], [args[0][3][0]])
            if name in ("is_none_or",) and len(args) == 2 and args[0][0] == "variant" and args[0][1] == "Option":
                if args[0][2] == "None":
                    return ("int", 1)
                return ev._call_closure(args[1], [args[0][3][0]])
            if name == "is_some" and args and args[0][0] == "variant" and args[0][1] == "Option":
                return ("int", int(args[0][2] == "Some"))
            if name == "is_none" and args and args[0][0] == "variant" and args[0][1] == "Option":
                return ("int", int(args[0][2] == "None"))
            return None
        ev = dtable.Evaluator(f, classify, relation, lambda bb, v, t: None, max_steps=6000, call_hook=hook, prog=prog)
        ev.proj_hook = proj
        ev.log_pred = lambda cal: "site" if (by_callee.get(id(cal)) is not None and is_site(by_callee[id(cal)])) else None
        try:
            ev.run_all({}, fork=True, max_paths=4000)
        except dtable.Undecided:
            return None
        out[world] = any("site" in log for _, log in ev.path_logs)
    if not looked[0]:
        return {"no-lookup": True, **out}
    return out


def state_guarded(prog, f, site_bb):
    """is the site reachable only when the record found by a lookup of the group id is NOT Active?
    (`existing.state == GroupState::Active` false side, `!=` true side, or `.is_some_and(|g| g.state == Active)` false side;
    a closure test must be exactly the Active test — extra conditions would let an Active group through)"""
    lookup = A.ReachCache(prog, lambda x: K.is_storage_trait_call(x, "find_group_by_mls_group_id"))
    cands = []   # (call, polarity: result true <=> Active)
    for c in f.live_calls():
        pol = _active_cmp(f, c)
        if pol is not None:
            cands.append((c, pol))
        for a in c.args:
            if "p" not in a:
                continue
            for bb, kind, x in f.defs().get(a["p"][0], []):
                if kind == "stmt" and x.get("k") == "closure" and x["closure"] in prog.fns and c.name in ("is_some_and", "map_or", "is_none_or"):
                    pol2 = _closure_is_active_test(prog, prog.fns[x["closure"]])
                    if pol2 is not None and c.name == "is_some_and":
                        cands.append((c, pol2))
    for c, pol in cands:
        dep_ok = False
        for a in c.args:
            if "p" in a:
                dep, calls, _ = f.depends_on(a["p"][0])
                if any(lookup.call(y) for y in calls):
                    dep_ok = True
        if not dep_ok:
            continue
        t_edges = A.bool_true_edges(f, c)
        if not t_edges:
            continue
        f_edges = set()
        for (w, s_) in t_edges:
            for s2 in f.succs()[w]:
                if s2 != s_:
                    f_edges.add((w, s2))
        not_active_edges = f_edges if pol else t_edges
        # every path to the site takes a "not Active" edge
        if site_bb not in A.reach_without_edges(f, 0, not_active_edges):
            return True
    return False


def decide_guard(prog, rep, f, is_site, sites, what, must_write=("Pending",)):
    """the site never executes when the stored record for the looked-up id is Active: decided by evaluating f once per record state;
    if the evaluation is undecided, by the structural rule (the site is only reachable over a `not Active` edge)"""
    w = guard_by_worlds(prog, f, is_site)
    if w is not None:
        rep.extra.setdefault("existing_record_worlds", {})[what] = {k: bool(v) for k, v in w.items()}
        # untouched when Active — and still written in the other states (a stale Inactive / Pending record must be refreshed,
        # otherwise the record a later accept turns Active is not the invitation's)
        return w.get("Active") is False and not w.get("no-lookup") and all(w.get(k) for k in must_write)
    rep.note("%s: symbolic evaluation undecided, structural rule used" % what)
    return all(state_guarded(prog, f, c.bb) for c in sites)


def clause_foreign_routing_id(prog, rep):
    """an invitation for a *new* MLS group id that carries the Nostr group id of a group the user already holds must not touch that
    group: storing the pending record has to collide (error) rather than overwrite — memory refuses explicitly, SQLite by keying the
    upsert on the primary key while nostr_group_id stays unique"""
    import sqlmod
    sch = sqlmod.Schema()
    ups = [s_ for s_ in sqlmod.collect(prog) if s_.stmt.kind == "INSERT" and s_.stmt.table == "groups" and s_.stmt.conflict_cols is not None
           and not (s_.fn.root and "snapshot" in s_.fn.root)]
    rep.floor("existing-group-untouched", "groups upsert (SQLite save_group)", len(ups), 1)
    for s_ in ups:
        rep.check(not s_.stmt.conflict_any and s_.stmt.conflict_cols == sch.pk("groups") and ["nostr_group_id"] in sch.tables["groups"]["unique"],
                  "existing-group-untouched", "sqlite/save_group/foreign-routing-id-collides",
                  "a pending record carrying another group's nostr_group_id is refused by the unique index (upsert keyed by mls_group_id only)",
                  "a pending record carrying another group's nostr_group_id overwrites that group's row (upsert conflict target: %s)"
                  % ("any unique index" if s_.stmt.conflict_any else s_.stmt.conflict_cols), s_.loc())
    fs = prog.find(adt="MdkMemoryStorage", name="save_group", trait="GroupStorage")
    for f in fs:
        refuses = any(True for _ in f.aggregates("GroupError", "InvalidParameters")) and any(c.name in ("ne", "eq") for c in f.live_calls())
        rep.check(refuses, "existing-group-untouched", "memory/save_group/foreign-routing-id-collides",
                  "the memory backend refuses a record whose nostr_group_id belongs to a different group",
                  "the memory backend no longer refuses a nostr_group_id that belongs to a different group", f.loc())


def clause_no_refusal_after_write(prog, rep, pw, rule="preview-gates-writes", prefix="MDK::process_welcome"):
    """once process_welcome has started writing (pending group, relays, records), the only way it may still fail is a storage error:
    an input-dependent refusal after the first write (e.g. `rumor.id.ok_or(..)?`) reports failure although a Pending group was left behind"""
    wr = A.ReachCache(prog, is_write)
    writes = [c for c in pw.live_calls() if wr.call(c) and not _parses_welcome_call(prog, c)]
    if not writes:
        return
    after = set()
    for w in writes:
        if "to" in w.t:
            after |= pw.reachable_from(w.t["to"])
    late = []
    n = 0
    for c in pw.live_calls():
        if c.name != "branch" or c.bb not in after or not c.args or "p" not in c.args[0]:
            continue
        n += 1
        # what is being `?`-tested: a storage call's result (possibly through map_err) or something computed from the input
        pr = A.producers(prog, pw, c.args[0]["p"][0], scope=set(), max_frames=0)
        src = []
        todo = list(pr["calls"])
        seen = set()
        while todo:
            x = todo.pop()
            if id(x) in seen:
                continue
            seen.add(id(x))
            if x.name in ("map_err", "ok_or", "ok_or_else", "and_then", "map") and x.krate in ("core", "std", "alloc") and x.args and "p" in x.args[0]:
                if x.name in ("ok_or", "ok_or_else"):
                    src.append(x)
                    continue
                todo += A.producers(prog, pw, x.args[0]["p"][0], scope=set(), max_frames=0)["calls"]
            else:
                src.append(x)
        if src and all(wr.call(x) or (x.trait or "").startswith("mdk_storage_traits::") for x in src):
            continue
        late.append((c, sorted(set(x.name for x in src)) or ["a value computed from the input"]))
    for c, names in late[:3]:
        rep.violation(rule, "%s/refusal-after-write/%s" % (prefix, "+".join(names)),
                      "after the pending group / relays were stored the call can still be refused on %s: the invitation is reported as failed "
                      "but a Pending group stays behind" % ", ".join(names), c.loc())
    if not late:
        rep.ok(rule, "%s/refusal-after-write" % prefix, "after the first write only storage errors can make the call fail (%d `?` sites examined)" % n)
    rep.floor(rule, "`?` sites after the first write in process_welcome", n, 2)


def _parses_welcome_call(prog, c):
    return any(_parses_welcome(prog, t) for t in prog.call_targets(c))


def clause_existing_group(prog, rep, pw):
    """writes keyed by the inviter-chosen group id must depend on a lookup of that id (existing Active group untouched)"""
    lookups = [c for c in pw.live_calls() if A.ReachCache(prog, lambda x: K.is_storage_trait_call(x, "find_group_by_mls_group_id")).call(c)
               and not K.is_storage_trait_call(c, "save_group")]
    n = 0
    for wname in ("save_group", "replace_group_relays"):
        wr = A.ReachCache(prog, lambda x, wname=wname: K.is_storage_trait_call(x, wname))
        sites = [c for c in pw.live_calls() if wr.call(c)]
        if not sites:
            continue
        n += 1
        c = sites[0]
        ok = decide_guard(prog, rep, pw, lambda x, wr=wr: wr.call(x), sites, "MDK::process_welcome/%s" % wname, must_write=("absent", "Pending", "Inactive"))
        rep.check(ok, "existing-group-untouched", "MDK::process_welcome/%s" % wname,
                  "the write under the inviter-chosen group id happens unless the existing record for that id is Active (absent / Pending / Inactive records are (re)written)",
                  "process_welcome upserts a Pending record (and relays) under the MLS group id found inside the welcome without looking at an "
                  "existing record: a crafted invitation for a group id the user already holds turns the Active group into Pending with "
                  "foreign data, without consent", c.loc())
    rep.floor("existing-group-untouched", "group / relay writes reachable from process_welcome", n, 2)


def clause_accept_decline(prog, rep):
    acc = prog.find(adt="MDK", name="accept_welcome", crate="mdk_core")
    dec = prog.find(adt="MDK", name="decline_welcome", crate="mdk_core")
    rep.floor("consent", "MDK::accept_welcome / decline_welcome", min(len(acc), len(dec)), 1)
    for f in acc:
        ig = [c for c in f.live_calls() if c.name == "into_group" and last_seg(c.self_adt) == "StagedWelcome"]
        rep.floor("consent", "StagedWelcome::into_group in accept_welcome", len(ig), 1)
        writes = {}
        for adt, v in P.field_const_writes(prog, f, "state") | P.field_const_writes(prog, f, "self_update_state"):
            writes.setdefault(adt, set()).add(v)
        rep.check(writes.get("GroupState") == {"Active"} and writes.get("SelfUpdateState") == {"Required"} and writes.get("WelcomeState") == {"Accepted"},
                  "consent", "accept/states", "accept writes Active + SelfUpdateState::Required + WelcomeState::Accepted",
                  "accept_welcome writes %s" % {k: sorted(v) for k, v in writes.items()}, f.loc())
        for c in f.live_calls():
            if K.is_storage_trait_call(c, "save_group"):
                rep.check(A.succ_dominated(f, c.bb, ig), "consent", "accept/active-after-join",
                          "the group becomes Active only after StagedWelcome::into_group succeeded", "Active can be stored although joining failed", c.loc())
        # joining replaces an MLS group with the same id: must not happen to an active one
        for c in ig[:1]:
            ok = decide_guard(prog, rep, f, lambda x: x.name == "into_group" and last_seg(x.self_adt) == "StagedWelcome", ig, "MDK::accept_welcome/StagedWelcome::into_group")
            rep.check(ok, "existing-group-untouched", "MDK::accept_welcome/StagedWelcome::into_group",
                      "joining depends on the state of an existing group with the same id",
                      "accept_welcome joins with replace_old_group() without looking at an existing record: accepting a crafted invitation "
                      "whose MLS group id equals that of a group the user is active in replaces that group's MLS state", c.loc())
    for f in dec:
        writes = set("%s::%s" % x for x in P.field_const_writes(prog, f, "state"))
        rep.check(writes == {"GroupState::Inactive", "WelcomeState::Declined"}, "consent", "decline/states", "decline writes Inactive + Declined",
                  "decline_welcome writes %s" % sorted(writes), f.loc())
        wr = A.ReachCache(prog, lambda x: K.is_storage_trait_call(x, "save_group"))
        sites = [c for c in f.live_calls() if wr.call(c)]
        for c in sites[:1]:
            ok = decide_guard(prog, rep, f, lambda x, wr=wr: wr.call(x), sites, "MDK::decline_welcome/save_group")
            rep.check(ok, "existing-group-untouched", "MDK::decline_welcome/save_group",
                      "marking the group Inactive depends on the state of the existing record",
                      "decline_welcome stores Inactive under the sender-chosen MLS group id whatever the existing record's state: declining a "
                      "crafted invitation disables a group the user is active in", c.loc())


def clause_pending_only(prog, rep, pw):
    vs = set()
    for g in [pw] + [prog.fns[p] for p in prog.extent(pw) if p in prog.fns and prog.fns[p].root == pw.path]:
        for bb, s in g.aggregates("GroupState"):
            vs.add(s["variant"])
    rep.check(vs == {"Pending"} or vs == {"Pending", "Active"} and False or vs <= {"Pending"} | {"Active"} and _active_only_compared(pw), "consent", "process_welcome/state-written",
              "a received invitation creates a Pending group only", "process_welcome builds group states %s" % sorted(vs), pw.loc())


def _active_only_compared(f):
    for bb, s in f.aggregates("GroupState", "Active"):
        fl = f.flows_from({s["d"][0]}, through_calls=False)
        if not any(c.name in ("eq", "ne") and any("p" in a and a["p"][0] in fl for a in c.args) for c in f.live_calls()):
            return False
    return True


def run(ctx, rep):
    prog = ctx.prog()
    rep.fns_analysed = len(K.core_scope(prog))
    pws = prog.find(adt="MDK", name="process_welcome", crate="mdk_core")
    rep.floor("entry", "MDK::process_welcome", len(pws), 1)
    rep.clause("C16.1 the checked dedup lookup dominates every write; an already recorded wrapper id never writes or re-parses")
    rep.clause("C16.2 group / welcome records are written only after a successful preview; preview failure paths write only a Failed processed-welcome record")
    rep.clause("C16.3 writes under the inviter-chosen MLS group id depend on the state of an existing record (process_welcome) / joining depends on it (accept_welcome)")
    rep.clause("C16.4 accept writes Active + SelfUpdateState::Required only after into_group succeeded; decline writes Inactive; process_welcome creates Pending only")
    rep.not_decided = "joiner state = inviter's post-commit state (OpenMLS); ordering relative to the group's other events"
    if not pws:
        return
    pw = pws[0]
    clause_dedup(prog, rep, pw)
    clause_preview_gate(prog, rep, pw)
    clause_existing_group(prog, rep, pw)
    clause_no_refusal_after_write(prog, rep, pw)
    clause_foreign_routing_id(prog, rep)
    clause_pending_only(prog, rep, pw)
    clause_accept_decline(prog, rep)
