"""C10 — memory and SQLite backends are the same store: static sibling cross-check of the two implementations."""
from ir import last_seg
import analysis as A
import sqlmod
import tables
import predicates as P
import dtable
import sqlrules
from sqlrules import STATE_ENUM
import sys
import os
sys.path.insert(0, os.path.dirname(os.path.abspath(__file__)))
import c18  # noqa: E402  (shared ordering / pagination clauses)
import c09  # noqa: E402  (shared: group snapshot filters select by the group id alone)

TABLE_CACHES = {
    "groups": {"groups_cache", "groups_by_nostr_id_cache"}, "group_relays": {"group_relays_cache"},
    "group_exporter_secrets": {"group_exporter_secrets_cache"}, "messages": {"messages_cache", "messages_by_group_cache"},
    "processed_messages": {"processed_messages_cache"}, "welcomes": {"welcomes_cache"},
    "processed_welcomes": {"processed_welcomes_cache"},
}
MAPPER_TABLE = {"Group": "groups", "GroupRelay": "group_relays", "GroupExporterSecret": "group_exporter_secrets", "Message": "messages",
                "ProcessedMessage": "processed_messages", "Welcome": "welcomes", "ProcessedWelcome": "processed_welcomes"}


def clause_enum_tables(prog, rep, sites):
    as_strs = {}
    for enum in sorted(set(STATE_ENUM.values()) | {"GroupDataType"}):
        try:
            t, f = tables.as_str_table(prog, enum)
        except (LookupError, dtable.Undecided) as e:
            rep.violation("enum-string-tables", "%s::as_str" % enum, "cannot extract the variant->string table: %s" % e)
            continue
        as_strs[enum] = t
        inj = len(set(t.values())) == len(t)
        rep.check(inj, "enum-string-tables", "%s::as_str" % enum, "injective on %d variants: %s" % (len(t), t),
                  "two variants of %s share a stored string: %s" % (enum, t), f.loc())
        if enum == "GroupDataType":
            continue
        try:
            inv, g = tables.from_str_table(prog, enum, list(t.values()))
        except LookupError as e:
            rep.violation("enum-string-tables", "%s::from_str" % enum, str(e))
            continue
        bad = {s: v for s, v in inv.items() if t.get(v) != s}
        rep.check(not bad, "enum-string-tables", "%s::from_str" % enum, "from_str is the inverse of as_str on every variant",
                  "from_str(as_str(v)) != v for %s" % bad, g.loc())
    # SQL literals on `state` columns are images of the right enum
    n = 0
    for s in sites:
        t = s.stmt.table
        if t not in STATE_ENUM:
            continue
        lits = [r.strip("'") for c, o, r in s.stmt.where if c == "state" and r.startswith("'")] + \
               [v for c, v in s.stmt.set_literals.items() if c == "state"]
        for lit in lits:
            n += 1
            img = set(as_strs.get(STATE_ENUM[t], {}).values())
            rep.check(lit in img, "enum-string-tables", "sql-literal/%s.state='%s'" % (t, lit),
                      "literal is the stored form of a %s variant" % STATE_ENUM[t],
                      "SQL literal '%s' on %s.state is not the stored form of any %s variant %s" % (lit, t, STATE_ENUM[t], sorted(img)), s.loc())
    rep.floor("enum-string-tables", "state literals in SQL", n, 6)
    return as_strs


def clause_group_data_types(prog, rep, sch, as_strs):
    chk = sch.check_enum("openmls_group_data", "data_type")
    img = sorted(as_strs.get("GroupDataType", {}).values())
    rep.check(chk is not None and sorted(chk) == img, "group-data-types", "schema-check-list",
              "CHECK (data_type IN ...) = GroupDataType::as_str image (%d values)" % len(img),
              "schema CHECK list %s differs from GroupDataType::as_str %s" % (chk, img))
    per = {}
    for adt in ("MdkMemoryStorage", "MdkSqliteStorage"):
        for f in prog.find(adt=adt, trait="StorageProvider"):
            vs = set()
            for g in P.family(prog, f):
                for bb, s in g.aggregates("GroupDataType"):
                    vs.add(s["variant"])
            per.setdefault(f.name, {})[adt] = vs
    rep.floor("group-data-types", "StorageProvider methods implemented by both backends", sum(1 for m in per.values() if len(m) == 2), 40)
    used = {}
    for m, d in sorted(per.items()):
        a, b = d.get("MdkMemoryStorage"), d.get("MdkSqliteStorage")
        if a is None or b is None:
            rep.violation("group-data-types", "method/%s" % m, "StorageProvider::%s is not implemented by both backends" % m)
            continue
        if a or b:
            rep.check(a == b and len(a) == 1, "group-data-types", "method/%s" % m, "both backends use GroupDataType::%s" % sorted(a),
                      "backends file %s under different data types: memory %s vs SQLite %s" % (m, sorted(a), sorted(b)))
            for v in a & b:
                kind = "write" if m.startswith("write_") else ("delete" if m.startswith("delete_") else "read")
                used.setdefault(v, set()).add(kind)
    for v in sorted(as_strs.get("GroupDataType", {})):
        rep.check(used.get(v) == {"write", "read", "delete"}, "group-data-types", "triple/%s" % v, "variant has a write, a read and a delete method",
                  "GroupDataType::%s is used by %s only (write/read/delete triple disagrees)" % (v, sorted(used.get(v, []))))


def clause_row_mappers(prog, rep, sch, sites):
    n = 0
    for f in prog.nontest_fns(("mdk_sqlite_storage",)):
        if f.is_closure() or not f.name or not f.name.startswith("row_to_"):
            continue
        m = None
        for k, t in MAPPER_TABLE.items():
            if (f.ret or "").endswith("::%s, rusqlite::error::Error>" % k) or ("::%s," % k) in (f.ret or ""):
                m = t
        if m is None:
            continue
        n += 1
        names = set(s for _, s in f.str_consts() if s in sch.columns(m))
        ins = [s for s in sites if s.stmt.kind == "INSERT" and s.stmt.table == m and not (s.fn.root and "snapshot" in s.fn.root)]
        cols = set()
        for s in ins:
            cols |= set(s.stmt.columns)
        rep.check(bool(cols) and cols <= names, "row-mapper-cover", "%s/%s" % (f.name, m),
                  "mapper reads every column the INSERT writes (%d columns)" % len(cols),
                  "row mapper %s never reads column(s) %s that save writes" % (f.name, sorted(cols - names)), f.loc())
    rep.floor("row-mapper-cover", "row mappers", n, 7)


def clause_table_cache(prog, rep, sch, sites):
    inner = prog.adt("MdkMemoryStorageInner")
    names = set(fd["name"] for fd in inner["variants"][0]["fields"])
    n = 0
    for trait in ("GroupStorage", "MessageStorage", "WelcomeStorage"):
        for sq in prog.find(adt="MdkSqliteStorage", trait=trait):
            mem = prog.find(adt="MdkMemoryStorage", name=sq.name, trait=trait)
            if not mem:
                rep.violation("table-cache", "%s::%s" % (trait, sq.name), "method not implemented by the memory backend")
                continue
            n += 1
            tabs = set()
            for s in sites:
                if s.fn.path in prog.extent(sq) and s.stmt.table in TABLE_CACHES:
                    tabs.add(s.stmt.table)
                    if s.stmt.kind == "INSERT":
                        # a foreign key makes the INSERT depend on the parent row (the memory sibling checks it explicitly)
                        for fk in sch.tables[s.stmt.table]["fks"]:
                            if fk["table"] in TABLE_CACHES:
                                tabs.add(fk["table"])
            caches = set()
            for p in prog.extent(mem[0]):
                g = prog.fns.get(p)
                if not g or g.crate != "mdk_memory_storage":
                    continue
                for bb, s in g.stmts():
                    for pl in [s["d"]] + [o["p"] for o in s.get("o", []) if "p" in o]:
                        caches |= set(e[1:] for e in pl[1:] if isinstance(e, str) and e.startswith(".") and e[1:] in names)
            want = set()
            for t in tabs:
                want |= TABLE_CACHES[t]
            missing = [t for t in tabs if not (TABLE_CACHES[t] & caches)]
            extra = [c for c in caches if not any(c in TABLE_CACHES[t] for t in tabs) and any(c in v for v in TABLE_CACHES.values())]
            rep.check(not missing and not extra, "table-cache", "%s::%s" % (trait, sq.name),
                      "SQLite touches %s, memory touches the corresponding caches %s" % (sorted(tabs), sorted(caches)),
                      "backends touch different stores: SQLite tables %s vs memory caches %s (missing %s, extra %s)" % (sorted(tabs), sorted(caches), missing, extra),
                      sq.loc())
    rep.floor("table-cache", "trait methods implemented by both backends", n, 25)


def clause_message_key(prog, rep):
    """memory backend: messages are keyed by (group, id); the auxiliary id-keyed cache must never feed a returned value"""
    n = 0
    for trait in ("MessageStorage", "GroupStorage"):
        for f in prog.find(adt="MdkMemoryStorage", trait=trait):
            if "Message" not in (f.ret or "") or "ProcessedMessage" in (f.ret or "") and "Message>" not in (f.ret or ""):
                continue
            n += 1
            og = A.origins(prog, f, 0, scope=None, max_frames=1)
            touched = set(og.fields)
            for pl_f, pl in og.places:
                touched |= set(e[1:] for e in pl[1:] if isinstance(e, str) and e.startswith("."))
            rep.check("messages_cache" not in touched, "message-key", "memory/%s::%s" % (trait, f.name),
                      "returned messages come from the (group, id)-keyed map",
                      "%s returns data read from the id-only keyed messages_cache: the same event id in two groups makes the lookup return "
                      "(or hide) another group's message, unlike SQLite's (mls_group_id, id) key" % f.name, f.loc())
    rep.floor("message-key", "memory methods returning messages", n, 4)


def clause_filter_before_page(prog, rep):
    """a paginated listing of the memory backend selects first and pages afterwards, as `WHERE ... LIMIT ? OFFSET ?` does: a
    skip/take applied before the selecting filter makes filtered-out records occupy page slots (short or empty pages, skipped records)"""
    n = 0
    for f in prog.nontest_fns(("mdk_memory_storage",)):
        if f.is_closure() or not f.impl_trait or not (f.impl_trait or "").startswith("mdk_storage_traits::"):
            continue
        pages = [c for c in f.live_calls() if c.name in ("skip", "take") and last_seg(c.trait) == "Iterator"]
        filts = [c for c in f.live_calls() if c.name in ("filter", "filter_map") and last_seg(c.trait) == "Iterator"]
        if not pages or not filts:
            continue
        n += 1
        late = []
        for fl in filts:
            if fl.args and "p" in fl.args[0]:
                _, calls, _ = f.depends_on(fl.args[0]["p"][0])
                if any(x in pages for x in calls):
                    late.append(fl)
        rep.check(not late, "pagination", "memory/%s/filter-before-page" % f.name,
                  "records are selected before the page is cut (as SQL applies WHERE before LIMIT / OFFSET)",
                  "a selecting filter runs on an already paged iterator (skip/take before filter): records that are filtered out occupy "
                  "page slots, unlike the SQLite sibling's WHERE ... LIMIT ... OFFSET", late[0].loc() if late else f.loc())
    rep.floor("pagination", "memory listings that filter and page", n, 1)


MUTATORS = ("put", "pop", "pop_entry", "insert", "remove", "retain", "clear", "push", "push_back", "push_front", "pop_front", "pop_back",
            "extend", "truncate", "drain", "append", "resize", "pop_lru")
CONTAINERS = ("LruCache", "HashMap", "BTreeMap", "BTreeSet", "Vec", "VecDeque", "HashSet")


def clause_refusal_leaves_state(prog, rep):
    """a refused SQLite operation changes nothing (the statement fails as a whole, multi-statement operations are bracketed — C12); the memory
    backend is the same store only if its methods refuse *before* they touch the maps: no error exit is reachable after a mutation of the
    storage's own maps, except the exit that tests the mutating call's own result (`remove(..).ok_or(NotFound)`: nothing was removed)"""
    n = 0
    for f in prog.nontest_fns(("mdk_memory_storage",)):
        if f.is_closure():
            continue
        muts = []
        for c in f.live_calls():
            if c.name not in MUTATORS or last_seg(c.self_adt) not in CONTAINERS or "to" not in c.t or not c.args or "p" not in c.args[0]:
                continue
            # the receiver is one of the storage's maps (a field of the locked inner state), not a local collection
            flds = [e for e in c.args[0]["p"][1:] if isinstance(e, str) and e.startswith(".")] + ["." + x for x in A.receiver_fields(f, c.args[0]["p"][0])]
            if any(e.endswith("_cache") or e in (".snapshots", ".group_snapshots") for e in flds):
                muts.append(c)
        if not muts:
            continue
        errs = A.err_exit_blocks(f)
        for m in muts:
            n += 1
            after = f.reachable_from(m.t["to"])
            late = []
            for e in sorted(errs & after):
                own = False
                for w in A.control_dependent_switches(f, e):
                    l = A._opl(f.term(w)["discr"])
                    if l is None:
                        continue
                    dep, calls, _ = f.depends_on(l)
                    if m.dst and m.dst[0] in dep and w in after:
                        own = True
                if not own:
                    late.append(e)
            label = prog.fns.get(f.root, f).label()
            rep.check(not late, "refusal-leaves-state", "memory/%s/%s" % (label, m.name),
                      "no refusal is reachable after this change of the storage's maps",
                      "%s can still return an error after it has changed the storage's maps (%s): the refused call leaves a half-applied change behind, "
                      "where the SQLite backend changes nothing" % (label, m.name), m.loc())
    rep.floor("refusal-leaves-state", "map mutations in memory-backend methods", n, 20)


def run(ctx, rep):
    prog = ctx.prog()
    sch = sqlmod.Schema()
    sites = sqlmod.collect(prog)
    rep.fns_analysed = len(list(prog.nontest_fns(("mdk_sqlite_storage", "mdk_memory_storage", "mdk_storage_traits"))))
    rep.counts["sql_statements"] = len(sites)
    rep.clause("C10.1 every state enum's as_str is injective, from_str is its inverse, and every SQL state literal is the stored form of a variant of the right enum")
    rep.clause("C10.2 selection predicates of the invalidation / retry / pending queries agree between SQL WHERE clauses and the memory backend's MIR comparisons; same state constants written")
    rep.clause("C10.3 GroupDataType used by each of the StorageProvider methods agrees across backends and forms write/read/delete triples; schema CHECK list = as_str image")
    rep.clause("C10.4 upserts assign every non-key column on a key conflict; row mappers read every inserted column; per trait method the SQLite tables correspond to the memory caches touched")
    rep.clause("C10.6 memory backend: a method that refuses does so before it changes the storage's maps (the SQLite sibling's failed statement changes nothing)")
    rep.clause("C10.5 ORDER BY lists = comparator chains = memory sort closures; limit validation and pagination arithmetic agree (shared with C18)")
    rep.clause("C10.7 group snapshot / rollback: the memory backend selects the entries it captures / clears by the group id alone, as every SQLite snapshot statement does (WHERE group_id = ?); shared with C09")
    rep.not_decided = "observable equality on arbitrary operation sequences, LRU capacity effects (memory eviction), error wording"
    for s in sites:
        if s.stmt.kind in ("SELECT", "INSERT", "UPDATE", "DELETE"):
            ok, rd, wr, err = sch.explain(s.stmt.text)
            if not ok:
                rep.violation("sql-parses", "%s/%s" % (s.fn.label(), s.stmt.kind), "statement does not compile against the migrated schema: %s" % err, s.loc())
    as_strs = clause_enum_tables(prog, rep, sites)
    sqlrules.clause_selectors(prog, rep, sites, as_strs)
    clause_group_data_types(prog, rep, sch, as_strs)
    sqlrules.clause_upserts(prog, rep, sch, sites)
    clause_row_mappers(prog, rep, sch, sites)
    clause_table_cache(prog, rep, sch, sites)
    clause_message_key(prog, rep)
    c18.clause_orders(prog, rep, sch, sites)
    c18.clause_pagination(prog, rep)
    clause_filter_before_page(prog, rep)
    clause_refusal_leaves_state(prog, rep)
    c09.clause_filter_group_only(prog, rep, "snapshot-filter-agreement")
    sqlrules.clause_stored_verbatim(prog, rep, sites, "upsert-complete", {"messages", "processed_messages", "groups", "welcomes", "processed_welcomes", "group_relays", "group_exporter_secrets"}, floor=5)
