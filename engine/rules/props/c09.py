"""C09 — rollback restores exactly one group's state and destroys nothing else (schema + SQL + MIR clauses)."""
import re
from ir import last_seg
import analysis as A
import sqlmod
import sqlrules

GROUP_COLS = ("group_id", "mls_group_id")
SNAP = "group_state_snapshots"
PROTECTED = ("messages", "processed_messages", "welcomes", "processed_welcomes", "openmls_key_packages",
             "openmls_signature_keys", "openmls_encryption_keys", "openmls_psks")
CONST_COLS = {"provider_version"}          # written as the literal 1 by restore
GROUP_SCOPED_CACHES = {"mls_group_data", "mls_own_leaf_nodes", "mls_proposals", "mls_epoch_key_pairs", "groups_cache",
                       "groups_by_nostr_id_cache", "group_relays_cache", "group_exporter_secrets_cache"}


def method(prog, adt, name):
    fs = prog.find(adt=adt, name=name, trait="MdkStorageProvider")
    return fs[0] if fs else None


def ext_sites(prog, sites, f):
    ext = prog.extent(f)
    return [s for s in sites if s.fn.path in ext]


def clause_sqlite(prog, rep, sch, sites):
    M = {n: method(prog, "MdkSqliteStorage", n) for n in
         ("create_group_snapshot", "rollback_group_to_snapshot", "release_group_snapshot", "list_group_snapshots", "prune_expired_snapshots")}
    for n, f in M.items():
        rep.floor("anchors", "<MdkSqliteStorage as MdkStorageProvider>::%s" % n, 1 if f else 0, 1)
    if not all(M.values()):
        return
    snap_s = ext_sites(prog, sites, M["create_group_snapshot"])
    rest_s = ext_sites(prog, sites, M["rollback_group_to_snapshot"])
    rel_s = ext_sites(prog, sites, M["release_group_snapshot"])
    list_s = ext_sites(prog, sites, M["list_group_snapshots"])
    prune_s = ext_sites(prog, sites, M["prune_expired_snapshots"])
    S = sorted(set(s.stmt.table for s in snap_s if s.stmt.kind == "SELECT" and s.stmt.table != SNAP))
    D = [s for s in rest_s if s.stmt.kind == "DELETE"]
    I = sorted(set(s.stmt.table for s in rest_s if s.stmt.kind == "INSERT" and s.stmt.table != SNAP))
    rep.floor("sql-cascade", "tables copied by the snapshot", len(S), 7)
    rep.floor("sql-cascade", "DELETE statements in restore", len(D), 7)
    rep.extra["c09_tables"] = {"snapshotted": S, "reinserted": I, "deleted": sorted(set(d.stmt.table for d in D))}
    # every snapshotted table is re-inserted and vice versa
    for t in sorted(set(S) | set(I)):
        rep.check(t in S and t in I, "sql-cascade", "rollback/table-pair/%s" % t, "table is both snapshotted and restored",
                  "table %s is %s" % (t, "restored but never snapshotted" if t in I else "snapshotted but never restored"))
    # 1. cascade closure of every delete
    guarded_deletes = set()
    for d in D:
        t = d.stmt.table
        if t == SNAP:
            continue
        clo = sch.cascade_closure([t])
        lost = sorted(c for c in clo if not (c in S and c in I) and c != SNAP)
        # snapshots cascaded away must be explicitly saved and re-inserted
        snap_ok = True
        if SNAP in clo:
            snap_ok = any(s.stmt.kind == "SELECT" and s.stmt.table == SNAP and ("snapshot_name", "!=", "?") in s.stmt.where for s in rest_s) \
                and any(s.stmt.kind == "INSERT" and s.stmt.table == SNAP for s in rest_s)
        if lost:
            # acceptable only if the DELETE runs solely when the snapshot says the row did not exist:
            # its block must be control-dependent on a condition derived from the snapshot's own rows
            f = d.fn
            cds = A.control_dependent_switches(f, d.bb)
            guarded = False
            for w in cds:
                l = A._opl(f.term(w)["discr"])
                og = A.origins(prog, f, l, scope=None, max_frames=3)
                for (gf, gbb, c) in og.consts:
                    if isinstance(c, dict) and "str" in c and sqlmod.SQL_START.match(c["str"]):
                        st = sqlmod.Stmt(c["str"])
                        # the snapshot's *content* rows (table_name column), not a mere existence test
                        if st.kind == "SELECT" and st.table == SNAP and "table_name" in st.select_cols:
                            guarded = True
            if guarded:
                guarded_deletes.add(id(d))
            rep.check(guarded, "sql-cascade", "rollback/DELETE %s" % t,
                      "DELETE FROM %s (cascades into %s) runs only under a condition derived from the snapshot's rows" % (t, lost),
                      "DELETE FROM %s in restore cascades (ON DELETE CASCADE) into %s, which the snapshot does not hold: every rollback "
                      "destroys those rows" % (t, lost), d.loc())
        else:
            rep.ok("sql-cascade", "rollback/DELETE %s" % t, "cascade closure %s is covered by the snapshot" % sorted(clo), d.loc())
        rep.check(snap_ok, "sql-cascade", "rollback/DELETE %s/sibling-snapshots" % t,
                  "sibling snapshots that may be cascaded away are saved first and re-inserted",
                  "sibling snapshots cascaded away by DELETE FROM %s are not saved and re-inserted" % t, d.loc())
    sqlrules.sibling_snapshot_copy(prog, rep, sites, "sql-columns", "rollback/")
    clause_key_representation_sql(prog, rep, snap_s, rest_s)
    clause_tuple_positions(prog, rep, snap_s, rest_s)
    # 2. column coverage
    for t in S:
        sel = [s for s in snap_s if s.stmt.kind == "SELECT" and s.stmt.table == t]
        ins = [s for s in rest_s if s.stmt.kind == "INSERT" and s.stmt.table == t]
        schema_cols = set(sch.columns(t))
        auto = set(c["name"] for c in sch.tables[t]["columns"] if c["pk"] and sch.tables[t]["autoinc"])
        need = schema_cols - auto - CONST_COLS
        for s in sel:
            cols = set(c.split(".")[-1] for c in s.stmt.select_cols)
            if "*" in cols:
                cols = schema_cols
            rep.check(need <= cols, "sql-columns", "snapshot/%s" % t, "snapshot copies every column of %s" % t,
                      "snapshot of %s misses column(s) %s (added by a migration?)" % (t, sorted(need - cols)), s.loc())
        for s in ins:
            cols = set(s.stmt.columns)
            rep.check(need <= cols, "sql-columns", "restore/%s" % t, "restore writes every column of %s" % t,
                      "restore of %s misses column(s) %s" % (t, sorted(need - cols)), s.loc())
            if s.stmt.conflict_cols:
                nonkey = set(s.stmt.columns) - set(s.stmt.conflict_cols)
                rep.check(nonkey <= set(s.stmt.update_set), "sql-columns", "restore/%s/upsert" % t,
                          "the in-place restore assigns every non-key column",
                          "in-place restore of %s leaves column(s) %s at their post-snapshot value" % (t, sorted(nonkey - set(s.stmt.update_set))), s.loc())
    # 3. scoping
    def scoped(s, need_name):
        st = s.stmt
        if st.kind in ("BEGIN", "COMMIT", "ROLLBACK", "SAVEPOINT", "RELEASE"):
            return True
        if st.kind == "INSERT":
            return any(c in GROUP_COLS for c in st.columns) and (not need_name or "snapshot_name" in st.columns)
        # a qualified column (`s.mls_group_id`, statements with a join) is the same column
        g = any(c.split(".")[-1] in GROUP_COLS and o == "=" for c, o, r in st.where)
        n = (not need_name) or any(c.split(".")[-1] == "snapshot_name" and o in ("=", "!=") for c, o, r in st.where)
        return g and n
    for label, ss in (("snapshot", snap_s), ("rollback", rest_s), ("release", rel_s), ("list", list_s)):
        rep.floor("sql-scope", "%s statements" % label, len(ss), 1)
        for s in ss:
            need_name = s.stmt.table == SNAP and label in ("rollback", "release") and s.stmt.kind in ("DELETE", "SELECT")
            rep.check(scoped(s, need_name), "sql-scope", "%s/%s %s" % (label, s.stmt.kind, s.stmt.table),
                      "statement is scoped to the group%s" % (" and snapshot name" if need_name else ""),
                      "statement `%s` is not scoped to the group id%s: it touches other groups' rows" % (s.stmt.text[:90], " and snapshot name" if need_name else ""),
                      s.loc())
    # 3b. the snapshot copies *every* row of the group: restore deletes all of the group's rows of a table before re-inserting the
    # copied ones, so a copy restricted by anything but the group key (`AND epoch >= ..`) loses the rows it left out on every rollback
    m = 0
    for s in snap_s:
        if s.stmt.kind != "SELECT" or s.stmt.table == SNAP:
            continue
        m += 1
        extra = [(c, o, r) for c, o, r in s.stmt.where if not (c.split(".")[-1] in GROUP_COLS and o == "=")]
        joined = re.search(r"\bJOIN\b", s.stmt.text, flags=re.I) is not None
        rep.check(not extra and not joined, "sql-scope", "snapshot/SELECT %s/copies-every-row" % s.stmt.table,
                  "the copy of %s is restricted by the group key only" % s.stmt.table,
                  "the snapshot copies only the rows of %s satisfying %s%s, while the restore deletes all of the group's rows of that table before "
                  "re-inserting the copy: the rows left out are destroyed by a rollback"
                  % (s.stmt.table, ["%s %s %s" % x for x in extra], " (restricted by a join)" if joined else ""), s.loc())
    rep.floor("sql-scope", "snapshot copy statements over live tables", m, 5)
    for s in prune_s:
        ok = s.stmt.kind == "DELETE" and s.stmt.table == SNAP and [(c, o) for c, o, r in s.stmt.where] == [("created_at", "<")]
        rep.check(ok, "sql-scope", "prune/%s %s" % (s.stmt.kind, s.stmt.table), "prune deletes snapshot rows older than the threshold only",
                  "prune statement `%s` is not `DELETE FROM group_state_snapshots WHERE created_at < ?`" % s.stmt.text[:90], s.loc())
    # 4. consumes only the named snapshot
    dels = [s for s in rest_s if s.stmt.kind == "DELETE" and s.stmt.table == SNAP]
    rep.floor("consumes-named-only", "DELETE on group_state_snapshots in restore", len(dels), 1)
    for s in dels:
        w = set((c, o) for c, o, r in s.stmt.where)
        rep.check(w == {("snapshot_name", "="), ("group_id", "=")}, "consumes-named-only", "rollback/DELETE snapshots",
                  "only the named snapshot of this group is consumed", "restore deletes snapshots with predicate %s" % sorted(w), s.loc())
    # 5. retake replaces
    ins = [s for s in snap_s if s.stmt.kind == "INSERT" and s.stmt.table == SNAP]
    rep.floor("retake-replaces", "snapshot INSERT", len(ins), 1)
    for s in ins:
        # INSERT OR REPLACE alone is not enough: rows of the old take whose key no longer exists (e.g. relay rows whose
        # AUTOINCREMENT id changed) would survive and be resurrected by a rollback — the old take must be deleted first
        ok = False
        if True:
            for d in snap_s:
                if d.stmt.kind == "DELETE" and d.stmt.table == SNAP and set((c, o) for c, o, r in d.stmt.where) == {("snapshot_name", "="), ("group_id", "=")}:
                    if d.fn is s.fn and d.fn.dominates(d.bb, s.bb):
                        ok = True
        rep.check(ok, "retake-replaces", "snapshot/INSERT",
                  "an existing snapshot of the same (name, group) is replaced",
                  "re-taking a snapshot under an existing (name, group) does not first delete the previous take: it either fails on the primary "
                  "key (plain INSERT) or leaves rows of the old take behind (INSERT OR REPLACE), so the snapshot is not replaced (memory backend replaces)", s.loc())
    # 6. frame
    for label, ss in (("snapshot", snap_s), ("rollback", rest_s), ("release", rel_s), ("list", list_s), ("prune", prune_s)):
        for s in ss:
            if s.stmt.kind not in ("SELECT", "INSERT", "UPDATE", "DELETE"):
                continue
            ok, rd, wr, err = sch.explain(s.stmt.text)
            if id(s) in guarded_deletes:
                rep.ok("frame", "%s/%s %s" % (label, s.stmt.kind, s.stmt.table),
                       "cascading DELETE runs only when the snapshot holds no row for the group (see sql-cascade)", s.loc())
                continue
            rep.check(ok and not (wr & set(PROTECTED)), "frame", "%s/%s %s" % (label, s.stmt.kind, s.stmt.table),
                      "write set %s leaves messages, records, welcomes and key material alone" % sorted(wr),
                      ("statement does not parse: %s" % err) if not ok else "statement writes protected table(s) %s" % sorted(wr & set(PROTECTED)), s.loc())
            if label in ("snapshot", "list"):
                rep.check(ok and wr <= {SNAP}, "frame", "%s/%s %s/no-live-write" % (label, s.stmt.kind, s.stmt.table),
                          "taking/listing writes only the snapshot table", "taking/listing a snapshot writes live table(s) %s" % sorted(wr - {SNAP}), s.loc())


def bound_param_locals(f, site):
    """locals handed as bind parameters to the execution of this SQL text: execute / query_row(sql, params, ..) directly, or
    prepare(sql) followed by query_map / query / query_row / execute(params, ..) on the prepared statement"""
    import os, sys
    sys.path.insert(0, os.path.dirname(os.path.abspath(__file__)))
    import c12
    out = []
    for c in c12.exec_calls(site):
        if c.name in ("execute", "query_row") and len(c.args) >= 3 and "p" in c.args[2]:
            out.append(c.args[2]["p"][0])
        elif c.name in ("prepare", "prepare_cached") and c.dst:
            stmts = f.flows_from({c.dst[0]}, through_calls=True, stop_calls=lambda x: x.krate not in ("core", "alloc", "std"))
            for y in f.live_calls():
                if y.name in ("query_map", "query", "query_row", "execute", "query_and_then", "exists") and y.args and "p" in y.args[0] and len(y.args) >= 2 and "p" in y.args[1]:
                    dep, _, _ = f.depends_on(y.args[0]["p"][0])
                    if (dep | {y.args[0]["p"][0]}) & stmts:
                        out.append(y.args[1]["p"][0])
    return out


def clause_key_representation_sql(prog, rep, snap_s, rest_s):
    """OpenMLS tables are keyed by the MlsCodec-serialised group id (that is what mls_storage writes), the MDK tables and the snapshot
    table by the raw id.  A statement of snapshot / restore bound to the other representation matches no row: that part of the group
    is silently neither captured nor replaced."""
    core = None
    n = 0
    for label, ss in (("snapshot", snap_s), ("rollback", rest_s)):
        for s in ss:
            if s.stmt.kind not in ("SELECT", "DELETE", "UPDATE") or not s.stmt.table:
                continue
            keycols = [c for c, o, r in s.stmt.where if c in ("group_id", "mls_group_id") and o == "=" and r == "?"]
            if not keycols:
                continue
            want_codec = s.stmt.table.startswith("openmls_")
            for l in bound_param_locals(s.fn, s):
                og = A.origins(prog, s.fn, l, scope=None, max_frames=3)
                has_codec = og.has_call(lambda x: x.name == "serialize" and last_seg(x.self_adt) == "MlsCodec")
                # only the id parameter matters: statements binding several values (name, id) are judged on whether *any* bound value is codec-made
                n += 1
                rep.check(has_codec == want_codec, "sql-scope", "%s/%s %s/key-representation" % (label, s.stmt.kind, s.stmt.table),
                          "bound group id is %s" % ("the MlsCodec-serialised id (OpenMLS table)" if want_codec else "the raw id (MDK table)"),
                          "`%s` is bound to %s: the table is keyed by %s, so the statement matches nothing" % (
                              s.stmt.text[:60], "the MlsCodec-serialised id" if has_codec else "the raw group id",
                              "the MlsCodec-serialised id" if want_codec else "the raw group id"), s.loc())
    rep.floor("sql-scope", "snapshot / restore statements with a bound group id", n, 18)


def fields_touched(prog, f, adt):
    names = set(fd["name"] for fd in adt["variants"][0]["fields"])
    out = set()
    fs = prog.family(f)
    for g in fs:
        for bb, s in g.stmts():
            for pl in [s["d"]] + [o["p"] for o in s.get("o", []) if "p" in o]:
                out |= set(e[1:] for e in pl[1:] if isinstance(e, str) and e.startswith(".") and e[1:] in names)
        for c in g.calls():
            for a in c.args:
                if "p" in a:
                    out |= set(e[1:] for e in a["p"][1:] if isinstance(e, str) and e.startswith(".") and e[1:] in names)
    return out



PLUMBING = ("branch", "map_err", "ok", "unwrap", "expect", "unwrap_or_default", "ok_or", "ok_or_else", "into", "from", "clone", "as_ref", "deref", "borrow", "to_owned")


def _walk_back(f, local, stop):
    """follow use / ref / cast copies and Result plumbing backwards from `local`; returns the first thing stop() accepts"""
    todo, seen = [local], set()
    while todo:
        x = todo.pop()
        if x in seen:
            continue
        seen.add(x)
        for bb, kind, d in f.defs().get(x, []):
            r = stop(kind, d)
            if r is not None:
                return r
            if kind == "stmt" and d.get("k") in ("use", "ref", "cast") and d["o"] and "p" in d["o"][0]:
                todo.append(d["o"][0]["p"][0])
            elif kind == "call" and d.name in PLUMBING and d.args and "p" in d.args[0]:
                todo.append(d.args[0]["p"][0])
    return None


def clause_tuple_positions(prog, rep, snap_s, rest_s, rule="sql-columns", only=None, floor=3):
    """a table's rows travel through the snapshot as a serialised tuple: the writer puts the column it read with row.get(i) at tuple
    position j, the reader binds tuple position j to a column of its INSERT.  Per table and position the two columns are the same
    (two same-typed neighbours swapped in one of the two places restore a value into the other's column)"""
    n = 0
    for t in sorted(set(x.stmt.table for x in snap_s if x.stmt.kind == "SELECT" and x.stmt.table and x.stmt.table != SNAP)):
        if only is not None and t not in only:
            continue
        # writer: position -> column
        wmap = {}
        for x in snap_s:
            if x.stmt.kind != "SELECT" or x.stmt.table != t:
                continue
            f = x.fn
            cols = [c.split(".")[-1] for c in x.stmt.select_cols]
            for bb, st in f.stmts():
                if st.get("k") != "tuple" or len(st.get("o", [])) < 2:
                    continue
                ar = len(st["o"])
                for j, o in enumerate(st["o"]):
                    if "p" not in o:
                        continue
                    def stop(kind, d):
                        if kind == "call" and d.name == "get" and len(d.args) >= 2 and isinstance(d.args[1].get("c"), dict) and isinstance(d.args[1]["c"].get("int"), int):
                            return d.args[1]["c"]["int"]
                        return None
                    i = _walk_back(f, o["p"][0], stop)
                    if i is not None and i < len(cols):
                        wmap.setdefault((ar, j), set()).add(cols[i])
        # reader: position -> column
        rmap = {}
        for x in rest_s:
            if x.stmt.kind != "INSERT" or x.stmt.table != t:
                continue
            f = x.fn
            for l in bound_param_locals(f, x):
                arr = _walk_back(f, l, lambda kind, d: d if (kind == "stmt" and d.get("k") == "array") else None)
                if not arr:
                    continue
                # the k-th bound parameter belongs to the column whose VALUES entry is the k-th placeholder (literals such as the
                # provider version take no parameter)
                vals = x.stmt.values or ["?"] * len(x.stmt.columns)
                ph_cols = [c for c, v in zip(x.stmt.columns, vals) if "?" in v]
                for k, o in enumerate(arr.get("o", [])):
                    if "p" not in o or k >= len(ph_cols):
                        continue
                    def stop2(kind, d):
                        if kind == "stmt" and d.get("k") == "use" and d["o"] and "p" in d["o"][0]:
                            pl = d["o"][0]["p"]
                            idx = [e for e in pl[1:] if isinstance(e, str) and e.startswith(".") and e[1:].isdigit()]
                            if len(pl) == 2 and idx:
                                ty = str(f.locals[pl[0]]) if pl[0] < len(f.locals) else ""
                                depth, ar = 0, 1
                                for ch in ty.strip()[1:-1] if ty.strip().startswith("(") else "":
                                    depth += {"(": 1, "<": 1, "[": 1, ")": -1, ">": -1, "]": -1}.get(ch, 0)
                                    if ch == "," and depth == 0:
                                        ar += 1
                                if ty.strip().endswith(",)"):
                                    ar -= 1
                                return (ar, int(idx[0][1:]))
                        return None
                    j = _walk_back(f, o["p"][0], stop2)
                    if j is not None:
                        rmap.setdefault(j, set()).add(ph_cols[k])
        common = sorted(set(wmap) & set(rmap))
        if not common:
            continue
        n += 1
        bad = [(j[1], sorted(wmap[j]), sorted(rmap[j])) for j in common if wmap[j] != rmap[j]]
        rep.check(not bad, rule, "snapshot-restore/%s/tuple-positions-agree" % t,
                  "the %d tuple positions of a %s row carry the same column in the snapshot writer and in the restore" % (len(common), t),
                  "%s: tuple position(s) %s are written from one column and restored into another (%s): a rollback puts a value into the wrong "
                  "column" % (t, [b[0] for b in bad], "; ".join("position %d: written from %s, restored into %s" % b for b in bad)))
    rep.floor(rule, "tables whose rows travel through the snapshot as a serialised tuple", n, floor)


def clause_index_leaves_with_record(prog, rep, rule):
    # ... and it is removed *with* the record: wherever a record leaves the primary map, the index entry keyed by that record's
    # nostr_group_id is removed in the same function, the key being read from the map no later than the removal itself (a helper that
    # peeks after the record is gone finds nothing to clean up, and the undone id keeps routing to the group)
    def recv_is(g, c, field):
        if not c.args or "p" not in c.args[0]:
            return False
        if ("." + field) in [e for e in c.args[0]["p"][1:] if isinstance(e, str)]:
            return True
        return field in A.receiver_fields(g, c.args[0]["p"][0])
    nrm = 0
    for g in prog.nontest_fns(("mdk_memory_storage",)):
        prim = [c for c in g.live_calls() if c.name in ("pop", "pop_entry", "remove") and recv_is(g, c, "groups_cache")]
        if not prim:
            continue
        idx = [c for c in g.live_calls() if c.name in ("pop", "pop_entry", "remove") and recv_is(g, c, "groups_by_nostr_id_cache")]
        for pc in prim:
            nrm += 1
            ok = False
            for ic in idx:
                if len(ic.args) < 2 or "p" not in ic.args[1]:
                    continue
                og = A.origins(prog, g, ic.args[1]["p"][0], scope=None, max_frames=0)
                for x in og.calls:
                    if x.name in ("peek", "get", "pop", "peek_mut", "get_mut", "remove", "pop_entry") and recv_is(g, x, "groups_cache"):
                        if x is pc or (x.bb == pc.bb) or g.dominates(x.bb, pc.bb):
                            ok = True
            rep.check(ok, rule, "%s/index-entry-leaves-with-record" % prog.fns.get(g.root, g).label(),
                      "the record removed from the primary map takes its routing-index entry (keyed by its own nostr_group_id, read before the removal) with it",
                      "a group record is removed from groups_cache without removing the routing-index entry keyed by that record's nostr_group_id "
                      "(read from the map no later than the removal): the stale id keeps resolving to a copy of the record", pc.loc())
    rep.floor(rule, "removals from the primary group map (memory backend)", nrm, 1)


def clause_filter_group_only(prog, rep, rule):
    """every entry-selecting closure of the memory backend's group snapshot / restore selects by the group id alone (shared with C10:
    SQLite selects `WHERE group_id = ?` on every table, checked by sql-scope)"""
    M = {n: method(prog, "MdkMemoryStorage", n) for n in ("create_group_snapshot", "rollback_group_to_snapshot")}
    if not all(M.values()):
        rep.floor(rule, "memory snapshot / rollback methods", 0, 2)
        return
    rb_ext = [prog.fns[p] for p in prog.extent(M["rollback_group_to_snapshot"]) if p in prog.fns and prog.fns[p].crate == "mdk_memory_storage"]
    cr_ext = [prog.fns[p] for p in prog.extent(M["create_group_snapshot"]) if p in prog.fns and prog.fns[p].crate == "mdk_memory_storage"]
    # ... and against nothing else: a filter that also narrows on another key component (an epoch bound, a data type) leaves part of the
    # group's entries out of the snapshot, or alive across the restore, so the restored state is not the snapshotted one
    nonly = 0
    for g in rb_ext + cr_ext:
        if not g.is_closure() or g.ret != "bool":
            continue
        nonly += 1
        extra = []
        for bb, st in g.stmts():
            if st.get("k") == "binop" and st.get("op") in ("Gt", "Lt", "Ge", "Le", "Eq", "Ne", "Cmp"):
                extra.append("%s @%s:%s" % (st["op"], g.file, st.get("line")))
        ncmp = 0
        for c in g.live_calls():
            if c.name in ("eq", "ne"):
                ncmp += 1
            elif c.name in ("lt", "le", "gt", "ge", "cmp", "partial_cmp", "contains", "starts_with", "ends_with", "is_some", "is_none", "matches"):
                extra.append("%s @%s" % (c.name, c.loc()))
        if ncmp > 1:
            extra.append("%d equality tests" % ncmp)
        rep.check(not extra, rule, "filter-by-group-only/%s" % last_seg(g.parent) + "#%d" % nonly,
                  "filter selects entries by the group id alone",
                  "a filter in snapshot/restore selects by more than the group id (%s): entries of the group outside that narrower set are "
                  "not captured / not cleared, so rollback does not restore the snapshotted state (and the backends disagree)" % "; ".join(extra), g.loc())
    rep.floor(rule, "group-only filters in snapshot/restore", nonly, 6)


def clause_memory(prog, rep):
    inner = prog.adt("MdkMemoryStorageInner")
    snap = prog.adt("GroupScopedSnapshot")
    M = {n: method(prog, "MdkMemoryStorage", n) for n in
         ("create_group_snapshot", "rollback_group_to_snapshot", "release_group_snapshot", "list_group_snapshots", "prune_expired_snapshots")}
    for n, f in M.items():
        rep.floor("anchors", "<MdkMemoryStorage as MdkStorageProvider>::%s" % n, 1 if f else 0, 1)
    if not all(M.values()):
        return
    snap_fields = [fd["name"] for fd in snap["variants"][0]["fields"]]
    # functions consuming / producing the snapshot struct
    rb_ext = [prog.fns[p] for p in prog.extent(M["rollback_group_to_snapshot"]) if p in prog.fns and prog.fns[p].crate == "mdk_memory_storage"]
    cr_ext = [prog.fns[p] for p in prog.extent(M["create_group_snapshot"]) if p in prog.fns and prog.fns[p].crate == "mdk_memory_storage"]
    read = set()
    for g in rb_ext:
        read |= fields_touched(prog, g, snap)
    for fld in snap_fields:
        if fld == "created_at":
            continue
        rep.check(fld in read, "memory-field-cover", "restore/GroupScopedSnapshot.%s" % fld,
                  "restore consumes snapshot field %s" % fld, "restore never reads snapshot field %s: that part of the group is not rolled back" % fld)
    built = False
    for g in cr_ext:
        for bb, s in g.aggregates("GroupScopedSnapshot"):
            built = True
            rep.check(set(s.get("fields") or []) == set(snap_fields), "memory-field-cover", "create/GroupScopedSnapshot",
                      "snapshot populates all %d fields" % len(snap_fields), "snapshot aggregate misses fields")
    rep.floor("memory-field-cover", "GroupScopedSnapshot construction", 1 if built else 0, 1)
    # caches written by restore
    touched = set()
    for g in rb_ext:
        touched |= fields_touched(prog, g, inner)
    bad = touched - GROUP_SCOPED_CACHES
    rep.check(not bad, "memory-frame", "restore/caches", "restore touches only the 8 group-scoped maps %s" % sorted(touched),
              "restore touches cache(s) %s that hold messages / welcomes / key material" % sorted(bad))
    # group-scoped caches all covered by snapshot & restore
    cr_touched = set()
    for g in cr_ext:
        cr_touched |= fields_touched(prog, g, inner)
    for c in sorted(GROUP_SCOPED_CACHES - {"groups_by_nostr_id_cache"}):
        rep.check(c in cr_touched and c in touched, "memory-field-cover", "cache/%s" % c, "group-scoped map is snapshotted and restored",
                  "group-scoped map %s is not %s" % (c, "snapshotted" if c not in cr_touched else "restored"))
    # the secondary nostr-id index entry removed by restore is the *live* record's (what is in the map now), not the snapshot's
    npop = 0
    for g in rb_ext:
        for c in g.live_calls():
            if c.name != "pop" or not c.args or "p" not in c.args[0]:
                continue
            recv_fields = A.receiver_fields(g, c.args[0]["p"][0])
            if "groups_by_nostr_id_cache" not in recv_fields and ".groups_by_nostr_id_cache" not in [e for e in c.args[0]["p"][1:] if isinstance(e, str)]:
                continue
            npop += 1
            og = A.origins(prog, g, c.args[1]["p"][0], scope=None, max_frames=0) if len(c.args) > 1 and "p" in c.args[1] else None
            # read out of the live map by any accessor (peek / get / the pop that removes the record itself)
            live = bool(og) and og.has_call(lambda x: x.name in ("peek", "get", "pop", "peek_mut", "get_mut", "remove")) and "groups_cache" in og.fields
            from_snapshot = bool(og) and "group" in og.fields and not live
            rep.check(live and not from_snapshot, "memory-scope", "restore/nostr-index-key",
                      "the routing-index entry removed on restore is keyed by the live record's nostr_group_id",
                      "restore removes the routing-index entry under a key that is not the live record's nostr_group_id (e.g. the snapshot's): after "
                      "a rollback across an id rotation the undone id still routes to the group", c.loc())
    rep.floor("memory-scope", "routing-index removals in restore", npop, 1)
    clause_index_leaves_with_record(prog, rep, "memory-scope")
    # every filter closure compares against the captured group id
    nclos = 0
    for g in rb_ext + cr_ext:
        if not g.is_closure():
            continue
        # only predicate closures (bool result)
        if g.ret != "bool":
            continue
        nclos += 1
        cmpc = [c for c in g.live_calls() if c.name in ("eq", "ne")]
        uses_upvar = False
        for c in cmpc:
            for a in c.args:
                if "p" in a:
                    dep, _, _ = g.depends_on(a["p"][0])
                    if 1 in dep:
                        uses_upvar = True
        rep.check(bool(cmpc) and uses_upvar, "memory-scope", "filter-closure/%s" % last_seg(g.parent) + "#%d" % nclos,
                  "filter compares the entry's key with the captured group id",
                  "a retain/filter closure in snapshot/restore does not compare against the group id: other groups' entries are affected", g.loc())
    rep.floor("memory-scope", "group filters in snapshot/restore", nclos, 6)
    clause_filter_group_only(prog, rep, "memory-scope")
    # key representation: the OpenMLS maps are keyed by the MlsCodec-serialised group id (that is what the writers in mls_storage use),
    # the MDK caches by GroupId itself — a filter comparing a serialised key with the raw id (or vice versa) silently matches nothing
    nrep = 0
    for par in rb_ext + cr_ext:
        for bb, st in par.stmts():
            if st.get("k") != "closure" or st.get("closure") not in prog.fns:
                continue
            g = prog.fns[st["closure"]]
            if g.ret != "bool" or len(g.locals) < 3:
                continue
            keyty = g.locals[2]
            caps = [o["p"][0] for o in st.get("o", []) if "p" in o]
            if not caps:
                continue
            from_codec = []
            for l in caps:
                _, calls, _ = par.depends_on(l)
                from_codec.append(any(c.name == "serialize" and last_seg(c.self_adt) == "MlsCodec" for c in calls))
            serialised_key = bool(re.match(r"^&?\(?&?\(alloc::vec::Vec<u8>", keyty))
            nrep += 1
            if serialised_key:
                rep.check(all(from_codec), "memory-scope", "filter-key-representation/%s#%s" % (last_seg(g.parent), g.path.rsplit("#", 1)[-1].rstrip("}")),
                          "the OpenMLS map (keys: MlsCodec-serialised group id) is filtered with the serialised id",
                          "an OpenMLS map keyed by the MlsCodec-serialised group id is filtered against a value that is not the serialised id "
                          "(captured: %s): nothing matches, so that part of the group is neither snapshotted nor restored" % [par.locals[l] for l in caps], g.loc())
            else:
                rep.check(not any(from_codec), "memory-scope", "filter-key-representation/%s#%s" % (last_seg(g.parent), g.path.rsplit("#", 1)[-1].rstrip("}")),
                          "the MDK cache (keys: GroupId) is filtered with the group id itself",
                          "an MDK cache keyed by GroupId is filtered against the serialised id: nothing matches", g.loc())
    rep.floor("memory-scope", "filter closures with a captured comparand", nrep, 6)
    # taking / listing / releasing / pruning never take the write lock on the live state
    for n in ("create_group_snapshot", "release_group_snapshot", "list_group_snapshots", "prune_expired_snapshots"):
        bad = []
        for p in prog.extent(M[n]):
            g = prog.fns.get(p)
            if not g or g.crate != "mdk_memory_storage":
                continue
            for c in g.live_calls():
                if c.name == "write" and last_seg(c.self_adt) == "RwLock" and c.args and "p" in c.args[0]:
                    dep, _, _ = g.depends_on(c.args[0]["p"][0])
                    pls = [s for bb, s in g.stmts() if s["d"][0] in dep and s.get("k") == "ref"]
                    if any(".inner" in o["p"] for s in pls for o in s["o"] if "p" in o):
                        bad.append(c.loc())
        rep.check(not bad, "memory-frame", "%s/no-live-write" % n, "operation never write-locks the live state",
                  "snapshot bookkeeping operation write-locks the live state at %s" % bad)


def run(ctx, rep):
    prog = ctx.prog()
    sch = sqlmod.Schema()
    sites = sqlmod.collect(prog)
    rep.fns_analysed = len(list(prog.nontest_fns(("mdk_sqlite_storage", "mdk_memory_storage"))))
    rep.counts["sql_statements"] = len(sites)
    rep.clause("C09.1 SQLite: cascade-closure of every DELETE in restore is covered by what the snapshot holds (or the DELETE is conditional on the snapshot's rows); siblings saved and re-inserted")
    rep.clause("C09.2 snapshot SELECT / restore INSERT column lists = schema columns after all migrations")
    rep.clause("C09.3 every statement in snapshot/restore/release/list is scoped to the group id (and name); prune only by created_at")
    rep.clause("C09.4 restore consumes only the named snapshot; C09.5 re-taking a snapshot replaces it; C09.6 write sets never touch messages/records/welcomes/key tables")
    rep.clause("C09.m memory backend: snapshot field coverage, restore touches only the 8 group-scoped maps with group-id filters, bookkeeping never write-locks live state")
    rep.not_decided = "byte-exact equality of restored rows; LRU eviction effects"
    bad = 0
    for s in sites:
        if s.stmt.kind in ("SELECT", "INSERT", "UPDATE", "DELETE"):
            ok, rd, wr, err = sch.explain(s.stmt.text)
            if not ok:
                bad += 1
                rep.violation("sql-parses", "%s/%s" % (s.fn.label(), s.stmt.kind), "statement does not compile against the migrated schema: %s" % err, s.loc())
    clause_sqlite(prog, rep, sch, sites)
    clause_memory(prog, rep)
    # "restores exactly that group": a restore that fails half-way must leave the live rows as they were, so the deletes and the
    # re-inserts of the SQLite restore form one transaction (the bracket rule of C12, for the restore)
    rep.clause("C09.7 the SQLite restore deletes and re-inserts inside one transaction (a refused re-insert undoes the deletes)")
    import os
    import sys
    sys.path.insert(0, os.path.dirname(os.path.abspath(__file__)))
    import c12
    ms = prog.find(adt="MdkSqliteStorage", name="rollback_group_to_snapshot", trait="MdkStorageProvider")
    rep.floor("sql-bracket", "MdkSqliteStorage::rollback_group_to_snapshot", len(ms), 1)
    if ms:
        c12.bracket(prog, rep, sites, ms[0], "rollback_group_to_snapshot", lambda st: st.kind == "BEGIN", lambda st: st.kind == "COMMIT",
                    lambda st: st.kind == "ROLLBACK" and "SAVEPOINT" not in st.text.upper())
