"""C17 — media and group-image encryption: parameter coverage of AAD / HKDF context, enc/dec sibling agreement,
hash check on every returning path, domain separation (structural clauses).  Needs the mip04 feature (quick config has it)."""
from ir import last_seg
import analysis as A
import common as K
import dtable


def aead_fns(prog, which):
    out = []
    for f in prog.nontest_fns(("mdk_core",)):
        if f.is_closure():
            continue
        for c in f.live_calls():
            if c.name == which and last_seg(c.trait) == "Aead":
                out.append((f, c))
    return out


def builder_of(prog, f, operand):
    """the workspace function whose Vec<u8> result is the operand (AAD / HKDF info)"""
    if "p" not in operand:
        return None, None
    pr = A.producers(prog, f, operand["p"][0], scope=None, max_frames=0)
    for c in pr["calls"]:
        ts = [t for t in prog.call_targets(c) if t.crate == "mdk_core"]
        if ts:
            return ts[0], c
    return None, None


def param_names(f):
    names = {}
    for name, pl in f.debug:
        if len(pl) == 1 and 1 <= pl[0] <= f.nargs:
            names[pl[0]] = name
    return names


def builder_covers_params(prog, rep, b, what):
    """every parameter of the builder reaches the returned vector through an extend/push on it"""
    names = param_names(b)
    ret_dep, _, _ = b.depends_on(0)
    ext = [c for c in b.live_calls() if c.name in ("extend_from_slice", "push", "extend", "push_str", "append") and c.args and "p" in c.args[0]]
    covered = set()
    for c in ext:
        recv, _, _ = b.depends_on(c.args[0]["p"][0])
        if not (recv & ret_dep):
            continue
        for a in c.args[1:]:
            if "p" in a:
                dep, _, _ = b.depends_on(a["p"][0])
                covered |= set(l for l in dep if 1 <= l <= b.nargs)
    for l in range(1, b.nargs + 1):
        rep.check(l in covered, "param-coverage", "%s/%s" % (what, names.get(l, "arg%d" % l)),
                  "%s parameter `%s` is bound into the %s" % (what, names.get(l, l), what),
                  "the %s no longer includes parameter `%s`: changing it does not change the %s, so tampering with it is not detected / keys collide"
                  % (what, names.get(l, l), "authenticated data" if what == "AAD" else "derived key"), b.loc())
    return names


def arg_wiring(prog, f, call):
    """for a call inside f: which of f's own parameters each argument is a copy of"""
    names = param_names(f)
    out = []
    for a in call.args:
        if "p" not in a:
            out.append("const")
            continue
        pr = A.producers(prog, f, a["p"][0], scope=set(), max_frames=0)
        ps = sorted(set(names.get(l, "arg%d" % l) for (g, l) in pr["params"] if g is f))
        out.append("+".join(ps) if ps else ("call:" + ",".join(sorted(set(x.name for x in pr["calls"])))))
    return out


def clause_media(prog, rep):
    enc = aead_fns(prog, "encrypt")
    dec = aead_fns(prog, "decrypt")
    # media functions build a Payload with aad; group-image ones pass the bytes directly
    def with_payload(lst):
        out = []
        for f, c in lst:
            aggs = [(bb, s) for bb, s in f.aggregates("Payload") if s.get("fields")]
            if aggs:
                out.append((f, c, aggs[0][1]))
        return out
    me, md = with_payload(enc), with_payload(dec)
    if not me and not md and not prog.find(name="encrypt_data_with_aad", crate="mdk_core"):
        rep.note("encrypted-media code is not compiled in this configuration (feature mip04 off): media clauses skipped")
        return
    rep.floor("aead-siblings", "AEAD encrypt / decrypt functions with associated data", min(len(me), len(md)), 1)
    wiring = {}
    builders = {}
    for label, lst in (("encrypt", me), ("decrypt", md)):
        for f, c, agg in lst:
            aad = A.agg_field_operand(agg, "aad")
            b, bc = builder_of(prog, f, aad)
            rep.check(b is not None, "aead-siblings", "%s/aad-from-builder" % label, "the AEAD call authenticates associated data built by %s" % (b.label() if b else "?"),
                      "the %s call does not pass associated data built from the file's metadata" % label, c.loc())
            if b is None:
                continue
            builders[label] = b
            wiring[label] = arg_wiring(prog, f, bc)
            ciph = [x for x in f.live_calls() if x.name == "new_from_slice"]
            wiring[label + "-cipher"] = sorted(set(" ".join(x.gen)[:60] for x in ciph))
    if "encrypt" in builders and "decrypt" in builders:
        rep.check(builders["encrypt"].path == builders["decrypt"].path, "aead-siblings", "same-aad-builder", "encrypt and decrypt use the same AAD builder",
                  "encrypt builds its AAD with %s but decrypt with %s" % (builders["encrypt"].label(), builders["decrypt"].label()))
        rep.check(wiring["encrypt"] == wiring["decrypt"], "aead-siblings", "same-aad-arguments",
                  "both pass (%s) in the same positions" % ", ".join(wiring["encrypt"]),
                  "AAD arguments differ: encrypt(%s) vs decrypt(%s)" % (", ".join(wiring["encrypt"]), ", ".join(wiring["decrypt"])))
        rep.check(wiring["encrypt-cipher"] == wiring["decrypt-cipher"] and wiring["encrypt-cipher"], "aead-siblings", "same-cipher",
                  "same AEAD construction on both sides", "cipher construction differs: %s vs %s" % (wiring["encrypt-cipher"], wiring["decrypt-cipher"]))
        builder_covers_params(prog, rep, builders["encrypt"], "AAD")
    # HKDF context builder: the info argument of Hkdf::expand
    n = 0
    for f in prog.nontest_fns(("mdk_core",)):
        if "encrypted_media" not in f.path or f.is_closure():
            continue
        for c in f.live_calls():
            if c.name == "expand" and "Hkdf" in (c.self_ty or c.path or "") and len(c.args) >= 2:
                n += 1
                b, bc = builder_of(prog, f, c.args[1])
                rep.check(b is not None, "param-coverage", "HKDF-context/builder", "the HKDF info is built by %s" % (b.label() if b else "?"),
                          "the media key derivation does not use a context built from the file's metadata", c.loc())
                if b is None:
                    continue
                builder_covers_params(prog, rep, b, "HKDF context")
                w = arg_wiring(prog, f, bc)
                direct = False
                if "p" in c.args[1]:
                    # the same fact read off the deriving function itself (the builder may be a method of a small struct holding the
                    # four values, or written inline): the info bytes depend on the scheme label and on the hash, MIME type and file
                    # name parameters
                    dep, dcalls, _ = f.depends_on(c.args[1]["p"][0])
                    pn = set((f.local_name(l) or "") for l in dep if 1 <= l <= f.nargs)
                    direct = (any("hash" in x for x in pn) and any("mime" in x for x in pn) and any("filename" in x or "file_name" in x for x in pn)
                              and any(x.name == "get_scheme_label" or any(t.name == "get_scheme_label" for t in prog.call_targets(x)) for x in dcalls))
                rep.check(direct or (len(set(x for x in w if not x.startswith(("const", "call")))) >= 3 and any(x.startswith("call") for x in w)), "param-coverage", "HKDF-context/arguments",
                          "context arguments: %s" % w, "the HKDF context is not fed with the scheme label, hash, MIME type and file name: %s" % w, bc.loc())
                # input keying material is the exporter secret parameter
                hk = [x for x in f.live_calls() if x.name == "new" and "Hkdf" in (x.self_ty or x.path or "")]
                ok = False
                for x in hk:
                    if len(x.args) >= 2 and "p" in x.args[1]:
                        dep, _, _ = f.depends_on(x.args[1]["p"][0])
                        if any(1 <= l <= f.nargs and "Secret" in f.locals[l] for l in dep):
                            ok = True
                rep.check(ok, "param-coverage", "HKDF-context/ikm", "the HKDF input keying material is the exporter-secret parameter", "the HKDF input is not the exporter secret", c.loc())
                # unsupported scheme versions are refused before derivation
                vg = A.variant_guard_fns(prog, "EncryptedMediaError", "UnknownSchemeVersion")
                gcs = [x for x in f.live_calls() if any(t.path in vg for t in prog.call_targets(x))]
                rep.check(bool(gcs) and A.succ_dominated(f, c.bb, gcs), "param-coverage", "scheme-version-checked",
                          "an unknown scheme version is refused before any key is derived", "a key is derived although the scheme version was not checked", c.loc())
    rep.floor("param-coverage", "HKDF expansions in encrypted_media", n, 1)


BOUND_NAMES = ("scheme_version", "original_hash", "mime_type", "filename")


def _binding_sig(prog, f, operand):
    """copy-provenance signature of a value inside f: (own parameters it is a copy of, fields selected on the way, producing calls)"""
    if "p" not in operand:
        return ("const",), (), ()
    names = param_names(f)
    pr = A.producers(prog, f, operand["p"][0], scope=set(), max_frames=0)
    fields = set(pr["fields"]) | set(e[1:] for e in operand["p"][1:] if isinstance(e, str) and e.startswith(".") and not e[1:].isdigit())
    roots = set(names.get(l, "arg%d" % l) for (g, l) in pr["params"] if g is f)
    caps = _captures(prog, f)
    if caps and "arg1" in roots:
        # a closure body reads its inputs through the environment: name the captured variable the value is copied from
        via = set(caps[x[1]][0] for x in A.copy_sources(f, operand["p"][0]) if isinstance(x, tuple) and x[0] == 1 and len(x) >= 2 and x[1] in caps)
        if via:
            roots = (roots - {"arg1"}) | via
    return (tuple(sorted(roots)), tuple(sorted(fields)), tuple(sorted(set(c.name for c in pr["calls"]))))


def _captures(prog, f):
    """closure body: captured variable index -> (name, type of the enclosing function's variable of that name)"""
    out = {}
    if not f.is_closure() or f.root not in prog.fns:
        return out
    r = prog.fns[f.root]
    rtypes = {}
    for name, pl in r.debug:
        if len(pl) == 1:
            rtypes.setdefault(name, r.locals[pl[0]])
    for name, pl in f.debug:
        if len(pl) >= 2 and pl[0] == 1 and isinstance(pl[1], str) and pl[1][1:].isdigit():
            out[pl[1]] = (name, rtypes.get(name, ""))
    return out


def _param_types(prog, f):
    """named inputs of f and their types: its parameters, and for a closure body the variables it captures"""
    out = {pname: f.locals[l] for l, pname in param_names(f).items()}
    for idx, (name, ty) in _captures(prog, f).items():
        out.setdefault(name, ty)
    return out


def clause_binding_agreement(prog, rep):
    """within one function, the scheme version / content hash / MIME type / file name bound into the key, into the AAD and
    into the published record are the same values: a raw parameter on one side and its canonicalised form (or another
    field) on the other makes the key underivable from what the receiver is told"""
    n = m = 0
    for f in prog.nontest_fns(("mdk_core",)):
        if "encrypted_media" not in f.path or f.derived:
            continue
        uses = {}
        for c in f.live_calls():
            ts = [t for t in prog.call_targets(c) if t.crate == "mdk_core" and "encrypted_media" in t.path and not t.is_closure()]
            if not ts:
                continue
            pn = param_names(ts[0])
            hit = [(i, pn[i]) for i in sorted(pn) if pn[i] in BOUND_NAMES]
            if len(hit) < 2:
                continue
            for i, name in hit:
                if i - 1 < len(c.args):
                    uses.setdefault(name, []).append((c.name, _binding_sig(prog, f, c.args[i - 1]), c.loc()))
        for bb, agg in f.aggregates():
            if "encrypted_media" not in (agg.get("adt") or "") or not agg.get("fields"):
                continue
            for name in BOUND_NAMES:
                o = A.agg_field_operand(agg, name)
                if o is not None:
                    uses.setdefault(name, []).append((last_seg(agg["adt"]) + "{}", _binding_sig(prog, f, o), f.loc()))
        for name, us in sorted(uses.items()):
            # decrypt side: a value taken from the parsed reference is the reference's field of the same name
            for w, sig, loc in us:
                if sig[0] and any("MediaReference" in ty for pname, ty in _param_types(prog, f).items() if pname in sig[0]):
                    m += 1
                    rep.check(sig[1] == (name,), "aead-siblings", "reference-field/%s/%s/%s" % (f.label(), w, name),
                              "%s receives the reference's `%s` as its `%s`" % (w, name, name),
                              "%s receives %s of the reference as its `%s`: the receiver derives the key / AAD from another field than the sender bound" % (w, sig[1], name), loc)
            if len(us) < 2:
                continue
            n += 1
            raw = set(bool(sig[0]) and not sig[1] for _, sig, _ in us)       # a bare copy of one of f's own parameters
            flds = set(sig[1] for _, sig, _ in us if sig[1])
            roots = set(sig[0] for _, sig, _ in us if sig[0])
            good = len(raw) == 1 and len(flds) <= 1 and len(roots) <= 1
            if good and flds:
                good = all(name in fl for fl in flds)
            desc = "; ".join("%s<-%s" % (w, "/".join(sig[0] + tuple("." + x for x in sig[1]) + tuple(x + "()" for x in sig[2])) or "?") for w, sig, _ in us)
            rep.check(good, "aead-siblings", "binding-agreement/%s/%s" % (f.label(), name),
                      "every use of `%s` in %s binds the same value (%s)" % (name, f.label(), desc),
                      "`%s` is bound from different values in %s: %s — the key / associated data no longer match what is published for the receiver" % (name, f.label(), desc),
                      us[0][2])
    rep.floor("aead-siblings", "metadata values bound at two or more sites of one function", n, 4)
    rep.floor("aead-siblings", "key / AAD arguments taken from a parsed MediaReference", m, 11)


NORMALISERS = ("trim", "trim_start", "trim_end", "trim_matches", "trim_start_matches", "trim_end_matches", "to_lowercase", "to_uppercase",
               "to_ascii_lowercase", "to_ascii_uppercase", "replace", "replacen", "strip_prefix", "strip_suffix", "nfc", "nfkc")


def clause_imeta_verbatim(prog, rep):
    """the receiver derives key and AAD from the file name / version / hash it reads out of the imeta tag; the sender bound the values
    exactly as given.  The tag parser therefore takes the values verbatim: no trimming / case folding / replacing between the tag
    entry and the stored MediaReference (MIME canonicalisation happens in the shared validator on both sides)."""
    fs = [f for f in prog.nontest_fns(("mdk_core",)) if "encrypted_media" in f.path and not f.is_closure()
          and any(True for _ in f.aggregates("MediaReference")) and any(c.name in ("splitn", "split_once", "split") for c in f.live_calls())]
    rep.floor("aead-siblings", "imeta tag parser (builds a MediaReference from tag entries)", len(fs), 1)
    for f in fs:
        fam = prog.family(f)
        bad = []
        for g in fam:
            for c in g.live_calls():
                if c.name in NORMALISERS and (c.krate in ("core", "alloc", "std")):
                    bad.append("%s()" % c.name)
                for a in c.args:
                    fnp = (a.get("c") or {}).get("fn") if isinstance(a, dict) else None
                    if fnp and fnp.split("::")[-1] in NORMALISERS:
                        bad.append("%s (passed to %s)" % (fnp.split("::")[-1], c.name))
            for bb, st in g.stmts():
                for o in st.get("o", []):
                    fnp = (o.get("c") or {}).get("fn") if isinstance(o, dict) else None
                    if fnp and fnp.split("::")[-1] in NORMALISERS:
                        bad.append(fnp.split("::")[-1])
        rep.check(not bad, "aead-siblings", "imeta-values-verbatim/%s" % f.label(),
                  "tag values reach the MediaReference as written (no trimming / case folding in the parser)",
                  "the imeta parser normalises values (%s): a file name the sender bound with leading / trailing whitespace (accepted by the "
                  "validator) is read back differently, the receiver derives another key and decryption fails" % ", ".join(sorted(set(bad))), f.loc())


def clause_epoch_hint_key(prog, rep):
    """the epoch under which a file's key was derived is recovered from the announcing message; the lookup key must identify *that
    upload*: the nonce is unique per upload, the content hash is shared by every re-upload of the same file (whose keys come from other
    epochs), so a lookup by hash alone can return another upload's epoch"""
    n = 0
    for f in prog.nontest_fns(("mdk_core",)):
        if "encrypted_media" not in f.path:
            continue
        for c in f.live_calls():
            if K.is_storage_trait_call(c, "find_message_epoch_by_tag_content") and c.args and "p" in c.args[-1]:
                n += 1
                og = A.origins(prog, f, c.args[-1]["p"][0], scope=None, max_frames=0)
                rep.check("nonce" in og.fields, "hash-after-decrypt", "epoch-hint/lookup-key-identifies-upload",
                          "the epoch hint is looked up by a value unique to the upload (fields: %s)" % sorted(x for x in og.fields if x in ("nonce", "original_hash", "filename", "url")),
                          "the epoch hint is looked up by %s only: the same file shared in two epochs has one hash but two keys, so one of the "
                          "uploads is decrypted with the other's epoch and fails for good" % sorted(x for x in og.fields if x in ("original_hash", "filename", "url", "mime_type")), c.loc())
    rep.floor("hash-after-decrypt", "epoch hint lookups", n, 1)


def clause_hash_check(prog, rep):
    """the decrypted bytes are returned only after their hash was compared with the announced one"""
    core = K.core_scope(prog)
    sites = []
    for f in prog.nontest_fns(("mdk_core",)):
        for bb, s in f.aggregates("EncryptedMediaError", "HashVerificationFailed"):
            sites.append((f, bb))
    if not sites:
        if prog.find(name="decrypt_from_download", crate="mdk_core"):
            rep.violation("hash-after-decrypt", "EncryptedMediaError::HashVerificationFailed", "the post-decryption hash check is gone")
        return
    dec = A.ReachCache(prog, lambda c: c.name == "decrypt" and last_seg(c.trait) == "Aead")
    checkers = set()
    for f, bb in sites:
        ok = False
        for w in A.control_dependent_switches(f, bb):
            l = A._opl(f.term(w)["discr"])
            og = A.origins(prog, f, l, scope=None, max_frames=0)
            if og.has_call(lambda c: c.name == "digest") and "original_hash" in og.fields and og.has_call(lambda c: c.name in ("ne", "eq")) \
                    and og.has_call(lambda c: dec.call(c)):
                ok = True
                # Ok return only on the equal side: every path from the decrypt call to an Ok return passes this switch
                dcs = [c for c in f.live_calls() if dec.call(c)]
                for dc in dcs:
                    if "to" in dc.t:
                        r = A.reach_without_edges(f, dc.t["to"], set(), frozenset([w]) | A.err_exit_blocks(f))
                        if any(f.term(b)["k"] == "return" for b in r):
                            ok = False
        # the same decision written as a value (`(digest == announced).then_some(bytes).ok_or(HashVerificationFailed)`): the comparison
        # feeds the conversion that carries this very error, and the table below settles the sides
        value_form = False
        if not ok:
            errs = set(s0["d"][0] for b0, s0 in f.aggregates("EncryptedMediaError", "HashVerificationFailed") if len(s0["d"]) == 1)
            for k in f.live_calls():
                if k.name not in ("ok_or", "ok_or_else") or len(k.args) != 2 or "p" not in k.args[0] or "p" not in k.args[1]:
                    continue
                if not (A.copy_sources(f, k.args[1]["p"][0]) & errs):
                    continue
                og = A.origins(prog, f, k.args[0]["p"][0], scope=None, max_frames=0)
                if og.has_call(lambda c: c.name == "digest") and "original_hash" in og.fields and og.has_call(lambda c: c.name in ("ne", "eq")) \
                        and og.has_call(lambda c: dec.call(c)) and og.has_call(lambda c: c.name == "then_some"):
                    value_form = True
        # decision table: whenever the hashes differ, every explored path ends in an error
        tables_ok = True
        adt_of = {}
        for bb0, s0 in f.stmts():
            if s0.get("k") == "discr":
                adt_of[bb0] = last_seg(s0.get("adt"))
        for differ in (0, 1):
            def hook(cal, args, differ=differ):
                # the comparison of the computed digest with the announced hash, whatever the operand types ([u8; 32], &[u8], ...)
                if cal.get("name") in ("ne", "eq") and last_seg(cal.get("trait")) == "PartialEq" and len(args) == 2 and (
                        "u8; 32" in " ".join(cal.get("gen") or []) or ("digest" in repr(args) and "original_hash" in repr(args))):
                    return ("int", differ if cal["name"] == "ne" else 1 - differ)
                if any("tracing" in e for e in (cal.get("expn") or [])) and cal.get("name") in ("le", "lt"):
                    return ("int", 0)
                return None

            def pol(bb0, v, t):
                # lookups this decision does not concern (no epoch hint, no stored secret) take their present side
                pick = {"ControlFlow": 0, "Result": 0, "Option": 1}.get(adt_of.get(bb0))
                if pick is None:
                    return None
                for val, tb in t["targets"]:
                    if val == pick:
                        return tb
                return t["otherwise"]
            ev = dtable.Evaluator(f, lambda v: None, lambda a, b: None, pol, call_hook=hook)
            # only the paths on which the ciphertext was actually decrypted are this decision's (an early exit before that is not)
            ev.log_pred = lambda cal: "dec" if (cal.get("name") == "decrypt" and last_seg(cal.get("trait")) == "Aead") \
                or dec.fn(cal.get("resolved") or cal.get("path")) else None
            try:
                ev.run_all({l: ("param", "arg%d" % l, l) for l in range(1, f.nargs + 1)})
                results = [r for r, lg in ev.path_logs if "dec" in lg]
                kinds = set(r[2] if r and r[0] == "variant" and r[1] == "Result" else "?" for r in results) or {"no path decrypts"}
            except dtable.Undecided as e:
                kinds = {"undecided: %s" % e}
            want = {"Err"} if differ else {"Ok"}
            tables_ok = tables_ok and kinds == want
            rep.check(kinds == want, "hash-after-decrypt", "%s/table/hash-%s" % (f.label(), "differs" if differ else "matches"),
                      "hash %s -> %s on every explored path" % ("differs" if differ else "matches", sorted(kinds)),
                      "with the decrypted bytes' hash %s the announced one the function can end in %s (expected %s)" % ("differing from" if differ else "equal to", sorted(kinds), sorted(want)), f.loc())
        ok = ok or (value_form and tables_ok)
        rep.check(ok, "hash-after-decrypt", "%s/compare" % f.label(), "SHA-256 of the decrypted bytes is compared with the announced original_hash before they are returned",
                  "decrypted bytes can be returned without comparing their hash with original_hash", f.loc())
        if ok:
            checkers.add(f.path)
    # every route from the public API to the AEAD decrypt goes through the checking function
    wrappers = [g for g in prog.nontest_fns(("mdk_core",)) if "encrypted_media" in g.path
                and any(c.name == "decrypt" and last_seg(c.trait) == "Aead" for c in g.live_calls())]
    for e in prog.find(name="decrypt_from_download", crate="mdk_core"):
        ext = prog.extent(e)
        bad = []
        for wfn in wrappers:
            if wfn.path in checkers:
                continue
            for p in prog.redges().get(wfn.path, ()):
                if p in ext and p not in checkers:
                    bad.append(prog.fns[p].label())
        rep.check(bool(wrappers) and not bad, "hash-after-decrypt", "decrypt_from_download/all-routes-checked",
                  "the AEAD decryption is only called from the hash-checking function on every route from decrypt_from_download",
                  "AEAD decryption is called from %s, which does not compare the hash" % sorted(set(bad)), e.loc())


def _only_via(prog, t, checkers, dec):
    return not dec.fn(t.path)


def _called_only_from(prog, g, checkers, entry):
    ext = prog.extent(entry)
    callers = [p for p in prog.redges().get(g.path, ()) if p in ext]
    return all(p in checkers for p in callers) and bool(callers)


def clause_group_image(prog, rep):
    fs = prog.find(name="decrypt_group_image", crate="mdk_core")
    rep.floor("group-image", "decrypt_group_image", len(fs), 1)
    for f in fs:
        decs = [c for c in f.live_calls() if c.name == "decrypt" and last_seg(c.trait) == "Aead"]
        rep.floor("group-image", "AEAD decrypt calls", len(decs), 1)
        errs = [bb for bb, s in f.aggregates("GroupImageError", "HashVerificationFailed")]
        rep.check(bool(errs), "group-image", "hash-mismatch-error", "a blob hash mismatch is an error", "HashVerificationFailed is no longer produced", f.loc())
        # when a hash is supplied, the comparison precedes decryption: on the Some side every path to a decrypt passes the compare switch equal side
        arms_some = []
        for bb, s in f.stmts():
            if s.get("k") == "discr" and last_seg(s.get("adt")) == "Option":
                dep, _, _ = f.depends_on(s["d"][0])
                if any(1 <= l <= f.nargs and "[u8; 32]" in f.locals[l] and "Option" in f.locals[l] for l in dep):
                    t = f.term(bb)
                    if t["k"] == "switch":
                        tg = dict((v, b) for v, b in t["targets"])
                        arms_some.append(tg.get(1, t["otherwise"]))
        ok = bool(arms_some)
        for arm in arms_some:
            cmp_sw = []
            for eb in errs:
                cmp_sw += A.control_dependent_switches(f, eb, within=f.reachable_from(arm))
            cmp_sw = [w for w in cmp_sw if any(c.name in ("ne", "eq") for c in f.depends_on(A._opl(f.term(w)["discr"]))[1])]
            r = A.reach_without_edges(f, arm, set(), frozenset(cmp_sw))
            if not cmp_sw or any(c.bb in r for c in decs):
                ok = False
        rep.check(ok, "group-image", "hash-before-decrypt", "when a hash is published, the blob's SHA-256 is compared before any decryption",
                  "the group image is decrypted without first comparing the blob hash although one was published", f.loc())
        # two formats are in use (v2: key derived from a seed, v1: the key itself); whether the v1 attempt follows a failed v2 attempt
        # does not depend on whether a hash was published — a legacy extension publishes none
        if len(decs) >= 2:
            hash_params = set(l for l in range(1, f.nargs + 1) if "[u8; 32]" in f.locals[l] and "Option" in f.locals[l])
            pairs = [(a, b) for a in decs for b in decs if a is not b and b.bb in f.reachable_from(a.bb) and a.bb not in f.reachable_from(b.bb)]
            rep.floor("group-image", "v2 attempt followed by the v1 fallback", len(pairs), 1)
            for d1, d2 in pairs[:1]:
                r1 = f.reachable_from(d1.bb)
                bad = []
                for w in A.control_dependent_switches(f, d2.bb):
                    if w not in r1:
                        continue
                    l = A._opl(f.term(w)["discr"])
                    dep = f.depends_on(l)[0] if l is not None else set()
                    if dep & hash_params:
                        bad.append("%s:%s" % (f.file, f.term(w).get("line")))
                rep.check(not bad, "group-image", "v1-fallback-independent-of-hash",
                          "after a failed v2 attempt the v1 attempt runs whether or not a hash was published",
                          "whether the v1 (direct key) attempt follows a failed v2 attempt depends on the published hash (%s): a v1 image of an "
                          "extension without image_hash no longer decrypts" % bad, d2.loc())
    # domain separation of the HKDF labels
    consts = {}
    for f in prog.nontest_fns(("mdk_core",)):
        if "group_image" not in f.path:
            continue
        for bb, s in f.stmts():
            for o in s.get("o", []):
                c = o.get("c") if isinstance(o, dict) else None
                if c and c.get("item") and "CONTEXT" in c["item"]:
                    consts.setdefault(c["item"], set()).add(c.get("bytes") or c.get("str"))
        for pr in f.promoted:
            for c in pr:
                if c.get("item") and "CONTEXT" in c["item"]:
                    consts.setdefault(c["item"], set()).add(c.get("bytes") or c.get("str"))
    vals = [next(iter(v)) for v in consts.values() if v]
    # the labels' *values* (evaluated constants) must be known and pairwise distinct
    rep.check(len(consts) >= 2 and all(v is not None for v in vals) and len(set(vals)) == len(vals), "group-image", "domain-separation",
              "the %d HKDF context labels are pairwise distinct" % len(consts), "HKDF context labels collide or are missing: %s" % {last_seg(k): sorted(map(str, v)) for k, v in consts.items()})


def clause_accepts_agree(prog, rep):
    """what the sender accepts the receiver must accept: the file-name length bound enforced on the upload path and the one enforced when
    the imeta tag is parsed are the same *constant*.  A bound that reaches a parameter of the upload API (options) lets a sender announce a
    file whose tag every receiver refuses."""
    core = K.core_scope(prog)

    def bounds(entry_name):
        roots = [f for f in prog.nontest_fns(("mdk_core",)) if f.name == entry_name and not f.is_closure()]
        reach = set(p for p in prog.reachable(roots) if p in core)
        out = set()
        where = None
        for p in sorted(reach):
            g = prog.fns[p]
            for bb, st in g.stmts():
                if not (st.get("k") == "binop" and st.get("op") in ("Gt", "Ge", "Lt", "Le") and len(st["o"]) == 2):
                    continue
                a, b = st["o"]
                for x, y in ((a, b), (b, a)):
                    if "p" not in x:
                        continue
                    dep, calls, _ = g.depends_on(x["p"][0])
                    if not any(c.name == "len" for c in calls) or "filename" not in [g.local_name(l) for l in dep]:
                        continue
                    where = where or "%s:%s" % (g.file, st.get("line") or g.line)
                    if "c" in y and isinstance(y["c"], dict) and isinstance(y["c"].get("int"), int):
                        out.add(("const", y["c"]["int"]))
                    elif "p" in y:
                        og = A.origins(prog, g, y["p"][0], scope=reach, max_frames=4)
                        if og.params:
                            out.add(("api-parameter", "/".join(sorted(set(q.label().split("::")[-1] for q, l in og.params)))))
                        else:
                            ints = sorted(set(c["int"] for _, _, c in og.consts if isinstance(c, dict) and isinstance(c.get("int"), int) and c["int"] > 1 and c.get("ty") == "usize"))
                            out.add(("const", ints[0]) if len(ints) == 1 else ("computed", tuple(ints)))
        return out, where
    snd, w1 = bounds("encrypt_for_upload_with_options")
    rcv, w2 = bounds("parse_imeta_tag")
    rep.floor("aead-siblings", "file-name length bounds on the upload path / in the imeta parser", min(len(snd), len(rcv)), 1)
    rep.check(snd == rcv and all(k == "const" for k, _ in snd), "aead-siblings", "accepts-agree/filename-length",
              "upload and imeta parser refuse file names above the same constant %s" % sorted(snd),
              "the upload path bounds the file name by %s, the imeta parser by %s: a file the sender was allowed to encrypt and announce is "
              "refused by every receiver (or the reverse)" % (sorted(snd), sorted(rcv)), w1 or w2)


def run(ctx, rep):
    prog = ctx.prog()
    rep.fns_analysed = len(K.core_scope(prog))
    rep.clause("C17.1 every parameter of the AAD builder and of the HKDF-context builder is bound into the returned bytes")
    rep.clause("C17.2 encrypt and decrypt use the same AAD builder with the same arguments and the same AEAD; the HKDF input is the exporter secret; unknown scheme versions are refused before derivation")
    rep.clause("C17.2b inside each media function the scheme version, content hash, MIME type and file name handed to the key derivation, to the AAD and to the published record are the same values")
    rep.clause("C17.3 decrypted media bytes are returned only after their SHA-256 was compared with the announced hash, on every route from decrypt_from_download")
    rep.clause("C17.4 epoch hint provenance: stored Message.epoch is the sending epoch (decided under C02.4)")
    rep.clause("C17.5 group image: published blob hash compared before decryption; HKDF labels pairwise distinct")
    rep.not_decided = "AEAD/HKDF correctness, byte round-trips, MIME canonicalisation values"
    clause_media(prog, rep)
    if prog.find(name="encrypt_data_with_aad", crate="mdk_core"):
        clause_binding_agreement(prog, rep)
        clause_imeta_verbatim(prog, rep)
        clause_epoch_hint_key(prog, rep)
        clause_accepts_agree(prog, rep)
        K.clause_swapped_args(prog, rep, "aead-siblings", lambda fl: "encrypted_media" in fl or "media_processing" in fl, 8)
    clause_hash_check(prog, rep)
    clause_group_image(prog, rep)
    # C17.4 shares C02's clause
    import os, sys
    sys.path.insert(0, os.path.dirname(os.path.abspath(__file__)))
    import c02
    roots, scope = c02.recv_scope(prog)
    sub = type(rep)(rep.prop, rep.tier, rep.seed)
    c02.clause_store_both(prog, sub, scope)
    for o in sub.obligations:
        if o["rule"] == "message-epoch-provenance":
            o["key"] = o["key"].replace("C17/", "C17/")
            rep.obligations.append(o)
