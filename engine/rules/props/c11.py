"""C11 — restarting on persistent storage is invisible (structural clauses)."""
import re
from ir import last_seg
import analysis as A
import common as K
import predicates as P
import dtable

INTERIOR = ("Mutex<", "RwLock<", "RefCell<", "Cell<", "OnceLock<", "OnceCell<", "AtomicU", "AtomicI", "AtomicBool", "AtomicPtr", "LazyLock<")
EXPECTED_VOLATILE = {"mdk_core::epoch_snapshots::EpochSnapshotManager.inner":
                     "rebuilt from storage by ensure_hydrated (list_group_snapshots) — its coverage is clause C11.2"}


def clause_inventory(prog, rep):
    """interior-mutable state reachable from MDK<_> through workspace types (the storage itself is the persistent part)"""
    mdk = prog.adt("MDK", crate="mdk_core")
    found = {}
    seen = set()

    def walk(adt, via):
        if adt["path"] in seen:
            return
        seen.add(adt["path"])
        for v in adt["variants"]:
            for fd in v["fields"]:
                ty = fd["ty"]
                key = "%s.%s" % (adt["path"], fd["name"])
                if ty == "Storage" or fd["name"] == "storage":
                    continue
                if any(m in ty for m in INTERIOR):
                    found[key] = ty
                for p, a in prog.adts.items():
                    if a.get("local") and re.search(r"(^|[<\s,(&])%s([<>,\s)]|$)" % re.escape(p), ty):
                        walk(a, key)
    walk(mdk, "MDK")
    rep.floor("volatile-state-inventory", "workspace types reachable from MDK", len(seen), 3)
    for key, ty in sorted(found.items()):
        rep.check(key in EXPECTED_VOLATILE, "volatile-state-inventory", key,
                  "in-memory state %s: %s" % (ty, EXPECTED_VOLATILE.get(key, "")),
                  "new in-memory state %s (%s) reachable from MDK: it is lost on restart unless it is rebuilt from storage — not shown to be" % (key, ty))
    for key in EXPECTED_VOLATILE:
        if key not in found:
            rep.note("expected volatile state %s no longer present" % key)
    rep.extra["volatile_state"] = sorted(found)


def clause_hydration(prog, rep):
    mgr = [f for f in prog.nontest_fns(("mdk_core",)) if last_seg(f.self_adt) == "EpochSnapshotManager" or (f.is_closure() and "EpochSnapshotManager" in f.root)]
    snap = prog.adt("EpochSnapshot", crate="mdk_core")
    fields = [fd["name"] for fd in snap["variants"][0]["fields"]]
    # fields read by the race decision and by rollback
    readers = [f for f in mgr if (f.name in ("is_better_candidate", "rollback_to_epoch")) or (f.is_closure() and re.search(r"::(is_better_candidate|rollback_to_epoch)::", f.path))]
    rep.floor("hydration-coverage", "decision/rollback functions of the manager", len(readers), 2)
    read = set()
    for f in readers:
        for bb, s in f.stmts():
            for pl in [o["p"] for o in s.get("o", []) if "p" in o]:
                read |= set(e[1:] for e in pl[1:] if isinstance(e, str) and e.startswith(".") and e[1:] in fields)
        for c in f.calls():
            for a in c.args:
                if "p" in a:
                    read |= set(e[1:] for e in a["p"][1:] if isinstance(e, str) and e.startswith(".") and e[1:] in fields)
    rep.extra["snapshot_fields_read_by_decision"] = sorted(read)
    # hydration constructions: EpochSnapshot aggregates outside the function that creates storage snapshots
    hyd = []
    for f in mgr:
        creates = any(K.is_storage_trait_call(c, "create_group_snapshot") for c in f.live_calls())
        for bb, s in f.aggregates("EpochSnapshot"):
            if not creates and s.get("fields"):
                hyd.append((f, bb, s))
    rep.floor("hydration-coverage", "EpochSnapshot reconstruction sites (hydration)", len(hyd), 1)
    lists = any(K.is_storage_trait_call(c, "list_group_snapshots") for f in mgr for c in f.live_calls())
    rep.check(lists, "hydration-coverage", "lists-storage", "the manager rebuilds its queue from list_group_snapshots",
              "the manager never lists stored snapshots: after a restart it knows none of them")
    for f, bb, s in hyd:
        for fld in sorted(read):
            o = A.agg_field_operand(s, fld)
            const_only = False
            if o is None:
                continue
            if "c" in o:
                const_only = True
            else:
                locs, places = P.chain_locals(f, o["p"][0])
                dep, calls, consts = f.depends_on(o["p"][0])
                from_param = any(1 <= x <= f.nargs for x in dep)
                const_only = not from_param and not calls
            rep.check(not const_only, "hydration-coverage", "EpochSnapshot.%s" % fld,
                      "hydrated %s is derived from the persisted snapshot name/timestamp" % fld,
                      "hydrated EpochSnapshot.%s is a constant placeholder, but the race decision / rollback reads it: after a restart the "
                      "MIP-03 comparison for snapshots taken before the restart cannot be made (a better late commit is never adopted)" % fld,
                      "%s:%s" % (f.file, s.get("line")))


def _receiver_fields(f, place, depth=4):
    """field names on the place a receiver reference was taken from (`&(*inner).snapshots` -> {snapshots}), through plain copies / reborrows"""
    out = set(e[1:] for e in place[1:] if isinstance(e, str) and e.startswith(".") and not e[1:].isdigit())
    if depth <= 0:
        return out
    for bb, kind, x in f.defs().get(place[0], []):
        if kind == "stmt" and x.get("k") in ("ref", "use", "cast") and x.get("o") and "p" in x["o"][0]:
            out |= _receiver_fields(f, x["o"][0]["p"], depth - 1)
        elif kind == "call" and x.name in ("deref", "deref_mut", "as_ref", "as_mut", "borrow", "borrow_mut") and x.args and "p" in x.args[0]:
            out |= _receiver_fields(f, x.args[0]["p"], depth - 1)
    return out


def clause_hydrate_first(prog, rep):
    """hydration reads what is in storage into the queue; a manager method that also changes the stored snapshots or the queue hydrates
    *first*: hydrating after its own write reads that write back as a placeholder entry (timestamp 0) queued ahead of the real one, and the
    race decision made on it after a restart differs from the one a never-restarted instance makes"""
    mgr = [f for f in prog.nontest_fns(("mdk_core",)) if last_seg(f.self_adt) == "EpochSnapshotManager" and not f.is_closure()]
    n = 0
    for f in mgr:
        hyd = [c for c in f.live_calls() if any(t.name == "ensure_hydrated" for t in prog.call_targets(c))]
        if not hyd:
            continue
        blocks = frozenset(c.bb for c in hyd)
        for c in f.live_calls():
            storage = (c.trait or "").startswith("mdk_storage_traits::") and c.name in ("create_group_snapshot", "release_group_snapshot", "rollback_group_to_snapshot")
            locks = c.name == "lock" and "Mutex" in (c.self_ty or c.self_adt or "")
            if not (storage or locks) or c in hyd:
                continue
            n += 1
            ok = c.bb not in A.reach_without_edges(f, 0, set(), blocks) or 0 in blocks
            rep.check(ok, "hydration-coverage", "%s/hydrate-first/%s" % (f.label(), c.name),
                      "ensure_hydrated runs before this %s" % ("storage call" if storage else "access to the queue"),
                      "%s can reach %s without having hydrated the queue first (hydration after the method's own write reads that write back as a "
                      "placeholder entry ahead of the real one)" % (f.label(), c.name), c.loc())
    rep.floor("hydration-coverage", "storage calls / queue accesses in hydrating manager methods", n, 4)
    # every *entry point* of the manager (a method no other manager method calls) that touches the queue or the stored snapshots hydrates:
    # an append that skips hydration leaves the pre-restart snapshots unknown to the retention loop and to rollback
    mgr_paths = set(f.path for f in mgr)
    ne = 0
    for f in mgr:
        if f.name in ("new", "fmt", "default", "ensure_hydrated") or f.is_test_like():
            continue
        callers = [cp for cp in prog.redges().get(f.path, ()) if cp in prog.fns and (cp in mgr_paths or prog.fns[cp].root in mgr_paths) and cp != f.path]
        if callers:
            continue
        touches = [c for c in f.live_calls() if (c.name == "lock" and "Mutex" in (c.self_ty or c.self_adt or ""))
                   or ((c.trait or "").startswith("mdk_storage_traits::") and c.name in ("create_group_snapshot", "release_group_snapshot", "rollback_group_to_snapshot"))]
        if not touches:
            continue
        ne += 1
        hyd = [c for c in f.live_calls() if any(t.name == "ensure_hydrated" for t in prog.call_targets(c))]
        rep.check(bool(hyd), "hydration-coverage", "%s/hydrates" % f.label(), "the entry point hydrates the queue from storage",
                  "%s touches the snapshot queue / stored snapshots without ever calling ensure_hydrated: after a restart the snapshots taken "
                  "before it stay unknown (not pruned by retention, not released on rollback)" % f.label(), f.loc())
    rep.floor("hydration-coverage", "manager entry points touching the queue", ne, 3)
    # whether hydration is skipped is decided by the hydrated-groups set alone: a non-empty queue says nothing about what is in storage
    for f in mgr:
        if f.name != "ensure_hydrated":
            continue
        lists = [c for c in f.live_calls() if K.is_storage_trait_call(c, "list_group_snapshots")]
        rep.floor("hydration-coverage", "ensure_hydrated lists the stored snapshots", len(lists), 1)
        for c in lists[:1]:
            extra = set()
            for w in A.control_dependent_switches(f, c.bb):
                l = A._opl(f.term(w)["discr"])
                if l is None:
                    continue
                # the tests that feed this switch, and the field of the manager state each one is made on (the receiver's place)
                for tc in f.depends_on(l)[1]:
                    if tc.name not in ("contains", "contains_key", "get", "get_mut", "is_empty", "len", "is_some_and", "is_some", "is_none", "front", "back", "iter"):
                        continue
                    if tc.args and "p" in tc.args[0]:
                        extra |= _receiver_fields(f, tc.args[0]["p"]) & {"snapshots"}
            rep.check(not extra, "hydration-coverage", "ensure_hydrated/skip-decided-by-hydrated-set",
                      "hydration is skipped only for groups recorded as hydrated",
                      "ensure_hydrated also skips the listing depending on the in-memory queue (%s): a queue that already holds a snapshot taken "
                      "after the restart hides every snapshot taken before it" % sorted(extra), c.loc())


PARSERS = ("parse", "from_str", "from_str_radix", "from_hex")
LISTING = ("next", "into_iter", "iter", "list_group_snapshots")
UNWRAPPERS = ("ok", "branch", "unwrap", "expect", "unwrap_or_default", "ok_or", "ok_or_else", "map_err", "unwrap_or", "into_inner")


def _sources(prog, f, local):
    """copy provenance that also looks through Result/Option plumbing (`.ok()?`, `?`, unwrap)"""
    calls, params, seen, todo = [], [], set(), [local]
    while todo:
        l = todo.pop()
        if l in seen:
            continue
        seen.add(l)
        pr = A.producers(prog, f, l, scope=set(), max_frames=0)
        params += pr["params"]
        for c in pr["calls"]:
            if c.name in UNWRAPPERS and c.krate in ("core", "std", "alloc") and c.args and "p" in c.args[0]:
                todo.append(c.args[0]["p"][0])
            else:
                calls.append(c)
    return calls, params


def clause_hydration_sources(prog, rep):
    """a hydrated field that is not a placeholder must come from the channel the creating side wrote it to: the snapshot name
    (parsed) or the group id it was listed under — never from the row's own creation time or another unrelated column"""
    mgr = [f for f in prog.nontest_fns(("mdk_core",)) if last_seg(f.self_adt) == "EpochSnapshotManager" or (f.is_closure() and "EpochSnapshotManager" in f.root)]
    n = 0
    for f in mgr:
        if any(K.is_storage_trait_call(c, "create_group_snapshot") for c in f.live_calls()):
            continue
        for bb, s in f.aggregates("EpochSnapshot"):
            if not s.get("fields"):
                continue
            for fld in ("epoch", "applied_commit_id", "applied_commit_ts", "snapshot_name", "group_id"):
                o = A.agg_field_operand(s, fld)
                if o is None or "p" not in o:
                    continue
                calls, params = _sources(prog, f, o["p"][0])
                n += 1
                bad = [c.name for c in calls if c.name not in PARSERS]
                if bad and fld in ("snapshot_name", "group_id") and all(c.name in LISTING or K.is_storage_trait_call(c, "list_group_snapshots") for c in calls if c.name not in PARSERS):
                    # the hydrating loop written out in this function (the parser folded into it): the value is the listed name itself —
                    # every plain value on its copy chain is a string / group id, never a number (the row's creation time)
                    chain = [x for x in A.copy_sources(f, o["p"][0]) if isinstance(x, int)]
                    plain = [f.locals[x] for x in chain if "(" not in f.locals[x] and not any(t in f.locals[x] for t in ("Option", "IntoIter", "Iter<", "Vec<", "ControlFlow", "Result"))]
                    if plain and all(("str" in t or "String" in t or "GroupId" in t) for t in plain):
                        bad = []
                badp = []
                for g, l in params:
                    ty = g.locals[l]
                    if not ("str" in ty or "String" in ty or "GroupId" in ty):
                        badp.append("%s: %s" % (dict((v, k) for k, v in [(nm, pl[0]) for nm, pl in g.debug if len(pl) == 1]).get(l, "arg%d" % l), ty))
                rep.check(not bad and not badp, "hydration-coverage", "EpochSnapshot.%s/source" % fld,
                          "hydrated %s is parsed from the persisted name / taken from the listed group id" % fld,
                          "hydrated EpochSnapshot.%s is taken from %s — a value the snapshot's creator never wrote there (e.g. the row's creation time): "
                          "after a restart the race decision is made against a wrong incumbent" % (fld, ", ".join(bad + badp)),
                          "%s:%s" % (f.file, s.get("line")))
    rep.floor("hydration-coverage", "hydrated fields with a non-constant source", n, 4)


REMOVERS_RETURNING = ("pop_front", "pop_back", "split_off", "remove", "drain", "swap_remove_back", "swap_remove_front")
REMOVERS_SILENT = ("truncate", "clear", "retain", "retain_mut", "resize", "resize_with")


def clause_queue_storage_agreement(prog, rep):
    """the in-memory queue is a cache of the stored snapshots: whatever leaves the queue is released (or consumed by a rollback)
    in storage, otherwise the stored set and the queue differ and a restart re-hydrates snapshots the running process had dropped"""
    mgr = [f for f in prog.nontest_fns(("mdk_core",)) if last_seg(f.self_adt) == "EpochSnapshotManager" or (f.is_closure() and "EpochSnapshotManager" in f.root)]
    n = 0
    for f in mgr:
        stor = [c for c in f.live_calls() if K.is_storage_trait_call(c, "release_group_snapshot") or K.is_storage_trait_call(c, "rollback_group_to_snapshot")]
        fed = set()
        released_in_place = []     # releases naming entries read in place (iter / index), e.g. before a truncate
        for rl in stor:
            if "p" in rl.args[-1]:
                og = A.origins(prog, f, rl.args[-1]["p"][0], scope=None, max_frames=0)
                # a *release* of entries iterated out of the queue (a loop over iter()/range()); the single entry handed to the
                # storage rollback by index is not a release of the others
                if K.is_storage_trait_call(rl, "release_group_snapshot") and og.has_call(lambda x: last_seg(x.self_adt) == "VecDeque" and x.name in ("iter", "iter_mut", "range", "range_mut")):
                    released_in_place.append(rl)
                for c in f.live_calls():
                    if c.name in REMOVERS_RETURNING and og.has_call(lambda x, c=c: x is c or (x.bb == c.bb and x.name == c.name)):
                        fed.add(c.bb)
        for c in f.live_calls():
            if last_seg(c.self_adt) != "VecDeque" or "EpochSnapshot" not in " ".join(c.gen or []) + (c.self_ty or ""):
                continue
            if c.name in REMOVERS_SILENT:
                n += 1
                if any(c.bb in f.reachable_from(rl.bb) for rl in released_in_place):
                    rep.ok("queue-storage-agreement", "%s/%s" % (f.label(), c.name),
                           "the entries dropped by VecDeque::%s were released in storage while still in the queue" % c.name, c.loc())
                    continue
                rep.violation("queue-storage-agreement", "%s/%s" % (f.label(), c.name),
                              "entries are dropped from the snapshot queue with VecDeque::%s without releasing them in storage: the stored set "
                              "and the queue diverge, and a restart re-hydrates snapshots the running process no longer knows" % c.name, c.loc())
            elif c.name in REMOVERS_RETURNING:
                n += 1
                rep.check(c.bb in fed, "queue-storage-agreement", "%s/%s" % (f.label(), c.name),
                          "what VecDeque::%s takes out of the queue is released / consumed in storage" % c.name,
                          "entries taken out of the snapshot queue by VecDeque::%s never reach release_group_snapshot / rollback_group_to_snapshot: "
                          "they stay in storage and are re-hydrated after a restart" % c.name, c.loc())
    rep.floor("queue-storage-agreement", "removals from the snapshot queue", n, 3)


def clause_self_update_mapping(prog, rep):
    """SelfUpdateState <-> last_self_update_at: 0 <-> Required in save and load"""
    sg = prog.find(adt="MdkSqliteStorage", name="save_group", trait="GroupStorage")
    rg = [f for f in prog.nontest_fns(("mdk_sqlite_storage",)) if f.name == "row_to_group" and not f.is_closure()]
    rep.floor("self-update-mapping", "save_group / row_to_group", min(len(sg), len(rg)), 1)
    if not sg or not rg:
        return
    # save: on the Required arm the stored integer is the literal 0
    f = sg[0]
    ok_save = False
    for g in P.family(prog, f):
        for w, arm in A.variant_arms(prog, g, "SelfUpdateState", "Required"):
            for bb, s in g.stmts():
                if bb == arm and s.get("k") == "use" and s["o"] and "c" in s["o"][0] and s["o"][0]["c"].get("int") == 0:
                    ok_save = True
    rep.check(ok_save, "self-update-mapping", "save/Required->0", "Required is stored as 0", "SelfUpdateState::Required is not stored as 0", f.loc())
    # load: the integer 0 maps to Required, anything else to CompletedAt
    g = rg[0]
    ok_load = False

    def first_variant(start):
        seen = set()
        st = [start]
        while st:
            b = st.pop(0)
            if b in seen:
                continue
            seen.add(b)
            for b2, s2 in g.stmts():
                if b2 == b and s2.get("k") == "agg" and last_seg(s2.get("adt")) == "SelfUpdateState":
                    return s2["variant"]
            if g.term(b)["k"] == "switch":
                continue
            st.extend(g.succs()[b])
        return None
    for bb in range(g.nblocks()):
        t = g.term(bb)
        if t["k"] == "switch":
            tg = dict((v, b) for v, b in t["targets"])
            if 0 in tg and first_variant(tg[0]) == "Required" and first_variant(t["otherwise"]) == "CompletedAt":
                l = A._opl(t["discr"])
                dep, calls, consts = g.depends_on(l)
                if any(isinstance(k, dict) and k.get("str") == "last_self_update_at" for _, k in consts):
                    ok_load = True
            # the same mapping written as a comparison (`if secs == 0 { Required } else { CompletedAt(..) }`)
            l = A._opl(t["discr"])
            for b2, kind, x in g.defs().get(l, []) if l is not None else []:
                if kind == "stmt" and x.get("k") == "binop" and x.get("op") in ("Eq", "Ne") and len(x.get("o", [])) == 2:
                    zero = [o for o in x["o"] if isinstance(o.get("c"), dict) and o["c"].get("int") == 0]
                    other = [o for o in x["o"] if "p" in o]
                    if len(zero) != 1 or len(other) != 1:
                        continue
                    true_side = tg.get(1, t["otherwise"])
                    false_side = tg.get(0, t["otherwise"])
                    zside, nzside = (true_side, false_side) if x["op"] == "Eq" else (false_side, true_side)
                    if first_variant(zside) == "Required" and first_variant(nzside) == "CompletedAt":
                        _, _, consts = g.depends_on(other[0]["p"][0])
                        if any(isinstance(k, dict) and k.get("str") == "last_self_update_at" for _, k in consts):
                            ok_load = True
    rep.check(ok_load, "self-update-mapping", "load/0->Required", "0 loads as Required, other values as CompletedAt",
              "row_to_group no longer maps 0 -> Required / ts -> CompletedAt", g.loc())


def run(ctx, rep):
    prog = ctx.prog()
    rep.fns_analysed = len(K.core_scope(prog))
    rep.clause("C11.1 inventory: the only interior-mutable in-memory state reachable from MDK<_> (besides the storage) is EpochSnapshotManager.inner")
    rep.clause("C11.2 hydration coverage: every EpochSnapshot field read by the race decision or rollback is reconstructed from persisted data, not a constant")
    rep.clause("C11.2b a hydrated field that is not a placeholder is parsed from the persisted snapshot name (or is the listed group id), never another column such as the row's creation time")
    rep.clause("C11.2c queue/storage agreement: every removal from the in-memory snapshot queue is paired with a storage release or is the snapshot consumed by the storage rollback")
    rep.clause("C11.3 persisted enum/column round-trip tables (decided under C10); SelfUpdateState 0<->Required mapping identical in save and load")
    rep.clause("C11.4 build() prunes only when persistent (decided under C20)")
    rep.not_decided = "equivalence of runs with and without restarts; migration idempotence (refinery bookkeeping at run time)"
    clause_inventory(prog, rep)
    clause_hydration(prog, rep)
    clause_hydration_sources(prog, rep)
    clause_hydrate_first(prog, rep)
    import os
    import sys
    sys.path.insert(0, os.path.dirname(os.path.abspath(__file__)))
    import c20
    import sqlmod
    c20.clause_list_oldest_first(prog, rep, sqlmod.collect(prog), rule="hydration-coverage")
    clause_queue_storage_agreement(prog, rep)
    clause_self_update_mapping(prog, rep)
