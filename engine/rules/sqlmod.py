"""SQL analysis with the real parser: the migrations are applied to an in-memory sqlite3 database (schema artefact
only — no mdk code runs), every SQL string constant found in the MIR of mdk-sqlite-storage is compiled with EXPLAIN
against that schema, and a small clause extractor pulls WHERE conjuncts, ORDER BY, LIMIT/OFFSET, column lists and
upsert sets out of the statement text."""
import glob
import os
import re
import sqlite3

import extract

# a statement, not an English sentence that happens to start with the same word ("delete encryption key from", "Update failed"):
# the keyword is followed by what SQL requires after it
SQL_START = re.compile(r"^\s*(SELECT\s+(?:.*\sFROM\s|\d|EXISTS\b|COUNT\b|\*|[\w.]+\s*(?:,|$|\())|INSERT\s+(?:OR\s+\w+\s+)?INTO\b|REPLACE\s+INTO\b|"
                       r"UPDATE\s+(?:OR\s+\w+\s+)?[\w\"\[\]`.{}]+\s+SET\b|DELETE\s+FROM\b|"
                       r"BEGIN(?:\s+(?:IMMEDIATE|DEFERRED|EXCLUSIVE|TRANSACTION)\b.*)?\s*;?\s*$|COMMIT\b\s*(?:TRANSACTION)?\s*;?\s*$|END\s+TRANSACTION\b|"
                       r"ROLLBACK\b\s*(?:TRANSACTION\b)?\s*(?:TO\b.*)?;?\s*(?:;.*)?$|SAVEPOINT\s+\w+|RELEASE\s+(?:SAVEPOINT\s+)?\w+\s*;?\s*$|PRAGMA\s+[\w.]+|"
                       r"CREATE\s+(?:TEMP\w*\s+|UNIQUE\s+|VIRTUAL\s+)?(?:TABLE|INDEX|TRIGGER|VIEW)\b|WITH\s+(?:RECURSIVE\s+)?\w+\s*(?:\(|AS\b)|"
                       r"ALTER\s+TABLE\b|DROP\s+(?:TABLE|INDEX|TRIGGER|VIEW)\b)", re.I | re.S)


class Schema:
    def __init__(self, repo=None):
        repo = repo or extract.REPO
        self.dir = os.path.join(repo, "crates", "mdk-sqlite-storage", "migrations")
        self.files = sorted(glob.glob(os.path.join(self.dir, "V*.sql")),
                            key=lambda p: int(re.match(r"V(\d+)", os.path.basename(p)).group(1)))
        self.conn = sqlite3.connect(":memory:")
        self.conn.execute("PRAGMA foreign_keys = ON")
        for f in self.files:
            with open(f) as fh:
                self.conn.executescript(fh.read())
        self.tables = {}
        for (name,) in self.conn.execute("SELECT name FROM sqlite_master WHERE type='table' AND name NOT LIKE 'sqlite_%'"):
            cols = []
            for cid, cname, ctype, notnull, dflt, pk in self.conn.execute("PRAGMA table_info(%s)" % name):
                cols.append({"name": cname, "type": ctype, "notnull": bool(notnull), "default": dflt, "pk": pk})
            fks = []
            for row in self.conn.execute("PRAGMA foreign_key_list(%s)" % name):
                fks.append({"table": row[2], "from": row[3], "to": row[4], "on_delete": row[6]})
            uniq = []
            for row in self.conn.execute("PRAGMA index_list(%s)" % name):
                if row[2]:
                    icols = [r[2] for r in self.conn.execute("PRAGMA index_info(%s)" % row[1])]
                    uniq.append(icols)
            sql = self.conn.execute("SELECT sql FROM sqlite_master WHERE name=?", (name,)).fetchone()[0]
            self.tables[name] = {"columns": cols, "fks": fks, "unique": uniq, "sql": sql,
                                 "autoinc": "AUTOINCREMENT" in (sql or "").upper()}
        self.rootpage = {}
        for name, rp in self.conn.execute("SELECT name, rootpage FROM sqlite_master WHERE type IN ('table','index')"):
            self.rootpage[rp] = name
        self.index_table = {}
        for name, tbl in self.conn.execute("SELECT name, tbl_name FROM sqlite_master WHERE type='index'"):
            self.index_table[name] = tbl

    def columns(self, table):
        return [c["name"] for c in self.tables[table]["columns"]]

    def pk(self, table):
        cs = sorted([c for c in self.tables[table]["columns"] if c["pk"]], key=lambda c: c["pk"])
        return [c["name"] for c in cs]

    def cascade_children(self, table):
        return sorted(t for t, d in self.tables.items() if any(fk["table"] == table and fk["on_delete"].upper() == "CASCADE" for fk in d["fks"]))

    def cascade_closure(self, tables):
        seen = set()
        st = list(tables)
        out = set()
        while st:
            t = st.pop()
            for c in self.cascade_children(t):
                if c not in out:
                    out.add(c)
                    st.append(c)
        return out

    def explain(self, text):
        """compile with the real parser; returns (ok, read tables, written tables, error)"""
        n = nparams(text)
        try:
            rows = self.conn.execute("EXPLAIN " + text, [None] * n).fetchall()
        except sqlite3.Error as e:
            return False, set(), set(), str(e)
        rd, wr = set(), set()
        for r in rows:
            op, p1, p2 = r[1], r[2], r[3]
            if op in ("OpenRead", "OpenWrite"):
                name = self.rootpage.get(p2)
                if name is None:
                    continue
                tbl = self.index_table.get(name, name)
                (wr if op == "OpenWrite" else rd).add(tbl)
        return True, rd, wr, None

    def check_enum(self, table, column):
        """values of a CHECK (col IN (...)) constraint"""
        sql = self.tables[table]["sql"]
        m = re.search(r"CHECK\s*\(\s*%s\s+IN\s*\(([^)]*)\)" % re.escape(column), sql, re.I | re.S)
        if not m:
            return None
        return [x.strip().strip("'") for x in m.group(1).split(",") if x.strip()]


def nparams(text):
    t = strip_strings(text)
    nums = [int(x) for x in re.findall(r"\?(\d+)", t)]
    anon = len(re.findall(r"\?(?!\d)", t))
    return max(nums + [0]) + anon if not nums else max(max(nums), anon)


def strip_strings(text):
    return re.sub(r"'(?:[^']|'')*'", "''", text)


def norm(text):
    return re.sub(r"\s+", " ", text).strip()


KEYWORDS = ("SELECT", "FROM", "WHERE", "ORDER BY", "GROUP BY", "LIMIT", "OFFSET", "INSERT", "INTO", "VALUES", "UPDATE", "SET", "DELETE", "AND", "OR",
            "DESC", "ASC", "AS", "ON CONFLICT", "DO UPDATE", "DO NOTHING", "REPLACE", "DISTINCT", "EXISTS", "IS NOT", "IS", "NULL", "LIKE", "ESCAPE", "IN",
            "BEGIN", "IMMEDIATE", "COMMIT", "ROLLBACK", "SAVEPOINT", "RELEASE", "TO", "RETURNING", "NOT", "PRAGMA")


def canon(text):
    """spelling-insensitive form of one statement (string literals untouched): upper-case keywords, `REPLACE INTO` written as
    `INSERT OR REPLACE INTO`, table aliases resolved (`FROM t AS m ... m.col` -> `col`), `?N` / `:name` / `@name` / `$name`
    placeholders written `?` (the binding order is a matter of the params! list, not of the clause structure compared here)"""
    parts = re.split(r"('(?:[^']|'')*')", text)
    for i in range(0, len(parts), 2):
        seg = parts[i]
        for kw in sorted(KEYWORDS, key=len, reverse=True):
            seg = re.sub(r"(?<![\w.])%s(?![\w.])" % kw.replace(" ", r"\s+"), kw, seg, flags=re.I)
        parts[i] = seg
    text = "".join(parts)
    text = re.sub(r"^REPLACE\s+INTO\b", "INSERT OR REPLACE INTO", text)
    quals = set()
    kwset = set(k for kw in KEYWORDS for k in kw.split()) | {"ON", "DO", "ORDER", "GROUP", "BY", "CONFLICT", "NOTHING"}
    # qualifiers are only dropped when the statement reads one table: with a join, `s.col` / `g.col` tell the tables apart
    multi = re.search(r"\bJOIN\b", strip_strings(text), flags=re.I) is not None
    for m in ([] if multi else list(re.finditer(r"\b(?:FROM|UPDATE|INTO)\s+([A-Za-z_]\w*)((?:\s+AS)?\s+([A-Za-z_]\w*))?", strip_strings(text)))):
        if m.group(1).upper() in kwset:
            continue
        quals.add(m.group(1))
        if m.group(3) and m.group(3).upper() not in kwset:
            alias = m.group(3)
            quals.add(alias)
            text = re.sub(r"(\b(?:FROM|UPDATE|INTO)\s+%s)(?:\s+AS)?\s+%s\b" % (re.escape(m.group(1)), re.escape(alias)), r"\1", text, count=1)
    parts = re.split(r"('(?:[^']|'')*')", text)
    for i in range(0, len(parts), 2):
        seg = parts[i]
        for q in quals:
            seg = re.sub(r"(?<![\w.])%s\.(?=[A-Za-z_*])" % re.escape(q), "", seg)
        seg = re.sub(r"\?\d+", "?", seg)
        seg = re.sub(r"(?<![\w:])[:@$][A-Za-z_]\w*", "?", seg)
        parts[i] = seg
    return "".join(parts)


def split_top(s, sep=","):
    """split on sep at paren depth 0"""
    out, depth, cur = [], 0, ""
    i = 0
    while i < len(s):
        ch = s[i]
        if ch == "(":
            depth += 1
        elif ch == ")":
            depth -= 1
        if depth == 0 and s[i:i + len(sep)].upper() == sep.upper() and (sep.strip() == sep or True):
            out.append(cur)
            cur = ""
            i += len(sep)
            continue
        cur += ch
        i += 1
    out.append(cur)
    return [x.strip() for x in out]


def _clause(text, start_kw, end_kws):
    """text between start keyword and the first of the end keywords at depth 0 (case-insensitive)"""
    up = text.upper()
    depth = 0
    i = 0
    start = None
    n = len(text)
    while i < n:
        ch = text[i]
        if ch == "(":
            depth += 1
        elif ch == ")":
            depth -= 1
        if depth == 0 and start is None and up.startswith(start_kw, i) and (i == 0 or not up[i - 1].isalnum()) :
            start = i + len(start_kw)
            i = start
            continue
        if depth == 0 and start is not None:
            for kw in end_kws:
                if up.startswith(kw, i) and not up[i - 1].isalnum() and (i + len(kw) >= n or not up[i + len(kw)].isalnum()):
                    return text[start:i].strip()
        i += 1
    return text[start:].strip() if start is not None else None


class Stmt:
    def __init__(self, text):
        self.raw = text
        self.text = canon(norm(text))
        t = strip_strings(self.text)
        up = t.upper()
        self.kind = up.split(" ", 1)[0]
        self.or_replace = bool(re.match(r"INSERT\s+OR\s+REPLACE", up))
        self.or_ignore = bool(re.match(r"INSERT\s+OR\s+IGNORE", up))
        self.table = None
        self.columns = []
        self.where = []       # (column, op, rhs)
        self.order_by = []    # (column, ASC|DESC)
        self.limit = None
        self.offset = None
        self.conflict_cols = None
        self.conflict_any = False
        self.values = []
        self.update_set = []  # columns assigned in DO UPDATE SET / UPDATE SET
        self.update_where = None   # condition of a conditional upsert (DO UPDATE SET .. WHERE ..)
        self.set_literals = {}  # column -> literal in SET col = 'lit'
        self.select_cols = []
        self.distinct = False
        self.sub = []
        if self.kind == "SELECT":
            m = re.search(r"\bFROM\s+([A-Za-z_][\w]*)", t, re.I)
            # nested EXISTS(SELECT ..): analyse the innermost FROM
            inner = re.search(r"\(\s*(SELECT\b.*)\)\s*$", self.text, re.I)
            if inner and re.match(r"SELECT\s+EXISTS", up):
                sub = Stmt(inner.group(1).rsplit(")", 0)[0])
                self.__dict__.update({k: v for k, v in sub.__dict__.items() if k not in ("raw", "text")})
                self.kind = "SELECT"
                return
            self.table = m.group(1) if m else None
            sel = _clause(self.text, "SELECT", ["FROM"]) or ""
            if sel.upper().startswith("DISTINCT"):
                self.distinct = True
                sel = sel[8:].strip()
            self.select_cols = [c.strip() for c in split_top(sel)]
        elif self.kind == "INSERT":
            m = re.search(r"\bINTO\s+([A-Za-z_]\w*)\s*\(([^)]*)\)", self.text, re.I)
            if m:
                self.table = m.group(1)
                self.columns = [c.strip() for c in m.group(2).split(",")]
            mv = re.search(r"\bVALUES\s*\(", self.text, re.I)
            self.values = []
            if mv:
                depth, i0, i = 1, mv.end(), mv.end()
                while i < len(self.text) and depth:
                    depth += {"(": 1, ")": -1}.get(self.text[i], 0)
                    i += 1
                self.values = [v.strip() for v in split_top(self.text[i0:i - 1])]
            mc = re.search(r"ON\s+CONFLICT\s*(?:\(([^)]*)\))?\s*DO\s+(UPDATE\s+SET\s+(.*)|NOTHING)", self.text, re.I | re.S)
            if mc:
                # `ON CONFLICT DO UPDATE` without a target applies to a conflict on *any* unique index: recorded as an empty target
                self.conflict_cols = [c.strip() for c in mc.group(1).split(",")] if mc.group(1) is not None else []
                self.conflict_any = mc.group(1) is None
                if mc.group(3):
                    body = mc.group(3)
                    # `DO UPDATE SET .. WHERE cond`: the update is conditional (rows for which cond is false are silently kept)
                    mw = re.search(r"\bWHERE\b", strip_strings(body), re.I)
                    self.update_where = None
                    if mw:
                        self.update_where = body[mw.end():].strip()
                        body = body[:mw.start()]
                    for a in split_top(body):
                        self.update_set.append(a.split("=")[0].strip())
        elif self.kind == "UPDATE":
            m = re.match(r"UPDATE\s+([A-Za-z_]\w*)\s+SET\s+", self.text, re.I)
            self.table = m.group(1) if m else None
            st = _clause(self.text, "SET", ["WHERE"]) or ""
            for a in split_top(st):
                col = a.split("=")[0].strip()
                self.update_set.append(col)
                rhs = a.split("=", 1)[1].strip() if "=" in a else ""
                ml = re.match(r"^'([^']*)'$", rhs)
                if ml:
                    self.set_literals[col] = ml.group(1)
        elif self.kind == "DELETE":
            m = re.match(r"DELETE\s+FROM\s+([A-Za-z_]\w*)", self.text, re.I)
            self.table = m.group(1) if m else None
        w = _clause(self.text, "WHERE", ["ORDER BY", "GROUP BY", "LIMIT", "RETURNING"])
        if w is not None and self.kind in ("SELECT", "UPDATE", "DELETE"):
            for conj in split_top(w, " AND "):
                conj = conj.strip()
                m = re.match(r"^\(?\s*([A-Za-z_][\w\.]*)\s*(=|!=|<>|<=|>=|<|>|IS NOT|IS|LIKE|IN)\s*(.*?)\)?$", conj, re.I | re.S)
                if m:
                    self.where.append((m.group(1), m.group(2).upper(), m.group(3).strip()))
                else:
                    self.where.append((None, "?", conj))
        ob = _clause(self.text, "ORDER BY", ["LIMIT", "OFFSET"])
        if ob:
            for item in split_top(ob):
                parts = item.split()
                self.order_by.append((parts[0], (parts[1].upper() if len(parts) > 1 else "ASC")))
        ml = re.search(r"\bLIMIT\s+(\S+)", t, re.I)
        if ml:
            self.limit = ml.group(1)
        mo = re.search(r"\bOFFSET\s+(\S+)", t, re.I)
        if mo:
            self.offset = mo.group(1)

    def where_cols(self, op=None):
        return [c for c, o, r in self.where if c and (op is None or o == op)]

    def __repr__(self):
        return "<%s %s where=%s>" % (self.kind, self.table, self.where)


class SqlSite:
    def __init__(self, fn, bb, text, stmt):
        self.fn = fn
        self.bb = bb
        self.text = text
        self.stmt = stmt

    def loc(self):
        return self.fn.loc()


def _chain(f, local, kinds=("ref", "use", "cast", "tuple", "array")):
    """locals reached backwards from `local` through copies / references / aggregates"""
    seen, todo = set(), [local]
    while todo:
        l = todo.pop()
        if l in seen:
            continue
        seen.add(l)
        for bb, kind, x in f.defs().get(l, []):
            if kind == "stmt" and x.get("k") in kinds:
                for o in x.get("o", []):
                    if "p" in o:
                        todo.append(o["p"][0])
    return seen


def _const_table(c):
    """the strings of a named constant table (`const TABLES: [&str; 4] = [..]`), which the driver prints with its value"""
    if not isinstance(c, dict) or not isinstance(c.get("evaluated"), str) or "&str" not in (c.get("ty") or ""):
        return None
    vals = [m.group(1) for m in re.finditer(r'"((?:[^"\\]|\\.)*)"', c["evaluated"])]
    return vals or None


def resolve_strs(f, local, depth=0, where=None):
    """the finite set of string constants a local can hold: constants, copies, elements of a constant array iterated by a `for`
    loop (into_iter / iter + next).  None when anything else can flow in."""
    if depth > 40:
        return None
    out = set()
    defs = f.defs().get(local, [])
    if not defs:
        return None
    for bb, kind, x in defs:
        if kind == "stmt":
            k = x.get("k")
            if k in ("use", "ref", "cast", "tuple", "array"):
                for o in x.get("o", []):
                    if "c" in o:
                        if "str" in o["c"]:
                            out.add(o["c"]["str"])
                            if where is not None:
                                where.setdefault(o["c"]["str"], set()).add(bb)
                        elif _const_table(o["c"]):
                            for v in _const_table(o["c"]):
                                out.add(v)
                                if where is not None:
                                    where.setdefault(v, set()).add(bb)
                        else:
                            return None
                    else:
                        r = resolve_strs(f, o["p"][0], depth + 1, where)
                        if r is None:
                            return None
                        out |= r
            else:
                return None
        else:
            c = x
            if c.dst and c.dst[0] != local:
                continue      # `&mut` side effect of a call on an iterator: not a new value
            if c.name in ("into_iter", "iter") and c.krate in ("core", "alloc", "std") and c.args and "c" in c.args[0] and _const_table(c.args[0]["c"]):
                # `for t in TABLES` over a named constant table
                for v in _const_table(c.args[0]["c"]):
                    out.add(v)
                    if where is not None:
                        where.setdefault(v, set()).add(bb)
            elif c.name in ("next", "into_iter", "iter", "copied", "cloned", "deref", "as_str", "clone", "borrow", "as_ref") and c.krate in ("core", "alloc", "std") and c.args and "p" in c.args[0]:
                r = resolve_strs(f, c.args[0]["p"][0], depth + 1, where)
                if r is None:
                    return None
                out |= r
            else:
                return None
    return out


def dynamic_sites(f):
    """SQL built with format!("... {} ...", x) where x ranges over a finite set of string constants: one statement per value"""
    out = []
    for c in f.calls():
        if not (c.name == "new" and last_seg_(c.self_adt) == "Arguments" and len(c.args) == 2 and all("p" in a for a in c.args)):
            continue
        tmpl = None
        for l in _chain(f, c.args[0]["p"][0]):
            for bb, kind, x in f.defs().get(l, []):
                if kind == "stmt":
                    for o in x.get("o", []):
                        if "c" in o and "bytes" in o["c"]:
                            tmpl = o["c"]["bytes"]
        if tmpl is None:
            continue
        pieces, holes, i = [], 0, 0
        cur = ""
        while i < len(tmpl):
            n = ord(tmpl[i])
            if 0 < n < 0x80 and i + 1 + n <= len(tmpl):
                cur += tmpl[i + 1:i + 1 + n]
                i += 1 + n
            elif n == 0:
                break
            else:
                # a placeholder opcode (plus its one-byte operand): close the current literal piece
                pieces.append(cur)
                cur = ""
                holes += 1
                i += 1
        pieces.append(cur)
        if holes != 1 or len(pieces) != 2 or not SQL_START.match(pieces[0]):
            continue
        # the single argument: Argument::new_display(&x) stored in the args array
        vals = None
        for l in _chain(f, c.args[1]["p"][0]):
            for bb, kind, x in f.defs().get(l, []):
                if kind == "call" and x.name in ("new_display",) and x.args and "p" in x.args[0] and x.dst and x.dst[0] == l:
                    where = {}
                    vals = resolve_strs(f, x.args[0]["p"][0], 0, where)
        if not vals:
            continue
        for v in sorted(vals):
            text = pieces[0] + v + pieces[1]
            site = SqlSite(f, c.bb, text, Stmt(text))
            site.val_bbs = sorted(where.get(v, ()))      # where the interpolated constant is chosen (e.g. a match arm)
            site.fmt_dst = c.dst[0] if c.dst else None   # the fmt::Arguments the text is formatted from
            out.append(site)
    return out


def last_seg_(p):
    return (p or "").split("<")[0].split("::")[-1]


def collect(prog, crate="mdk_sqlite_storage"):
    """every SQL-looking string constant in non-test code of the crate -> SqlSite (plus SQL formatted from a constant table list)"""
    out = []
    for f in prog.nontest_fns((crate,)):
        seen = set()
        for bb, s in f.str_consts():
            if SQL_START.match(s) and (bb, s) not in seen:
                seen.add((bb, s))
                out.append(SqlSite(f, bb, s, Stmt(s)))
        out.extend(dynamic_sites(f))
    return out


def sites_in_extent(prog, sites, root, crate="mdk_sqlite_storage"):
    ext = prog.extent(root)
    return [s for s in sites if s.fn.path in ext or s.fn.root in ext]
