"""Program model over the mdkfacts JSON: functions, CFGs, dominators, call graph, value flow."""
import collections
import os
import re

WORKSPACE = ("mdk_core", "mdk_memory_storage", "mdk_sqlite_storage", "mdk_storage_traits", "mdk_uniffi",
             "mdk_verif_witness")


def last_seg(path):
    """`a::b::C::<T>::m` -> `m`; `a::b::C` -> `C` (generic args stripped)"""
    if path is None:
        return None
    p = re.sub(r"<[^<>]*>", "", path)
    while "<" in p:
        q = re.sub(r"<[^<>]*>", "", p)
        if q == p:
            break
        p = q
    return p.rstrip(":").split("::")[-1]


def place_local(pl):
    return pl[0]


def place_fields(pl):
    return [x[1:] for x in pl[1:] if isinstance(x, str) and x.startswith(".")]


class Call:
    __slots__ = ("fn", "bb", "t", "callee", "path", "name", "krate", "self_adt", "trait", "resolved", "args", "dst",
                 "file", "line", "expn", "gen", "self_ty")

    def __init__(self, fn, bb, t):
        self.fn = fn
        self.bb = bb
        self.t = t
        c = t.get("callee", {})
        self.callee = c
        self.path = c.get("path")
        self.resolved = c.get("resolved") or c.get("path")
        self.name = c.get("name") or ""      # a call through a function pointer has no name
        self.krate = c.get("rkrate") or c.get("krate")
        self.self_adt = c.get("self_adt")
        self.self_ty = c.get("self_ty")
        self.trait = c.get("trait")
        self.gen = c.get("gen", [])
        self.args = t.get("args", [])
        self.dst = t.get("dst")
        self.file = t.get("file")
        self.line = t.get("line")
        self.expn = t.get("expn") or []

    def loc(self):
        return "%s:%s" % (self.file, self.line)

    def is_method(self, adt_last, name):
        """external/inherent method identity: last segment of the ADT and method name"""
        return self.name == name and last_seg(self.self_adt) == adt_last

    def is_trait_method(self, trait_last, name):
        return self.name == name and last_seg(self.trait) == trait_last

    def in_macro(self, *names):
        return any(any(e.endswith(n) or e == n for n in names) for e in self.expn)

    def __repr__(self):
        return "<call %s @%s bb%d>" % (self.resolved, self.loc(), self.bb)


class Fn:
    def __init__(self, d, crate):
        self.d = d
        self.crate = crate
        self.path = d["path"]
        self.kind = d["kind"]
        self.name = d.get("name")
        self.vis = d.get("vis")
        self.self_adt = d.get("self_adt")
        self.self_ty = d.get("self_ty")
        self.impl_trait = d.get("impl_trait")
        self.in_trait = d.get("in_trait")
        self.trait_item = d.get("trait_item")
        self.derived = bool(d.get("derived"))
        self.parent = d.get("parent")
        self.root = d.get("root") or self.path
        self.file = d.get("file")
        self.line = d.get("line")
        self.expn = d.get("expn") or []
        self.blocks = d["blocks"]
        self.locals = d["locals"]
        self.nargs = d["nargs"]
        self.ret = d.get("ret")
        self.promoted = d.get("promoted") or []
        self.debug = d.get("debug") or []
        self._calls = None
        self._succ = None
        self._pred = None
        self._dom = None
        self._pdom = None
        self._reach = {}
        self._defs = None

    # ---------- identity ----------
    def is_closure(self):
        return self.kind == "Closure"

    def is_pub(self):
        return self.vis == "pub"

    def is_test_like(self):
        p = self.path
        return ("::test_util" in p or "::tests::" in p or "::test_utils" in p)

    def loc(self):
        return "%s:%s" % (self.file, self.line)

    def label(self):
        """stable human label: Type::method (no module path, no lines)"""
        if self.is_closure():
            return self.path
        if self.impl_trait and self.self_adt:
            return "<%s as %s>::%s" % (last_seg(self.self_adt), last_seg(self.impl_trait), self.name)
        if self.self_adt:
            return "%s::%s" % (last_seg(self.self_adt), self.name)
        return self.path

    def local_name(self, l):
        for name, pl in self.debug:
            if len(pl) == 1 and pl[0] == l:
                return name
        return None

    # ---------- CFG ----------
    def nblocks(self):
        return len(self.blocks)

    def term(self, bb):
        return self.blocks[bb]["t"]

    def is_cleanup(self, bb):
        return bool(self.blocks[bb].get("cl"))

    def succ(self, bb, unwind=False):
        t = self.blocks[bb]["t"]
        k = t["k"]
        out = []
        if k in ("goto", "drop", "assert"):
            out.append(t["to"])
        elif k == "call":
            if "to" in t:
                out.append(t["to"])
        elif k == "switch":
            out.extend(x[1] for x in t["targets"])
            out.append(t["otherwise"])
        elif k == "otherterm":
            out.extend(t.get("succ", []))
        if unwind and "u" in t:
            out.append(t["u"])
        return out

    def succs(self):
        if self._succ is None:
            self._succ = [self.succ(b) for b in range(len(self.blocks))]
            self._pred = [[] for _ in self.blocks]
            for b, ss in enumerate(self._succ):
                for s in ss:
                    self._pred[s].append(b)
        return self._succ

    def preds(self):
        self.succs()
        return self._pred

    def reachable_from(self, start, avoid=frozenset()):
        """blocks reachable from `start` (inclusive) on the normal (non-unwind) CFG avoiding `avoid`"""
        key = (start, avoid if isinstance(avoid, frozenset) else frozenset(avoid))
        r = self._reach.get(key)
        if r is not None:
            return r
        succ = self.succs()
        seen = set()
        if start in key[1]:
            self._reach[key] = seen
            return seen
        st = [start]
        seen.add(start)
        while st:
            b = st.pop()
            for s in succ[b]:
                if s not in seen and s not in key[1]:
                    seen.add(s)
                    st.append(s)
        self._reach[key] = seen
        return seen

    def return_blocks(self):
        return [b for b in range(len(self.blocks)) if self.blocks[b]["t"]["k"] == "return"]

    def dominators(self):
        """dom[b] = set of blocks dominating b (normal CFG from bb0); unreachable blocks get {b}"""
        if self._dom is not None:
            return self._dom
        n = len(self.blocks)
        reach = self.reachable_from(0)
        preds = self.preds()
        allb = set(reach)
        dom = {b: set(allb) for b in reach}
        dom[0] = {0}
        order = self._rpo(reach)
        changed = True
        while changed:
            changed = False
            for b in order:
                if b == 0:
                    continue
                ps = [p for p in preds[b] if p in reach]
                new = set(allb)
                for p in ps:
                    new &= dom[p]
                new.add(b)
                if new != dom[b]:
                    dom[b] = new
                    changed = True
        for b in range(n):
            if b not in dom:
                dom[b] = {b}
        self._dom = dom
        return dom

    def _rpo(self, reach):
        succ = self.succs()
        seen = set()
        order = []
        st = [(0, iter(succ[0]))]
        seen.add(0)
        while st:
            b, it = st[-1]
            adv = False
            for s in it:
                if s not in seen and s in reach:
                    seen.add(s)
                    st.append((s, iter(succ[s])))
                    adv = True
                    break
            if not adv:
                order.append(b)
                st.pop()
        order.reverse()
        return order

    def dominates(self, a, b):
        return a in self.dominators()[b]

    # ---------- calls / statements ----------
    def calls(self):
        if self._calls is None:
            self._calls = []
            for i, b in enumerate(self.blocks):
                t = b["t"]
                if t["k"] == "call":
                    self._calls.append(Call(self, i, t))
        return self._calls

    def live_calls(self):
        """calls in non-cleanup blocks reachable from entry"""
        reach = self.reachable_from(0)
        return [c for c in self.calls() if c.bb in reach and not self.is_cleanup(c.bb)]

    def stmts(self):
        for i, b in enumerate(self.blocks):
            for s in b["s"]:
                yield i, s

    def aggregates(self, adt_last=None, variant=None):
        for bb, s in self.stmts():
            if s.get("k") == "agg":
                if adt_last and last_seg(s["adt"]) != adt_last:
                    continue
                if variant and s.get("variant") != variant:
                    continue
                yield bb, s

    def str_consts(self):
        """all &str constants appearing in the body (statements, call args, promoted tables)"""
        out = []

        def op(o, bb):
            c = o.get("c") if isinstance(o, dict) else None
            if c and "str" in c:
                out.append((bb, c["str"]))
            elif c and "evaluated" in c:
                # a constant aggregate (`const SUFFIXES: [&str; 3] = ["-wal", ..]`): its string elements
                for m in re.finditer(r'"((?:[^"\\]|\\.)*)"', c["evaluated"]):
                    out.append((bb, m.group(1)))
        for bb, s in self.stmts():
            for o in s.get("o", []):
                op(o, bb)
        for i, b in enumerate(self.blocks):
            t = b["t"]
            if t["k"] == "call":
                for a in t.get("args", []):
                    op(a, i)
        for pr in self.promoted:
            for c in pr:
                if "str" in c:
                    out.append((-1, c["str"]))
                elif "evaluated" in c:
                    for m in re.finditer(r'"((?:[^"\\]|\\.)*)"', c["evaluated"]):
                        out.append((-1, m.group(1)))
        return out

    def fmt_templates(self):
        """literal pieces of format_args! templates (compact &[u8; N] encoding: <len><literal bytes>... opcodes >= 0x80)"""
        out = []
        for bb, s in self.stmts():
            for o in s.get("o", []):
                c = o.get("c") if isinstance(o, dict) else None
                if c and "bytes" in c:
                    raw = c["bytes"]
                    pieces = []
                    i = 0
                    while i < len(raw):
                        n = ord(raw[i])
                        if 0 < n < 0x80 and i + 1 + n <= len(raw):
                            pieces.append(raw[i + 1:i + 1 + n])
                            i += 1 + n
                        else:
                            i += 1
                    out.append((bb, pieces))
        return out

    # ---------- value flow (flow-insensitive, per function) ----------
    def defs(self):
        """local -> list of (bb, kind, payload) definitions. payload: stmt dict or Call"""
        if self._defs is None:
            d = collections.defaultdict(list)
            for bb, s in self.stmts():
                d[s["d"][0]].append((bb, "stmt", s))
            # `&mut x` handed to a call: the callee may write x (e.g. set.insert(v), vec.push(v))
            mutref = {}
            for bb, s in self.stmts():
                if s.get("k") == "ref" and s.get("mutb") and len(s["d"]) == 1 and s["o"] and "p" in s["o"][0]:
                    mutref[s["d"][0]] = s["o"][0]["p"][0]
            for c in self.calls():
                if c.dst:
                    d[c.dst[0]].append((c.bb, "call", c))
                for a in c.args:
                    if "p" in a and len(a["p"]) == 1 and a["p"][0] in mutref and len(c.args) > 1:
                        base = mutref[a["p"][0]]
                        if not c.dst or base != c.dst[0]:
                            d[base].append((c.bb, "call", c))
            self._defs = d
        return self._defs

    def flows_from(self, seeds, through_calls=True, stop_calls=None, fieldwise=False):
        """Forward closure: locals (flow-insensitively) data-dependent on the seed locals.
        A call propagates from any argument to its destination (and to &mut arguments is ignored)."""
        seeds = set(seeds)
        changed = True
        while changed:
            changed = False
            for bb, s in self.stmts():
                dl = s["d"][0]
                if dl in seeds:
                    continue
                for o in s.get("o", []):
                    p = o.get("p") if isinstance(o, dict) else None
                    if p is not None and p[0] in seeds:
                        seeds.add(dl)
                        changed = True
                        break
                    # index projections
                    if p is not None:
                        for e in p[1:]:
                            if isinstance(e, str) and e.startswith("[_"):
                                try:
                                    if int(e[2:-1]) in seeds:
                                        seeds.add(dl)
                                        changed = True
                                except ValueError:
                                    pass
            if through_calls:
                for c in self.calls():
                    if not c.dst or c.dst[0] in seeds:
                        continue
                    if stop_calls and stop_calls(c):
                        continue
                    for a in c.args:
                        p = a.get("p")
                        if p is not None and p[0] in seeds:
                            seeds.add(c.dst[0])
                            changed = True
                            break
        return seeds

    CONTEXT_TY = re.compile(r"^&(mut )?(mdk_core::MDK<|mdk_core::MdkProvider<|Storage\b|mdk_memory_storage::MdkMemoryStorage\b|mdk_sqlite_storage::MdkSqliteStorage\b|S\b)")

    def is_context_local(self, l):
        """the receiver / environment object (&MDK, &Storage ...): carries no message- or call-specific data"""
        return bool(self.CONTEXT_TY.match(self.locals[l])) if 0 <= l < len(self.locals) else False

    def depends_on(self, local, call_filter=None, skip_context_args=False):
        """Backward closure: set of locals `local` may be data-dependent on (flow-insensitive),
        plus the set of Calls and constants that feed it."""
        defs = self.defs()
        seen = set()
        calls = []
        consts = []
        st = [local]
        while st:
            l = st.pop()
            if l in seen:
                continue
            seen.add(l)
            for bb, kind, x in defs.get(l, []):
                if kind == "stmt":
                    for o in x.get("o", []):
                        if "p" in o:
                            st.append(o["p"][0])
                            for e in o["p"][1:]:
                                if isinstance(e, str) and e.startswith("[_"):
                                    try:
                                        st.append(int(e[2:-1]))
                                    except ValueError:
                                        pass
                        elif "c" in o:
                            consts.append((bb, o["c"]))
                    if x.get("k") in ("agg", "closure", "setdiscr"):
                        consts.append((bb, {"agg": x.get("adt"), "variant": x.get("variant"), "closure": x.get("closure")}))
                else:
                    calls.append(x)
                    if call_filter is not None and not call_filter(x):
                        continue
                    for a in x.args:
                        if "p" in a:
                            if skip_context_args and len(a["p"]) == 1 and self.is_context_local(a["p"][0]):
                                continue
                            st.append(a["p"][0])
                        elif "c" in a:
                            consts.append((bb, a["c"]))
        return seen, calls, consts


class Program:
    def __init__(self, facts, inline=None):
        # private helpers are inlined into their callers before any rule looks at a function body (see inline.py)
        if inline is None:
            inline = os.environ.get("VERIF_NO_INLINE") != "1"
        self.inlined_calls = 0
        if inline:
            import inline as _inl
            facts, self.inlined_calls = _inl.apply(facts)
        self.fns = {}
        self.by_crate = collections.defaultdict(list)
        self.adts = {}
        self.impls = []
        self.crate_info = {}
        for crate, d in facts.items():
            self.crate_info[crate] = {"unsafe_code_level": d.get("unsafe_code_level"), "crate_types": d.get("crate_types")}
            for fd in d["fns"]:
                f = Fn(fd, crate)
                self.fns[f.path] = f
                self.by_crate[crate].append(f)
            for a in d["adts"]:
                cur = self.adts.get(a["path"])
                if cur is None or a.get("local"):
                    self.adts[a["path"]] = a
            for im in d["impls"]:
                im = dict(im)
                im["crate"] = crate
                self.impls.append(im)
        # trait method -> impl fns
        self.trait_impls = collections.defaultdict(list)
        for f in self.fns.values():
            if f.trait_item:
                self.trait_impls[f.trait_item].append(f)
        self.closures_of = collections.defaultdict(list)
        for f in self.fns.values():
            if f.is_closure():
                self.closures_of[f.parent].append(f)
        self._edges = None
        self._redges = None

    def family(self, f):
        """f and the closures created in its body (after inlining: also those of the helpers inlined into it), transitively"""
        out, todo, seen = [], [f], set()
        while todo:
            g = todo.pop()
            if g.path in seen:
                continue
            seen.add(g.path)
            out.append(g)
            for bb, st in g.stmts():
                if st.get("k") == "closure" and st.get("closure") in self.fns:
                    todo.append(self.fns[st["closure"]])
            for c in self.closures_of.get(g.path, []):
                todo.append(c)
        return out

    # ---------- lookup ----------
    def find(self, adt=None, name=None, crate=None, trait=None, path_contains=None, include_tests=False):
        out = []
        for f in self.fns.values():
            if f.is_closure():
                continue
            if name is not None and f.name != name:
                continue
            if adt is not None and last_seg(f.self_adt) != adt:
                continue
            if crate is not None and f.crate != crate:
                continue
            if trait is not None and last_seg(f.impl_trait) != trait:
                continue
            if path_contains is not None and path_contains not in f.path:
                continue
            if not include_tests and f.is_test_like():
                continue
            out.append(f)
        return out

    def one(self, **kw):
        r = self.find(**kw)
        if len(r) != 1:
            raise LookupError("expected exactly one fn for %r, found %d: %s" % (kw, len(r), [f.path for f in r]))
        return r[0]

    def adt(self, last, crate=None):
        c = [a for p, a in self.adts.items() if last_seg(p) == last and (crate is None or p.startswith(crate + "::"))]
        if len(c) != 1:
            raise LookupError("adt %s: %d candidates %s" % (last, len(c), [a["path"] for a in c]))
        return c[0]

    def nontest_fns(self, crates=None):
        for f in self.fns.values():
            if crates and f.crate not in crates:
                continue
            if f.is_test_like():
                continue
            yield f

    # ---------- call graph ----------
    def call_targets(self, c):
        """workspace Fn targets of a call: direct, resolved, or all impls of a workspace trait method"""
        out = []
        r = c.resolved
        f = self.fns.get(r)
        if f is not None:
            out.append(f)
            return out
        if c.trait and c.path in self.trait_impls and c.trait.split("::")[0] in WORKSPACE:
            # generic / dyn call through a workspace (or std) trait implemented in the workspace
            # only expand when unresolved to a concrete impl
            if c.callee.get("resolved") is None:
                st = c.self_ty or ""
                impls = self.trait_impls[c.path]
                # if the self type is a concrete workspace ADT, restrict to it
                conc = [g for g in impls if g.self_ty and g.self_ty == st]
                out.extend(conc if conc else impls)
        return out

    def edges(self):
        if self._edges is None:
            e = collections.defaultdict(set)
            r = collections.defaultdict(set)
            for f in self.fns.values():
                for c in f.calls():
                    for g in self.call_targets(c):
                        e[f.path].add(g.path)
                        r[g.path].add(f.path)
                    # fn items / closures passed by value
                    for a in c.args:
                        cc = a.get("c")
                        if cc and "fn" in cc and cc["fn"] in self.fns:
                            e[f.path].add(cc["fn"])
                            r[cc["fn"]].add(f.path)
                for bb, s in f.stmts():
                    if s.get("k") == "closure" and s["closure"] in self.fns:
                        e[f.path].add(s["closure"])
                        r[s["closure"]].add(f.path)
                    for o in s.get("o", []):
                        cc = o.get("c") if isinstance(o, dict) else None
                        if cc and "fn" in cc and cc["fn"] in self.fns:
                            e[f.path].add(cc["fn"])
                            r[cc["fn"]].add(f.path)
            self._edges, self._redges = e, r
        return self._edges

    def redges(self):
        self.edges()
        return self._redges

    def reachable(self, roots):
        e = self.edges()
        seen = set()
        st = [r.path if isinstance(r, Fn) else r for r in roots]
        while st:
            p = st.pop()
            if p in seen:
                continue
            seen.add(p)
            st.extend(e.get(p, ()))
        return seen

    def extent(self, f):
        """f plus everything reachable from it (its dynamic extent over the workspace call graph)"""
        return self.reachable([f])

    def callers_chain(self, target_path, roots, limit=12):
        """one shortest call chain from any root to target (for diagnostics)"""
        e = self.edges()
        roots = [r.path if isinstance(r, Fn) else r for r in roots]
        prev = {r: None for r in roots}
        dq = collections.deque(roots)
        while dq:
            p = dq.popleft()
            if p == target_path:
                chain = []
                while p is not None:
                    chain.append(p)
                    p = prev[p]
                return list(reversed(chain))
            for q in e.get(p, ()):
                if q not in prev:
                    prev[q] = p
                    dq.append(q)
        return None

    def all_calls(self, pred, crates=None, include_tests=False):
        out = []
        for f in self.fns.values():
            if crates and f.crate not in crates:
                continue
            if not include_tests and f.is_test_like():
                continue
            for c in f.live_calls():
                if pred(c):
                    out.append(c)
        return out
