"""Tiny affine evaluator over straight-line MIR: locals -> {symbol: coeff, 1: const}.  min / max / saturating_sub are resolved
when the regime (a cone: by default cur >= L >= 1) decides which side they take; otherwise the local has no value (undecided)."""


def add(a, b, sign=1):
    out = dict(a)
    for k, v in b.items():
        out[k] = out.get(k, 0) + sign * v
    return {k: v for k, v in out.items() if v != 0}


def const(n):
    return {1: n} if n else {}


def sym(name):
    return {name: 1}


def bounds(g, vertex=None, rays=None):
    """(min, max) of the affine form g over the regime cone  {vertex + sum t_i * ray_i, t_i >= 0}; None = unbounded.
    Default regime: cur >= L >= 1  (vertex cur = L = 1; rays: cur grows alone, cur and L grow together)."""
    vertex = vertex or {"cur": 1, "L": 1}
    rays = rays or [{"cur": 1, "L": 0}, {"cur": 1, "L": 1}]
    if any(k not in (1, "cur", "L") for k in g):
        return None, None
    at = g.get(1, 0) + sum(g.get(k, 0) * v for k, v in vertex.items())
    slopes = [sum(g.get(k, 0) * v for k, v in r.items()) for r in rays]
    lo = at if all(x >= 0 for x in slopes) else None
    hi = at if all(x <= 0 for x in slopes) else None
    return lo, hi


def pick(a, b, kind):
    """min / max / saturating difference of two affine forms, when the regime decides it; else None"""
    d = add(a, b, -1)
    lo, hi = bounds(d)
    if kind == "min":
        return a if (hi is not None and hi <= 0) else (b if (lo is not None and lo >= 0) else None)
    if kind == "max":
        return b if (hi is not None and hi <= 0) else (a if (lo is not None and lo >= 0) else None)
    if kind == "satsub":
        return d if (lo is not None and lo >= 0) else ({} if (hi is not None and hi <= 0) else None)
    return None


ARITH = {"saturating_sub": -1, "wrapping_sub": -1, "checked_sub": -1, "sub": -1, "saturating_add": 1, "wrapping_add": 1, "checked_add": 1, "add": 1}


def evaluate(f, seeds, call_syms):
    """seeds: {local: affine}; call_syms(call) -> affine or None for calls that introduce a symbol.
    Returns env after a fixed point over all blocks (definitions with a single consistent value only)."""
    env = dict(seeds)
    conflict = set()

    def opval(o):
        if "c" in o:
            if "int" in o["c"]:
                return const(o["c"]["int"])
            return None
        pl = o["p"]
        if pl[0] in conflict:
            return None
        v = env.get(pl[0])
        if v is None:
            return None
        # (x, overflow_flag).0 of checked arithmetic keeps the value
        return v

    def assign(l, v):
        if l in conflict:
            return False
        if l in env:
            if env[l] != v:
                conflict.add(l)
                env.pop(l, None)
                return True
            return False
        env[l] = v
        return True

    changed = True
    it = 0
    while changed and it < 50:
        it += 1
        changed = False
        for bb, s in f.stmts():
            if len(s["d"]) != 1:
                continue
            k = s.get("k")
            v = None
            if k in ("use", "cast") and s["o"]:
                v = opval(s["o"][0])
            elif k == "binop" and s["op"] in ("Add", "Sub", "AddWithOverflow", "SubWithOverflow", "AddUnchecked", "SubUnchecked"):
                a, b = opval(s["o"][0]), opval(s["o"][1])
                if a is not None and b is not None:
                    v = add(a, b, 1 if s["op"].startswith("Add") else -1)
            if v is not None:
                changed |= assign(s["d"][0], v)
        for c in f.calls():
            if not c.dst or len(c.dst) != 1:
                continue
            v = call_syms(c)
            if v is None and c.name in ARITH and len(c.args) == 2:
                a, b = opval(c.args[0]), opval(c.args[1])
                if a is not None and b is not None:
                    if c.name == "saturating_sub":
                        v = pick(a, b, "satsub")
                    else:
                        v = add(a, b, ARITH[c.name])
            if v is None and c.name in ("min", "max") and len(c.args) == 2:
                a, b = opval(c.args[0]), opval(c.args[1])
                if a is not None and b is not None:
                    v = pick(a, b, c.name)
            if v is None and c.name in ("as_u64", "into", "from", "clone", "min", "max") and len(c.args) == 1:
                v = opval(c.args[0])
            if v is not None:
                changed |= assign(c.dst[0], v)
    return env
