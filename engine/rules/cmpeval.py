"""Comparator decision tables: symbolic evaluation (with inlining of storage-traits helpers and closures) of
Message comparators and of the sort closures that use them, over the 27 orderings of (created_at, processed_at, id)."""
import itertools
import dtable

KEYS = ("created_at", "processed_at", "id")


def _classify(names):
    def classify(v):
        while v[0] == "proj" and not v[2].startswith("."):
            v = v[1]
        if v[0] == "proj" and v[1][0] == "param" and v[2][1:] in KEYS:
            return (names.get(v[1][2], v[1][1]), v[2][1:])
        return None
    return classify


def table(prog, f, env, a_name, b_name, indirect_target=None):
    """evaluate f for every ordering of the three keys of A relative to B; returns {rel3: -1/0/1} or raises Undecided"""
    out = {}
    for rel in itertools.product((-1, 0, 1), repeat=3):
        m = dict(zip(KEYS, rel))

        def relation(x, y, m=m):
            if x[1] != y[1]:
                return None
            r = m[x[1]]
            if (x[0], y[0]) == (a_name, b_name):
                return r
            if (x[0], y[0]) == (b_name, a_name):
                return -r
            return 0
        names = {}
        ev = dtable.Evaluator(f, _classify(names), relation, lambda bb, v, t: None, prog=prog,
                              inline=lambda t: t.crate in ("mdk_storage_traits",) and not t.is_test_like())
        ev.indirect_target = indirect_target
        res = ev.run(dict(env))
        if not res or res[0] != "ordering":
            raise dtable.Undecided("comparator returned %r" % (res,))
        out[rel] = res[1]
    return out


def lex(chain, rel):
    m = dict(zip(KEYS, rel))
    for k in chain:
        if m[k] != 0:
            return m[k]
    return 0


def match_chain(tbl):
    """(chain, sign) such that tbl == sign * lexicographic(chain); None if no permutation matches"""
    for chain in itertools.permutations(KEYS):
        for sign in (1, -1):
            if all(tbl[rel] == sign * lex(chain, rel) for rel in tbl):
                return list(chain), sign
    return None
