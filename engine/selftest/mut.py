#!/usr/bin/env python3
"""Self-test helper: apply a mutation to a scratch copy of /repo (sources only, outside /repo and /verif),
run checks against it with MDK_REPO, report whether each check fired, and remove the copy.
usage: mut.py --ids C01,C02 (--patch file.diff | --sub FILE 'old' 'new')..."""
import argparse
import os
import shutil
import subprocess
import sys
import tempfile

VERIF = os.path.dirname(os.path.dirname(os.path.dirname(os.path.abspath(__file__))))


def make_scratch():
    d = tempfile.mkdtemp(prefix="mdk-mut-", dir=os.environ.get("TMPDIR", "/tmp"))
    subprocess.run(["rsync", "-a", "--exclude", "target", "--exclude", ".git", "--exclude", "trees", "/repo/", d + "/"], check=True)
    return d


def run_checks(scratch, ids, tier="quick"):
    res = {}
    for i in ids:
        env = dict(os.environ, MDK_REPO=scratch, MDK_EVIDENCE_DIR=os.path.join(scratch, ".evidence"))
        r = subprocess.run([os.path.join(VERIF, "check"), i, tier], capture_output=True, text=True, env=env)
        res[i] = (r.returncode, r.stdout + r.stderr)
    return res


def main():
    ap = argparse.ArgumentParser()
    ap.add_argument("--ids", required=True)
    ap.add_argument("--patch", action="append", default=[])
    ap.add_argument("--sub", nargs=3, action="append", default=[], metavar=("FILE", "OLD", "NEW"))
    ap.add_argument("--keep", action="store_true")
    ap.add_argument("-v", action="store_true")
    a = ap.parse_args()
    d = make_scratch()
    try:
        for p in a.patch:
            r = subprocess.run(["git", "apply", "--unsafe-paths", "--directory", d, os.path.abspath(p)], cwd="/")
            if r.returncode != 0:
                subprocess.run("patch -p1 --fuzz=3 --no-backup-if-mismatch -d %s < %s" % (d, os.path.abspath(p)), shell=True, check=True)
        for f, old, new in a.sub:
            fp = os.path.join(d, f)
            s = open(fp).read()
            if s.count(old) != 1:
                print("SUB ERROR: %d occurrences of %r in %s" % (s.count(old), old[:60], f))
                return 2
            open(fp, "w").write(s.replace(old, new))
        res = run_checks(d, a.ids.split(","))
        for i, (rc, out) in res.items():
            lines = [l for l in out.splitlines() if l.startswith(("VIOLATION", "  VIOLATED", "BUILD FAILED", "CHECKER ERROR"))]
            print("%s exit=%d %s" % (i, rc, "FIRED" if rc == 1 else ("silent" if rc == 0 else "ERROR")))
            for l in (out.splitlines() if a.v else lines):
                print("    " + l[:400])
    finally:
        if not a.keep:
            shutil.rmtree(d, ignore_errors=True)
    return 0


if __name__ == "__main__":
    sys.exit(main())
